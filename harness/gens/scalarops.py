"""Generator of lean/Yaql/Gen/ScalarOps.lean: the operator table of the default engine
(`YaqlFactory().operators`) and EVERY overload registered in `yaql.create_context()` under a
function name an operator calls (`#operator_X`, `#unary_operator_X`, `*alias`), each parameter
described by what its smart type accepts: the scalar kinds whose probe values all pass
`value_type.check` (probed on the live objects, so validators are exercised, not read)."""
import common  # noqa: F401
import pyfacts
import yaql
from yaql.language import factory, specs, yaqltypes

from gens import registry

PROBES = [
    ('null', [None]),
    ('bool', [True, False]),
    ('int', [0, 1, -1, 2 ** 63, -2 ** 70, 10 ** 40]),
    ('float', [0.0, -0.0, 1.5, -2.5e300, 5e-324, float('inf'), float('-inf'), float('nan')]),
    ('str', ['', 'a', 'ab\U0001F600', '0', 'True']),
]


def operators():
    """[(symbol, unary, function name)] in the order of the factory's operator list"""
    out = []
    for rec in factory.YaqlFactory().operators:
        if not rec:
            continue
        sym, typ = rec[0], rec[1]
        alias = rec[2] if len(rec) > 2 else None
        unary = typ in (factory.OperatorType.PREFIX_UNARY, factory.OperatorType.SUFFIX_UNARY)
        if unary:
            fname = '#unary_operator_' + sym
        elif alias:
            fname = '*' + alias
        else:
            fname = '#operator_' + sym
        out.append((sym, unary, fname))
    return out


def describe(p, ctx, eng):
    acc, mixed = [], False
    for kind, values in PROBES:
        oks = []
        for v in values:
            try:
                oks.append(bool(p.value_type.check(v, ctx, eng)))
            except Exception:
                oks.append(None)
        if all(o is True for o in oks):
            acc.append(kind)
        elif any(o is not False for o in oks):
            mixed = True
    return acc, mixed


def param_lean(p, ctx, eng):
    acc, mixed = describe(p, ctx, eng)
    return ('{ cls := %s, accepts := [%s], mixed := %s, hasDefault := %s }' % (
        registry.lchars(type(p.value_type).__name__), ', '.join('.' + k for k in acc),
        'true' if mixed else 'false', 'false' if p.default is specs.NO_DEFAULT else 'true')), acc


def rows():
    ctx = yaql.create_context()
    eng = factory.YaqlFactory().create()
    names = {f for _, _, f in operators()}
    out = []
    for layer, name, fd in registry.all_definitions(ctx):
        if name not in names:
            continue
        pos, star, kwonly = [], None, 0
        for key, p in fd.parameters.items():
            if isinstance(p.value_type, yaqltypes.HiddenParameterType):
                continue
            if key == '*':
                star = p
            elif key == '**' or p.position is None:
                kwonly += 1
            else:
                pos.append(p)
        pos.sort(key=lambda p: p.position)
        payload = fd.payload.__module__.split('.')[-1] + '.' + fd.payload.__name__
        out.append(dict(name=name, payload=payload, layer=layer, pos=pos, star=star, kwonly=kwonly,
                        ctx=ctx, eng=eng))
    out.sort(key=lambda r: (r['name'], r['payload']))
    return out


def table():
    """python view of the table (used by harness/props/c15.py for targeted tests)"""
    res = []
    for r in rows():
        res.append(dict(name=r['name'], payload=r['payload'], layer=r['layer'], kwonly=r['kwonly'],
                        params=[describe(p, r['ctx'], r['eng']) for p in r['pos']],
                        star=None if r['star'] is None else describe(r['star'], r['ctx'], r['eng'])))
    return res


@pyfacts.generator('ScalarOps')
def gen_scalarops():
    rs = rows()
    lines = []
    reach = 0
    for r in rs:
        ps = [param_lean(p, r['ctx'], r['eng']) for p in r['pos']]
        st = None if r['star'] is None else param_lean(r['star'], r['ctx'], r['eng'])
        if all(a for _, a in ps) and (st is None or st[1]):
            reach += 1
        lines.append('  { name := %s, payload := %s, layer := %d, kwOnly := %d,\n    params := [%s],\n    star := %s }' % (
            registry.lchars(r['name']), registry.lchars(r['payload']), r['layer'], r['kwonly'],
            ',\n               '.join(t for t, _ in ps), 'none' if st is None else 'some ' + st[0]))
    ops = operators()
    body = ('import Yaql.Model.ScalarRow\n'
            '/-! the operator table of the default engine and every overload registered under an operator\'s\n'
            'function name (%d overloads, %d of them can match scalar operands) -/\n'
            'namespace Yaql.Gen.ScalarOps\nopen Yaql.Scalar\n\n'
            'def operators : List GOp := [\n%s\n]\n\n'
            'def rows : List GRow := [\n%s\n]\n\nend Yaql.Gen.ScalarOps\n') % (
        len(rs), reach,
        ',\n'.join('  { symbol := %s, unary := %s, fname := %s }' % (
            registry.lchars(s), 'true' if u else 'false', registry.lchars(f)) for s, u, f in ops),
        ',\n'.join(lines))
    changed = pyfacts.emit('ScalarOps', body)
    return dict(operators=len(ops), overloads=len(rs), scalar_reachable=reach, rewritten=changed)
