"""Gen.MutFacts (C09): for every function registered by `yaql.create_context()` and every payload parameter:
does the payload (or a yaql helper / yaql class method it hands the value to, followed three levels deep)
syntactically UPDATE IN PLACE the object bound to the parameter, or an object reachable inside it?

Labels.  Every parameter `p` has two labels: `p` (the object itself) and `p*` (objects strictly inside it).
A local name carries (self, elem): the labels of the objects it may BE and of the objects that may sit inside
what it names.  Flow-insensitive fixpoint over the whole body (nested defs and lambdas included):

  x = p                      x is p                         (self: p,  elem: p*)
  x = p[i] / for x in p / a, b = p / p.get(k) / p.pop() / next(iter(p)) / min(p) / p.attr
                             x is something inside p        (self: p*, elem: p*)
  x = list(p) / dict(p) / set(p) / tuple(p) / sorted(p) / p[:] / p.copy() / [.. for .. in p] / p + q / chain(p, q) ...
                             x is a NEW container holding objects of p   (self: -, elem: p*)
  x = f(p) (anything else)   x may be p or anything inside  (self: p p*, elem: p p*)   [conservative]
  *args / **kwargs           the tuple / dict is new, its items are the arguments (self: -, elem: that parameter)

Sinks on an expression whose `self` labels are not empty:
  mutates      e.append/extend/insert/sort/reverse/update/pop/popitem/add/remove/discard/clear/setdefault/
               __setitem__/__delitem__/appendleft/...(..), e[..] = .., del e[..], e[..] op= .., e op= .. (a name),
               heapq.heappush(e, ..), random.shuffle(e), list.sort(e), operator.setitem(e, ..) ...
  storesAttr   e.attr = .., e.attr op= .., del e.attr, setattr(e, ..), delattr(e, ..)
  unknownCall  e.method(..) for a method that is neither a known reader nor a known mutator and is not
               resolvable to yaql source (a resolvable yaql method - e.g. OrderingIterable.append_field - is
               analysed with `self` as the parameter and contributes mutates/storesAttr)
  writesCtx    the same sinks, when the parameter is the hidden `Context` parameter (the call's own child context)
and, per function: writesGlobal (assignment to a `global` name; in-place update of a module-level object).

The classification is trusted (see notes/C09.md); it is conservative, and the theorem `C09Gen.no_param_mutation`
is re-checked against the table of the live repo on every run."""
import ast
import copy
import importlib
import inspect
import textwrap
import types

import pyfacts
from gens import limitfacts

import yaql
from yaql.language import utils, yaqltypes

MUTATORS = {'append', 'extend', 'insert', 'sort', 'reverse', 'update', 'pop', 'popitem', 'add', 'remove', 'discard',
            'clear', 'setdefault', '__setitem__', '__delitem__', '__iadd__', '__ior__', '__iand__', '__isub__',
            '__ixor__', '__imul__', 'appendleft', 'extendleft', 'popleft', 'rotate', 'intersection_update',
            'difference_update', 'symmetric_difference_update', 'send', 'throw', 'close', 'seek', 'write', 'truncate'}
# methods of containers / strings / numbers / datetimes / regex objects that only read
READERS = {'get', 'items', 'keys', 'values', 'index', 'count', 'copy', 'union', 'intersection', 'difference',
           'symmetric_difference', 'issubset', 'issuperset', 'isdisjoint', 'join', 'split', 'rsplit', 'strip', 'lstrip',
           'rstrip', 'startswith', 'endswith', 'find', 'rfind', 'replace', 'format', 'upper', 'lower', 'encode',
           'decode', 'splitlines', 'isdigit', 'isalpha', 'isspace', 'title', 'capitalize', 'zfill', 'ljust', 'rjust',
           'center', 'partition', 'rpartition', 'translate', 'casefold', 'swapcase', 'format_map', 'expandtabs',
           '__iter__', '__len__', '__contains__', '__getitem__', '__eq__', '__hash__', '__lt__', '__gt__',
           'search', 'match', 'fullmatch', 'findall', 'finditer', 'sub', 'subn', 'group', 'groups', 'groupdict',
           'start', 'end', 'span', 'total_seconds', 'utcoffset', 'astimezone', 'timestamp', 'isoformat', 'strftime',
           'timetuple', 'date', 'time', 'tzname', 'dst', 'weekday', 'isoweekday', 'toordinal', 'bit_length',
           'is_integer', 'conjugate', 'as_integer_ratio', 'hex', 'real', 'imag', 'fromkeys', 'create_child_context', 'collect_functions', 'get_functions',
           'get_data', 'convert_function_name', 'convert_parameter_name'}
ELEMENT_READERS = {'get', 'pop', 'popitem', 'setdefault', '__getitem__', 'popleft', 'group', 'groups', 'groupdict'}
FRESH_METHODS = {'copy', 'items', 'keys', 'values', 'union', 'intersection', 'difference', 'symmetric_difference',
                 'split', 'rsplit', 'splitlines', 'findall', 'finditer', 'partition', 'rpartition', '__iter__',
                 'create_child_context'}
SCALAR_METHODS = {'index', 'count', 'issubset', 'issuperset', 'isdisjoint', 'join', 'strip', 'lstrip', 'rstrip',
                  'startswith', 'endswith', 'find', 'rfind', 'replace', 'format', 'upper', 'lower', 'encode', 'decode',
                  '__len__', '__contains__', '__eq__', '__hash__', 'total_seconds', 'timestamp', 'isoformat', 'strftime'}
FRESH_FUNCS = {'list', 'dict', 'set', 'tuple', 'frozenset', 'sorted', 'reversed', 'enumerate', 'zip', 'map', 'filter',
               'iter', 'range', 'FrozenDict', 'deque', 'QueueType', 'chain', 'islice', 'cycle', 'takewhile', 'dropwhile',
               'zip_longest', 'accumulate', 'groupby', 'starmap', 'tee', 'from_iterable', 'product', 'repeat', 'copy',
               'deepcopy', 'OrderedDict', 'defaultdict', 'Counter', 'bytes', 'bytearray', 'MappingRule', 'OrderingIterable',
               'partial', 'permutations', 'combinations'}
SCALAR_FUNCS = {'len', 'isinstance', 'issubclass', 'int', 'str', 'float', 'bool', 'hash', 'id', 'repr', 'type', 'any',
                'all', 'sum', 'abs', 'round', 'divmod', 'pow', 'callable', 'hasattr', 'ord', 'chr', 'format', 'print',
                'is_iterator', 'is_iterable', 'is_sequence', 'is_mutable', 'limit_memory_usage', 'getsizeof', 'unicode',
                'randint', 'uniform', 'random', 'compile', 'escape', 'get_max_collection_size', 'get_memory_quota',
                'convert_sets_to_lists', 'convert_tuples_to_lists'}
ELEMENT_FUNCS = {'min', 'max', 'next', 'getattr', 'reduce', 'choice', 'first', 'last'}
# f(e, ..) updates its first argument in place
MUT_FUNCS = {'heappush', 'heappop', 'heapify', 'heapreplace', 'heappushpop', 'shuffle', 'insort', 'insort_left',
             'insort_right', 'setitem', 'delitem', 'iadd', 'iconcat', 'ior', 'iand', 'isub', 'ixor', 'imul'}
ATTR_MUT_FUNCS = {'setattr', 'delattr'}
CONTAINER_CLASSES = {'list', 'dict', 'set', 'deque', 'OrderedDict', 'defaultdict', 'bytearray'}
CTX_WRITERS = {'register_function', 'delete_function', '__setitem__', '__delitem__'}
STORING = {'append', 'add', 'insert', 'extend', 'update', 'setdefault', 'appendleft', 'extendleft', '__setitem__'}
MAX_DEPTH = 3

E = frozenset()


def lab(p, level):
    return (p, level)


class Taint:
    __slots__ = ('self', 'elem')

    def __init__(self, s=E, e=E):
        self.self, self.elem = frozenset(s), frozenset(e)

    def union(self, o):
        return Taint(self.self | o.self, self.elem | o.elem)

    def all(self):
        return self.self | self.elem

    def inside(self):
        """something reachable inside"""
        return Taint(self.deep(), self.deep())

    def deep(self):
        return frozenset((p, 1) for p, _ in self.self) | self.elem

    def fresh(self):
        """a new container around the same objects"""
        return Taint(E, self.deep())

    def __eq__(self, o):
        return self.self == o.self and self.elem == o.elem

    def __bool__(self):
        return bool(self.self or self.elem)


NONE = Taint()
_summaries = {}
_ast_cache = {}


def func_node(fn):
    key = (getattr(fn, '__module__', None), getattr(fn, '__qualname__', repr(fn)))
    if key not in _ast_cache:
        src = textwrap.dedent(inspect.getsource(fn))
        tree = ast.parse(src)
        _ast_cache[key] = next(n for n in ast.walk(tree) if isinstance(n, (ast.FunctionDef, ast.AsyncFunctionDef,
                                                                            ast.Lambda)))
    return _ast_cache[key]


def callee(call):
    f = call.func
    if isinstance(f, ast.Name):
        return f.id, None
    if isinstance(f, ast.Attribute):
        return f.attr, f.value
    return None, None


def versionize(node):
    """strong updates for the copy-before-change idiom: a TOP-LEVEL statement `x = <expr>` of the function body
    starts a new version of `x` (`x#k`) for all later statements - `x = list(x); x.insert(..)` updates the copy.
    Names used inside a nested def / lambda keep one merged version (a closure sees whatever is current when it runs)."""
    node = copy.deepcopy(node)
    if not isinstance(node, (ast.FunctionDef, ast.AsyncFunctionDef)):
        return node
    captured = set()
    for n in ast.walk(node):
        if isinstance(n, (ast.FunctionDef, ast.AsyncFunctionDef, ast.Lambda)) and n is not node:
            for m in ast.walk(n):
                if isinstance(m, ast.Name):
                    captured.add(m.id)
    counter = {}
    body = node.body
    for i, st in enumerate(body):
        tgt = None
        if isinstance(st, ast.Assign) and len(st.targets) == 1 and isinstance(st.targets[0], ast.Name):
            tgt = st.targets[0]
        elif isinstance(st, ast.AnnAssign) and st.value is not None and isinstance(st.target, ast.Name):
            tgt = st.target
        if tgt is None or tgt.id in captured or '#' in tgt.id:
            continue
        old = tgt.id
        counter[old.split('#')[0]] = counter.get(old, 0) + 1
        new = '%s#%d' % (old, counter[old])
        tgt.id = new
        for later in body[i + 1:]:
            for m in ast.walk(later):
                if isinstance(m, ast.Name) and m.id == old:
                    m.id = new
    return node


class Analysis:
    """one python function: taints of its names, sinks hit by labelled objects"""

    def __init__(self, fn, depth=0, var_pos=None, var_kw=None):
        self.fn = fn
        self.depth = depth
        self.node = versionize(func_node(fn))
        self.module = inspect.getmodule(fn)
        self.globals = getattr(fn, '__globals__', {})
        a = self.node.args
        self.params = [x.arg for x in list(getattr(a, 'posonlyargs', [])) + a.args + a.kwonlyargs]
        self.var_pos = a.vararg.arg if a.vararg else None
        self.var_kw = a.kwarg.arg if a.kwarg else None
        self.taint = {}
        for p in self.params:
            self.taint[p] = Taint({lab(p, 0)}, {lab(p, 1)})
        if self.var_pos:
            self.taint[self.var_pos] = Taint(E, {lab(self.var_pos, 0), lab(self.var_pos, 1)})
        if self.var_kw:
            self.taint[self.var_kw] = Taint(E, {lab(self.var_kw, 0), lab(self.var_kw, 1)})
        self.nested = {}
        self.locals = set(self.params) | {self.var_pos, self.var_kw}
        self.global_decl = set()
        for n in ast.walk(self.node):
            if isinstance(n, (ast.FunctionDef, ast.AsyncFunctionDef)) and n is not self.node:
                self.nested[n.name] = n
                self.locals.add(n.name)
                for x in n.args.args + n.args.kwonlyargs:
                    self.locals.add(x.arg)
            elif isinstance(n, ast.Lambda) and n is not self.node:
                for x in n.args.args:
                    self.locals.add(x.arg)
            elif isinstance(n, ast.Name) and isinstance(n.ctx, (ast.Store, ast.Del)):
                self.locals.add(n.id)
            elif isinstance(n, ast.Global):
                self.global_decl |= set(n.names)
        self.locals -= self.global_decl
        self.sinks = []          # (kind, labels, detail, lineno)
        self.global_writes = []
        self.fix()
        self.collect()

    # ---- taint of an expression
    def ev(self, e):
        if e is None:
            return NONE
        if isinstance(e, ast.Name):
            return self.taint.get(e.id, NONE)
        if isinstance(e, ast.Attribute):
            return self.ev(e.value).inside()
        if isinstance(e, ast.Subscript):
            t = self.ev(e.value)
            return t.fresh() if isinstance(e.slice, ast.Slice) else t.inside()
        if isinstance(e, ast.Starred):
            return self.ev(e.value)
        if isinstance(e, (ast.Tuple, ast.List, ast.Set)):
            t = NONE
            for x in e.elts:
                t = t.union(self.ev(x))
            return Taint(E, t.all())
        if isinstance(e, ast.Dict):
            t = NONE
            for x in list(e.keys) + list(e.values):
                t = t.union(self.ev(x))
            return Taint(E, t.all())
        if isinstance(e, (ast.ListComp, ast.SetComp, ast.GeneratorExp)):
            return Taint(E, self.ev(e.elt).all())
        if isinstance(e, ast.DictComp):
            return Taint(E, self.ev(e.key).union(self.ev(e.value)).all())
        if isinstance(e, ast.BinOp):
            return Taint(E, self.ev(e.left).union(self.ev(e.right)).deep())
        if isinstance(e, ast.BoolOp):
            t = NONE
            for x in e.values:
                t = t.union(self.ev(x))
            return t
        if isinstance(e, ast.IfExp):
            return self.ev(e.body).union(self.ev(e.orelse))
        if isinstance(e, ast.NamedExpr):
            return self.ev(e.value)
        if isinstance(e, (ast.Await, ast.Yield, ast.YieldFrom)):
            return self.ev(e.value) if e.value is not None else NONE
        if isinstance(e, ast.Call):
            return self.ev_call(e)
        return NONE              # constants, lambdas, comparisons, unary ops, f-strings

    def args_taint(self, call):
        t = NONE
        for a in call.args:
            t = t.union(self.ev(a))
        for k in call.keywords:
            t = t.union(self.ev(k.value))
        return t

    def ev_call(self, call):
        name, recv = callee(call)
        at = self.args_taint(call)
        if recv is not None:
            rt = self.ev(recv)
            if rt:
                if name in SCALAR_METHODS:
                    return NONE
                if name in FRESH_METHODS:
                    return rt.fresh()
                if name in ELEMENT_READERS:
                    return rt.inside().union(self.default_arg(call))
                both = rt.all() | at.all()
                return Taint(both, both)
        if recv is not None and name in ('get', 'setdefault', 'pop'):
            return self.default_arg(call)           # an unlabelled dict: what was stored is not tracked by key
        if name in SCALAR_FUNCS:
            return NONE
        if name in FRESH_FUNCS:
            return Taint(E, at.deep())
        if name in ELEMENT_FUNCS:
            return Taint(at.deep(), at.deep())
        if recv is None and name in self.taint and name not in self.nested:
            ft = self.taint[name].inside()          # a bound method / callable taken from a labelled object
            return Taint(at.all() | ft.self, at.all() | ft.elem)
        return Taint(at.all(), at.all())

    def default_arg(self, call):
        """d.get(k, default) / d.setdefault(k, default) / d.pop(k, default): the default may be what comes back
        (keys are hashable: never one of the raw mutable containers)"""
        if len(call.args) >= 2:
            t = self.ev(call.args[1])
            return Taint(t.all(), t.all())
        return NONE

    # ---- bindings
    def bind(self, target, t, elementwise=False):
        changed = False
        if isinstance(target, ast.Name):
            old = self.taint.get(target.id, NONE)
            new = old.union(t)
            if new != old:
                self.taint[target.id] = new
                changed = True
        elif isinstance(target, (ast.Tuple, ast.List)):
            for x in target.elts:
                changed |= self.bind(x, t.inside())
        elif isinstance(target, ast.Starred):
            changed |= self.bind(target.value, t.fresh())
        return changed

    def bind_elem(self, name, labels):
        old = self.taint.get(name, NONE)
        new = Taint(old.self, old.elem | labels)
        if new != old:
            self.taint[name] = new
            return True
        return False

    def fix(self):
        for _ in range(30):
            changed = False
            for n in ast.walk(self.node):
                if isinstance(n, ast.Assign):
                    t = self.ev(n.value)
                    for tg in n.targets:
                        changed |= self.bind(tg, t)
                        if isinstance(tg, ast.Subscript) and isinstance(tg.value, ast.Name):
                            changed |= self.bind_elem(tg.value.id, t.all())      # x[k] = v: v now sits inside x
                elif isinstance(n, ast.AnnAssign) and n.value is not None:
                    changed |= self.bind(n.target, self.ev(n.value))
                elif isinstance(n, ast.AugAssign) and isinstance(n.target, ast.Name):
                    changed |= self.bind(n.target, Taint(E, self.ev(n.value).deep()))
                elif isinstance(n, ast.NamedExpr):
                    changed |= self.bind(n.target, self.ev(n.value))
                elif isinstance(n, (ast.For, ast.AsyncFor, ast.comprehension)):
                    changed |= self.bind(n.target, self.ev(n.iter).inside())
                elif isinstance(n, (ast.With, ast.AsyncWith)):
                    for it in n.items:
                        if it.optional_vars is not None:
                            changed |= self.bind(it.optional_vars, self.ev(it.context_expr))
                elif isinstance(n, ast.Call):
                    name, recv = callee(n)
                    if isinstance(recv, ast.Name) and name in STORING:
                        vals = n.args[1:] if name in ('insert', 'setdefault', '__setitem__') else n.args
                        t = NONE
                        for a in vals:
                            t = t.union(self.ev(a))
                        for k in n.keywords:
                            t = t.union(self.ev(k.value))
                        if name in ('extend', 'update', 'extendleft'):
                            t = Taint(E, t.deep())
                        changed |= self.bind_elem(recv.id, t.all())
                    if recv is None and name in self.nested:
                        fd = self.nested[name]
                        ps = [x.arg for x in fd.args.args]
                        for i, a in enumerate(n.args):
                            if isinstance(a, ast.Starred):
                                for p in ps[i:]:
                                    changed |= self.bind(ast.Name(id=p, ctx=ast.Store()), self.ev(a.value).inside())
                            elif i < len(ps):
                                changed |= self.bind(ast.Name(id=ps[i], ctx=ast.Store()), self.ev(a))
                            elif fd.args.vararg:
                                changed |= self.bind(ast.Name(id=fd.args.vararg.arg, ctx=ast.Store()),
                                                     Taint(E, self.ev(a).all()))
                        for k in n.keywords:
                            if k.arg in ps + [x.arg for x in fd.args.kwonlyargs]:
                                changed |= self.bind(ast.Name(id=k.arg, ctx=ast.Store()), self.ev(k.value))
                    # a nested def handed to something that calls it back with items (sorted(key=f), map(f, p) ...):
                    # its parameters may be anything inside the other arguments
                    cb = [a for a in list(n.args) + [k.value for k in n.keywords]
                          if (isinstance(a, ast.Name) and a.id in self.nested) or isinstance(a, ast.Lambda)]
                    if cb:
                        at = self.args_taint(n).inside()
                        if recv is not None:
                            at = at.union(self.ev(recv).inside())
                        for a in cb:
                            args = self.nested[a.id].args if isinstance(a, ast.Name) else a.args
                            for x in args.args:
                                changed |= self.bind(ast.Name(id=x.arg, ctx=ast.Store()), at)
            if not changed:
                break

    # ---- sinks
    def hit(self, kind, labels, detail, node):
        if labels:
            self.sinks.append((kind, frozenset(labels), detail, getattr(node, 'lineno', 0)))

    def resolve(self, call):
        """python function with yaql source the call goes to (module-level function of a yaql module)"""
        name, recv = callee(call)
        obj = None
        if recv is None:
            if name in self.locals:
                return None
            obj = self.globals.get(name)
        elif isinstance(recv, ast.Name) and recv.id not in self.locals:
            mod = self.globals.get(recv.id)
            if isinstance(mod, types.ModuleType):
                obj = getattr(mod, name, None)
        elif isinstance(recv, ast.Attribute):
            try:
                src = ast.unparse(recv)
                if src.startswith('yaql.'):
                    obj = getattr(importlib.import_module(src), name, None)
            except Exception:
                obj = None
        if inspect.isfunction(obj) and (obj.__module__ or '').startswith('yaql'):
            return obj
        return None

    def methods_for(self, labels, name):
        """yaql-source methods `name` of the classes the labelled parameters are declared with"""
        out = []
        for cls in self.classes_of(labels):
            m = inspect.getattr_static(cls, name, None)
            if isinstance(m, (staticmethod, classmethod)):
                m = m.__func__
            if inspect.isfunction(m) and (m.__module__ or '').startswith('yaql'):
                out.append(m)
        return out

    def classes_of(self, labels):
        return ()

    def collect(self):
        for n in ast.walk(self.node):
            if isinstance(n, (ast.Assign, ast.AnnAssign, ast.AugAssign)):
                targets = n.targets if isinstance(n, ast.Assign) else [n.target]
                for tg in targets:
                    for x in ([tg] if not isinstance(tg, (ast.Tuple, ast.List)) else tg.elts):
                        self.store_sink(x, n)
                if isinstance(n, ast.AugAssign) and isinstance(n.target, ast.Name):
                    t = self.taint.get(n.target.id, NONE)
                    self.hit('aug', t.self, '%s %s=' % (n.target.id, type(n.op).__name__), n)
                    if n.target.id in self.global_decl:
                        self.global_writes.append('%s op= (line %d)' % (n.target.id, n.lineno))
                for tg in targets:
                    if isinstance(tg, ast.Name) and tg.id in self.global_decl:
                        self.global_writes.append('%s = (line %d)' % (tg.id, n.lineno))
            elif isinstance(n, ast.Delete):
                for x in n.targets:
                    self.store_sink(x, n, delete=True)
            elif isinstance(n, ast.Call):
                self.call_sink(n)

    def is_module_object(self, e):
        """a Name that is neither local nor a builtin and names a mutable module-level object"""
        if isinstance(e, ast.Name) and e.id not in self.locals:
            obj = self.globals.get(e.id, None)
            if e.id in self.globals and not isinstance(obj, (types.ModuleType, types.FunctionType, type,
                                                             types.BuiltinFunctionType)):
                return isinstance(obj, (list, dict, set, bytearray)) or hasattr(obj, '__dict__')
        return False

    def store_sink(self, x, n, delete=False):
        if isinstance(x, ast.Subscript):
            self.hit('mutates', self.ev(x.value).self, ('del ' if delete else '') + ast.unparse(x.value) + '[..]' +
                     ('' if delete else ' ='), n)
            if self.is_module_object(x.value):
                self.global_writes.append('%s[..] (line %d)' % (x.value.id, n.lineno))
        elif isinstance(x, ast.Attribute):
            self.hit('storesAttr', self.ev(x.value).self, ('del ' if delete else '') + ast.unparse(x) +
                     ('' if delete else ' ='), n)
            if self.is_module_object(x.value):
                self.global_writes.append('%s.%s (line %d)' % (x.value.id, x.attr, n.lineno))

    def call_sink(self, call):
        name, recv = callee(call)
        if recv is not None:
            rt = self.ev(recv)
            if name in MUTATORS and self.is_module_object(recv):
                self.global_writes.append('%s.%s() (line %d)' % (recv.id, name, call.lineno))
            # Class.method(obj, ..)
            if isinstance(recv, ast.Name) and recv.id in CONTAINER_CLASSES and name in MUTATORS and call.args:
                self.hit('mutates', self.ev(call.args[0]).self, '%s.%s(%s, ..)' % (recv.id, name,
                                                                                     ast.unparse(call.args[0])), call)
            if rt.self:
                ms = self.methods_for(rt.self, name)
                if ms and self.depth < MAX_DEPTH:
                    for m in ms:
                        s = summary(m, self.depth + 1)
                        self.apply_summary(s, [recv] + list(call.args), call.keywords, call,
                                           '%s.%s' % (ast.unparse(recv), name))
                elif name in MUTATORS:
                    self.hit('mutates', rt.self, '%s.%s()' % (ast.unparse(recv), name), call)
                elif name not in READERS:
                    self.hit('unknownCall', rt.self, '%s.%s()' % (ast.unparse(recv), name), call)
        if name in MUT_FUNCS and call.args:
            self.hit('mutates', self.ev(call.args[0]).self, '%s(%s, ..)' % (name, ast.unparse(call.args[0])), call)
        if name in ATTR_MUT_FUNCS and call.args:
            self.hit('storesAttr', self.ev(call.args[0]).self, '%s(%s, ..)' % (name, ast.unparse(call.args[0])), call)
        helper = self.resolve(call)
        if helper is not None and self.depth < MAX_DEPTH:
            s = summary(helper, self.depth + 1)
            self.apply_summary(s, list(call.args), call.keywords, call, name)

    def apply_summary(self, s, args, keywords, call, what):
        if s is None:
            return
        ps = s['params']
        for i, a in enumerate(args):
            if isinstance(a, ast.Starred):
                t = self.ev(a.value).inside()
                targets = ps[i:] + ([s['var_pos']] if s['var_pos'] else [])
            elif i < len(ps):
                t, targets = self.ev(a), [ps[i]]
            elif s['var_pos']:
                t, targets = Taint(E, self.ev(a).all()), [s['var_pos']]
            else:
                continue
            self.map_hits(s, targets, t, call, what)
        for k in keywords:
            if k.arg is None:
                continue
            t = self.ev(k.value)
            if k.arg in ps:
                self.map_hits(s, [k.arg], t, call, what)
            elif s['var_kw']:
                self.map_hits(s, [s['var_kw']], Taint(E, t.all()), call, what)
        for w in s['global_writes']:
            self.global_writes.append('%s: %s' % (what, w))

    def map_hits(self, s, targets, t, call, what):
        for kind, labels, detail, line in s['sinks']:
            out = set()
            for (p, lvl) in labels:
                if p in targets:
                    out |= (t.self if lvl == 0 else t.deep())
            if out:
                self.hit(kind, out, '%s -> %s' % (what, detail), call)


def summary(fn, depth):
    key = (getattr(fn, '__module__', None), getattr(fn, '__qualname__', None))
    if key in _summaries:
        return _summaries[key]
    _summaries[key] = None          # recursion guard: a cycle contributes nothing new
    try:
        a = Analysis(fn, depth)
    except (OSError, TypeError, StopIteration, SyntaxError):
        return None
    s = dict(params=a.params, var_pos=a.var_pos, var_kw=a.var_kw, sinks=a.sinks, global_writes=a.global_writes)
    _summaries[key] = s
    return s


class PayloadAnalysis(Analysis):
    def __init__(self, fd):
        self.fd = fd
        super().__init__(fd.payload, 0)

    def classes_of(self, labels):
        out = []
        for (p, _) in labels:
            key = '*' if p == self.var_pos else '**' if p == self.var_kw else p
            pd = self.fd.parameters.get(key)
            vt = getattr(pd, 'value_type', None)
            pt = getattr(vt, 'python_type', None)
            for c in (pt if isinstance(pt, tuple) else (pt,)):
                if isinstance(c, type) and (c.__module__ or '').startswith('yaql'):
                    out.append(c)
        return out


class _Opaque:
    pass


def admits(vt, ctx, engine):
    """which kinds of host values pass the parameter's own type check (conversion off: raw objects)"""
    from yaql.standard_library import queries
    probes = dict(list=[1], dict={'a': 1}, set={1}, tuple=(1,), fdict=utils.FrozenDict({'a': 1}), fset=frozenset([1]),
                  iter=iter([1]), ordering=queries.OrderingIterable([1], None, None), opaque=_Opaque())
    out = []
    for k, v in probes.items():
        try:
            if vt.check(v, ctx, engine):
                out.append(k)
        except Exception:
            out.append(k)
    return out


def param_kind(vt):
    if isinstance(vt, yaqltypes.Context):
        return 'context'
    if isinstance(vt, yaqltypes.HiddenParameterType):
        return 'hidden'
    if isinstance(vt, yaqltypes.LazyParameterType):
        return 'lazy'
    return 'value'


def facts():
    reg, ctx = limitfacts.registry()
    engine = yaql.YaqlFactory().create(options={'yaql.convertInputData': False})
    rows = []
    for key, fd in reg:
        sig = inspect.signature(fd.payload)
        var_pos = next((n for n, p in sig.parameters.items() if p.kind == p.VAR_POSITIONAL), None)
        var_kw = next((n for n, p in sig.parameters.items() if p.kind == p.VAR_KEYWORD), None)
        try:
            a = PayloadAnalysis(fd)
        except (OSError, TypeError, StopIteration, SyntaxError):
            a = None
        for pname, p in fd.parameters.items():
            vt = p.value_type
            pyname = var_pos if pname == '*' else var_kw if pname == '**' else pname
            kind = param_kind(vt)
            r = dict(fn=key, param=pname, kind=kind, admits=admits(vt, ctx, engine) if kind == 'value' else [],
                     mutates=False, storesAttr=False, unknownCall=False, writesCtx=False, unreadable=a is None,
                     details=[])
            if a is not None:
                for k, labels, detail, line in a.sinks:
                    if any(pp == pyname for pp, _ in labels):
                        # the hidden Context parameter is the call's own child context: writing THROUGH it is the
                        # evaluator's discipline; writing to something reached from it (`.parent`) is not
                        if kind == 'context' and (pyname, 0) in labels and (
                                k in ('mutates', 'storesAttr') or detail.split('.')[-1].rstrip('()') in CTX_WRITERS):
                            r['writesCtx'] = True
                            if (pyname, 1) not in labels:
                                r['details'].append('%s:%s@%d' % (k, detail, line))
                                continue
                        if k in ('mutates', 'aug'):
                            # `x op= ..` rebinds for immutables; it updates in place only a list / set / dict
                            if k == 'aug' and not (set(r['admits']) & {'list', 'dict', 'set', 'opaque'}):
                                r['details'].append('rebinds:%s@%d' % (detail, line))
                                continue
                            r['mutates'] = True
                        elif k == 'storesAttr':
                            r['storesAttr'] = True
                        elif k == 'unknownCall':
                            r['unknownCall'] = True
                        r['details'].append('%s:%s@%d' % (k, detail, line))
            rows.append(r)
        rows.append(dict(fn=key, param='<globals>', kind='globals', admits=[], mutates=False, storesAttr=False,
                         unknownCall=False, writesCtx=False, unreadable=a is None,
                         writesGlobal=bool(a and a.global_writes),
                         details=sorted(set(a.global_writes)) if a else []))
    return rows


def lb(b):
    return 'true' if b else 'false'


def offending(rows):
    """rows that break `C09Gen.no_param_mutation` unless listed as allowed (the harness directs its budget at them)"""
    return [r for r in rows if r['mutates'] or r['storesAttr'] or r['unknownCall'] or r.get('writesGlobal')
            or r['unreadable'] or (r['writesCtx'] and r['kind'] != 'context')]


@pyfacts.generator('MutFacts')
def gen():
    rows = facts()
    out = ['/-! registry x payload in-place-update facts for C09 (see harness/gens/mutfacts.py) -/',
           'namespace Yaql.Gen.MutFacts', '',
           'inductive ParamKind where', '  | value | lazy | hidden | context | globals', 'deriving DecidableEq, Repr', '',
           'structure Row where', '  fn : String', '  param : String', '  kind : ParamKind',
           '  admitsContainer : Bool', '  mutates : Bool', '  storesAttr : Bool', '  unknownCall : Bool',
           '  writesCtx : Bool', '  writesGlobal : Bool', '  unreadable : Bool', '',
           'def rows : List Row := [']
    n = len(rows)
    for i, r in enumerate(rows):
        cont = bool(set(r['admits']) & {'list', 'dict', 'set', 'tuple', 'fdict', 'fset', 'iter', 'ordering'})
        out.append('  ⟨%s, %s, .%s, %s, %s, %s, %s, %s, %s, %s⟩%s  -- %s' % (
            pyfacts.lean_str(r['fn']), pyfacts.lean_str(r['param']), r['kind'], lb(cont), lb(r['mutates']),
            lb(r['storesAttr']), lb(r['unknownCall']), lb(r['writesCtx']), lb(r.get('writesGlobal', False)),
            lb(r['unreadable']), ',' if i < n - 1 else '',
            (','.join(r['admits']) + ' | ' + '; '.join(r['details'])).replace('\n', ' ')))
    out += [']', '', 'end Yaql.Gen.MutFacts', '']
    pyfacts.emit('MutFacts', '\n'.join(out))
    off = offending(rows)
    # rows that break C09Gen.no_param_mutation (the same predicate as `rowOk`, with the `allowed` list of the Lean file)
    allowed = set()
    try:
        import os
        import re
        import common
        src = open(os.path.join(common.LEAN, 'Yaql', 'Props', 'C09Gen.lean')).read()
        body = src[src.index('def allowed'):src.index('def rowOk')]
        body = re.sub(r'--[^\n]*', '', body)
        allowed = set(re.findall(r'\("([^"]+)",\s*"([^"]+)"\)', body))
    except Exception:       # noqa
        pass
    broken = [r for r in rows if (r['fn'], r['param']) not in allowed and (
        r['mutates'] or r['storesAttr'] or r.get('writesGlobal') or r['unreadable']
        or (r['kind'] == 'value' and r['unknownCall']) or (r['writesCtx'] and r['kind'] != 'context'))]
    return dict(broken_rows=[dict(fn=r['fn'], param=r['param'], details=r['details'][:4]) for r in broken],
                functions=len({r['fn'] for r in rows}), rows=len(rows),
                container_params=sum(1 for r in rows if set(r['admits']) & {'list', 'dict', 'set'}),
                ctx_writers=[r['fn'] + ':' + r['param'] for r in rows if r['writesCtx']],
                flagged=[dict(fn=r['fn'], param=r['param'], details=r['details'][:4]) for r in off])
