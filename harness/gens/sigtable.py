"""Generator of lean/Yaql/Gen/SigTable.lean: for EVERY FunctionDefinition registered in the context chain of
yaql.create_context() - the Python signature of its payload as `inspect.signature` reports it (positional
arguments, how many of them have defaults, *args, keyword-only arguments and which of them have defaults,
**kwargs) next to the parameter table yaql made of it (key, python name, position, default present).
Props/C05SigGen.lean proves that every table is the one `Yaql.Signature.define` derives from the signature."""
import inspect

import common  # noqa: F401
import pyfacts
from gens.registry import all_definitions


def _name(s):
    return pyfacts.lean_chars(s)


def _key(k):
    return '.star' if k == '*' else '.starstar' if k == '**' else '.name ' + _name(k)


def row(name, fd):
    sig = inspect.signature(fd.payload)
    P = inspect.Parameter
    args, ndef, varargs, kwonly, kwdef, varkw = [], 0, None, [], [], None
    for p in sig.parameters.values():
        if p.kind in (P.POSITIONAL_ONLY, P.POSITIONAL_OR_KEYWORD):
            args.append(p.name)
            if p.default is not P.empty:
                ndef += 1
        elif p.kind == P.VAR_POSITIONAL:
            varargs = p.name
        elif p.kind == P.KEYWORD_ONLY:
            kwonly.append(p.name)
            if p.default is not P.empty:
                kwdef.append(p.name)
        else:
            varkw = p.name
    from yaql.language import specs
    table = ', '.join('(%s, %s, %s, %s)' % (_key(k), _name(p.name),
                                            'none' if p.position is None else 'some %d' % p.position,
                                            'false' if p.default is specs.NO_DEFAULT else 'true')
                      for k, p in fd.parameters.items())
    opt = lambda x: 'none' if x is None else 'some ' + _name(x)      # noqa: E731
    return ('  { fname := %s, args := [%s], ndefaults := %d, varargs := %s, kwonly := [%s], kwdefaults := [%s], '
            'varkw := %s,\n    table := [%s] }') % (
        _name(name), ', '.join(map(_name, args)), ndef, opt(varargs), ', '.join(map(_name, kwonly)),
        ', '.join(map(_name, kwdef)), opt(varkw), table)


@pyfacts.generator('SigTable')
def gen_sigtable():
    defs = all_definitions()
    body = ('import Yaql.Model.Signature\n'
            '/-! the Python signature (inspect.signature) and the parameter table of every FunctionDefinition of\n'
            '`yaql.create_context()`, all layers (%d definitions) -/\n'
            'namespace Yaql.Gen.SigTable\nopen Yaql.Signature Yaql.Resolve\n\n'
            'def rows : List SigRow := [\n%s\n]\n\nend Yaql.Gen.SigTable\n') % (
        len(defs), ',\n'.join(row(n, fd) for _, n, fd in defs))
    changed = pyfacts.emit('SigTable', body)
    with_defaults = sum(1 for _, _, fd in defs if any(
        p.default is not inspect.Parameter.empty for p in inspect.signature(fd.payload).parameters.values()))
    return dict(definitions=len(defs), payloads_with_python_defaults=with_defaults, rewritten=changed)
