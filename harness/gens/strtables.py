"""Tables the C19 string/regex model is instantiated with, dumped from the running interpreter
(the parts of CPython yaql's strings.py / regex.py delegate to and the model does not define):
whitespace class, `string` module constants, `re.escape`'s special set, case mapping of the
sampled non-ASCII characters."""
import re
import string
import sys

import pyfacts

# sampled non-ASCII characters whose case mapping the model takes from the table
SAMPLE_RANGES = [(0xA0, 0x17F), (0x391, 0x3A1), (0x3A4, 0x3C9), (0x410, 0x44F)]   # no U+03A3 (final-sigma rule)


def sample_chars():
    out = []
    for lo, hi in SAMPLE_RANGES:
        out += [chr(c) for c in range(lo, hi + 1)]
    return out


def simple_lower(c):
    """_sre.unicode_tolower: the simple (one code point) lower-case mapping"""
    import _sre
    return _sre.unicode_tolower(ord(c))


def nat_list(codes):
    return '[' + ', '.join(str(c) for c in codes) + ']'


@pyfacts.generator('StrTables')
def gen_strtables():
    spaces = [c for c in range(sys.maxunicode + 1) if not (0xD800 <= c <= 0xDFFF) and chr(c).isspace()]
    special = sorted(re._special_chars_map) if hasattr(re, '_special_chars_map') else \
        sorted(c for c in range(128) if re.escape(chr(c)) != chr(c))
    rows = []
    for ch in sample_chars():
        rows.append('(%d, %s, %s, %d)' % (ord(ch), nat_list(map(ord, ch.upper())), nat_list(map(ord, ch.lower())),
                                          simple_lower(ch)))
    body = ['namespace Yaql.Gen.StrTables', '',
            '/-- code points `c` with `chr(c).isspace()` -/',
            'def spaceCodes : List Nat := ' + nat_list(spaces), '']
    for lean, py in [('digits', string.digits), ('hexdigits', string.hexdigits),
                     ('asciiLowercase', string.ascii_lowercase), ('asciiUppercase', string.ascii_uppercase),
                     ('asciiLetters', string.ascii_letters), ('octdigits', string.octdigits),
                     ('punctuation', string.punctuation), ('printable', string.printable),
                     ('whitespace', string.whitespace)]:
        body.append('def %s : List Nat := %s' % (lean, nat_list(map(ord, py))))
    body += ['', '/-- characters `re.escape` puts a backslash before -/',
             'def reSpecial : List Nat := ' + nat_list(special), '',
             '/-- (code point, `c.upper()`, `c.lower()`, simple lower-case used by `re.IGNORECASE`) of the sampled',
             '    non-ASCII characters -/',
             'def caseTable : List (Nat × List Nat × List Nat × Nat) := [',
             ',\n'.join('  ' + r for r in rows), ']', '', 'end Yaql.Gen.StrTables', '']
    pyfacts.emit('StrTables', '\n'.join(body))
    return dict(spaces=len(spaces), special=len(special), case_rows=len(rows))
