"""Translator piece for C02: dumps, from the LIVE objects of /repo, for the default factory and the
legacy factory (each with and without delegates):
  * `factory.operators` (the operator list `_build_operator_table` reads),
  * the `YaqlOperators` table `_build_operator_table` returned,
  * what the live `yaql.language.parser.Parser` rules object handed to ply: `precedence`,
    `p_binary.__doc__`, `p_unary.__doc__`, `_aliases`, presence of `p_value_call`
into lean/Yaql/Gen/OpTables.lean.  Props/C02Gen.lean proves (by `decide`) that the Lean model of
`_build_operator_table` + `_generate_operator_funcs` computes exactly these from the dumped lists."""
import pyfacts
from pyfacts import lean_chars

TYPE_NAMES = {
    'PREFIX_UNARY': '.prefixUnary', 'SUFFIX_UNARY': '.suffixUnary',
    'BINARY_LEFT_ASSOCIATIVE': '.binaryLeft', 'BINARY_RIGHT_ASSOCIATIVE': '.binaryRight',
    'NAME_VALUE_PAIR': '.nameValue',
}


def capture(fac, options=None):
    """fac.create() with the Lexer/Parser rules objects and the operator table captured on the way
    (instance-level wrappers around the factory's own hooks; nothing in /repo is patched)."""
    cap = {}
    mk_lexer, mk_parser = fac._create_lexer, fac._create_parser

    def create_lexer(operators):
        cap['table'] = operators
        cap['lexer_rules'] = mk_lexer(operators)
        return cap['lexer_rules']

    def create_parser(lexer_rules, operators):
        cap['parser_rules'] = mk_parser(lexer_rules, operators)
        return cap['parser_rules']

    fac._create_lexer, fac._create_parser = create_lexer, create_parser
    try:
        engine = fac.create(options)
        if 'table' not in cap:
            # the factory did not build its grammar inside create(): make the engine do it now, while the hooks are
            # still in place (what it builds THEN is what this engine parses with)
            try:
                engine('1')
            except Exception:       # noqa
                pass
    finally:
        del fac._create_lexer, fac._create_parser
    if 'table' not in cap:
        raise RuntimeError('the factory built no operator table while creating an engine')
    cap['operators'] = [tuple(r) for r in fac.operators]
    cap['delegates'] = bool(fac.allow_delegates)
    return engine, cap


def opt_chars(s):
    return 'none' if s is None else '(some %s)' % lean_chars(s)


def lean_oplist(records):
    out = []
    for r in records:
        if len(r) < 2:
            out.append('.sep')
        else:
            out.append('.op %s %s %s' % (lean_chars(r[0]), TYPE_NAMES[r[1]], opt_chars(r[2] if len(r) > 2 else None)))
    return '[' + ',\n   '.join(out) + ']'


def lean_table(table):
    rows = ['(%s, ⟨%d, %d, %s, %s⟩)' % (lean_chars(sym), up, bp, lean_chars(name), opt_chars(alias))
            for sym, (up, bp, name, alias) in table.operators.items()]
    return '⟨[' + ',\n   '.join(rows) + '], %s⟩' % opt_chars(table.name_value_op)


def lean_generated(rules):
    prec = ['(%s, [%s])' % ('true' if row[0] == 'left' else 'false', ', '.join(lean_chars(n) for n in row[1:]))
            for row in rules.precedence]
    for row in rules.precedence:
        if row[0] not in ('left', 'right'):
            raise ValueError('unexpected associativity %r' % (row,))
    aliases = ['(%s, %s)' % (lean_chars(k), opt_chars(v)) for k, v in rules._aliases.items()]
    return '⟨[' + ',\n   '.join(prec) + '],\n  %s,\n  %s,\n  [%s]⟩' % (
        lean_chars(rules.p_binary.__doc__), lean_chars(rules.p_unary.__doc__), ', '.join(aliases))


def variants():
    from yaql.language import factory
    from yaql import legacy
    return [
        ('default', factory.YaqlFactory()),
        ('defaultDelegates', factory.YaqlFactory(allow_delegates=True)),
        ('legacy', legacy.YaqlFactory()),
        ('legacyDelegates', legacy.YaqlFactory(allow_delegates=True)),
    ]


@pyfacts.generator('OpTables')
def gen_optables():
    body = ['import Yaql.Model.OpTable', 'namespace Yaql.Gen.OpTables', 'open Yaql.OpTable', '']
    info = {}
    for name, fac in variants():
        _, cap = capture(fac)
        rules = cap['parser_rules']
        body.append('def %sOps : OpList :=\n  %s\n' % (name, lean_oplist(cap['operators'])))
        body.append('def %sTable : Table :=\n  %s\n' % (name, lean_table(cap['table'])))
        body.append('def %sGenerated : Generated :=\n  %s\n' % (name, lean_generated(rules)))
        body.append('def %sHasValueCall : Bool := %s\n' % (name, 'true' if hasattr(rules, 'p_value_call') else 'false'))
        body.append('def %sAllowDelegates : Bool := %s\n' % (name, 'true' if fac.allow_delegates else 'false'))
        info[name] = dict(records=len(cap['operators']), symbols=len(cap['table'].operators),
                          precedence_rows=len(rules.precedence))
    body.append('end Yaql.Gen.OpTables')
    changed = pyfacts.emit('OpTables', '\n'.join(body) + '\n')
    info['rewritten'] = changed
    return info
