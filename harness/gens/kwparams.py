"""Generator of lean/Yaql/Gen/KwParams.lean: for the builtin METHODS of the C04 fragment whose keyword arguments the
reference interpreter translates (`Yaql.Eval.kwParams`), the parameters after the receiver as the live default context
(`yaql.create_context()`, CamelCaseConvention) passes them by keyword - `p.alias or p.name`, e.g. `keySelector` for the
python parameter `key_selector` - with "evaluated lazily" (a Lambda-typed parameter).  `Props/C04Gen.lean` proves that
the hand-written table of the model IS this one."""
import pyfacts
from gens import registry as greg

NAMES = ('select', 'where', 'selectMany', 'orderBy', 'orderByDescending', 'takeWhile', 'skipWhile', 'indexWhere', 'toDict',
         'aggregate', 'sum', 'first', 'take', 'skip', 'any', 'all')


def rows():
    import yaql
    from yaql.language import yaqltypes
    out = []
    ctx = yaql.create_context()
    for name in NAMES:
        fds = []
        c = ctx
        while c is not None:
            fds += [fd for fd in getattr(c, '_functions', {}).get(name, ()) if fd.is_method]
            c = c.parent
        if len(fds) != 1:
            out.append((name, None))        # several method overloads: the keyword decides the overload - not a table row
            continue
        ps = sorted(((p.position, p.alias or n, isinstance(p.value_type, yaqltypes.LazyParameterType))
                     for n, p in fds[0].parameters.items()
                     if not isinstance(p.value_type, yaqltypes.HiddenParameterType) and n not in ('*', '**')),
                    key=lambda t: t[0])
        out.append((name, [(kw, lazy) for _, kw, lazy in ps[1:]]))
    return out


@pyfacts.generator('KwParams')
def gen_kw_params():
    rs = rows()

    def ps(p):
        return 'none' if p is None else 'some [%s]' % ', '.join('(%s, %s)' % (greg.lchars(k), 'true' if lz else 'false') for k, lz in p)
    body = ('/-! keyword names of the parameters of the fragment\'s builtin methods in the live default context (%d rows) -/\n'
            'namespace Yaql.Gen.KwParams\n\n'
            'def rows : List (List Char × Option (List (List Char × Bool))) := [\n%s\n]\n\nend Yaql.Gen.KwParams\n') % (
                len(rs), ',\n'.join('  (%s, %s)' % (greg.lchars(n), ps(p)) for n, p in rs))
    changed = pyfacts.emit('KwParams', body)
    return dict(rows=len(rs), multiword=[k for _, p in rs if p for k, _ in p if k.lower() != k], rewritten=changed)
