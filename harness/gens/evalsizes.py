"""Gen.EvalSizes: the `sys.getsizeof` facts the instrumented evaluator (Model/EvalLimits.lean) needs beyond
Gen.Sizes: None / bool / int, the table of a dict filled by insertions (string keys / no string key), the
allocation of `list(<generator>)`, the MappingRule object, and `objMax` = the largest non-data object that the
live engine hands to `limit_memory_usage` over a battery of expressions covering every lazy-returning function
of the fragment.  The shapes the Lean size model assumes are verified here on samples; a CPython / yaql where
they do not hold makes the translator fail."""
import sys

import pyfacts
from gens import sizes

DATA_TYPES = (type(None), bool, int, str, tuple, list, dict, frozenset, float)
MAX_DICT = 1400
MAX_LIST = 4000

BATTERY = [
    '$.xs.select($ * 2)', '$.xs.where($ > 1)', '$.xs.selectMany([$, $])', '$.xs.takeWhile($ < 3)', '$.xs.skipWhile($ < 2)',
    '$.xs.orderBy($)', '$.xs.orderByDescending($).take(2)', '$.xs.skip(1)', '$.xs.take(2)', '$.ds.a', '$.ds.select($.a)',
    'let(a => 1, b => $.xs) -> [$a, $b]', 'with(1, 2) -> $1', '$.xs.unpack(a, b, c) -> $a', 'def(f, $ + 1) -> f(2)',
    'list($.xs.select($), 4)', 'dict(a => 1)', '{a => 1, b => 2}', 'dict($.xs.select([$, $]))', '$.xs.toDict($, $)',
    '$.xs.aggregate($1 + $2, 0)', '$.xs.sum()', '$.xs.sum(1)', '$.xs.first()', '$.xs.first(0)', '$.xs.toList()', '$.d.get(a)',
    '$.d.get(zz, 0)', '$.xs.len()', '$.xs.select($).len()', '$.xs.any()', '$.xs.all($ > 0)', '$.xs.indexWhere($ = 2)',
    '$.xs[0]', '$.d[a]', '$.d.get(a, 1)', 'not $.xs', '-$.xs[0]', '$.xs + $.xs', '$.s + $.s', '$.d + $.d', '$.s < $.s',
    '$.xs.select($).select($).where($).selectMany([$]).orderBy($).skip(0).take(9).takeWhile(true).skipWhile(false)',
    '[[1, 2].select($), [3].where($)]', '$.xs.select([$].select($))', 'any($.xs)', 'len($.s)', '$nope', 'f(1)', '$.xs.foo()',
]


def observe_objects():
    """sizes of everything that is not plain data among the values the engine measures"""
    import yaql
    from yaql.language import utils
    seen = {}
    orig = utils.limit_memory_usage

    def hook(q, *args):
        for t in args:
            if not isinstance(t[1], DATA_TYPES) and not isinstance(t[1], utils.FrozenDict):
                n = sys.getsizeof(t[1], 0)
                k = type(t[1]).__name__
                seen[k] = max(seen.get(k, 0), n)
        return orig(q, *args)
    utils.limit_memory_usage = hook
    try:
        eng = yaql.YaqlFactory().create(options={'yaql.limitIterators': 1000, 'yaql.memoryQuota': 10 ** 9})
        root = yaql.create_context()
        doc = {'xs': [1, 2, 3], 's': 'abc', 'd': {'a': 1}, 'ds': [{'a': 1}, {'a': 2}]}
        for text in BATTERY:
            try:
                eng(text).evaluate(data=doc, context=root.create_child_context())
            except Exception:      # noqa - the exceptions are part of the battery
                pass
    finally:
        utils.limit_memory_usage = orig
    return seen


def breakpoints(f, upto):
    """[(n, f(n))] for the last n of every run of equal values of f over 0..upto"""
    out, prev = [], None
    for n in range(0, upto + 1):
        v = f(n)
        if prev is not None and v != prev[1]:
            out.append(prev)
        prev = (n, v)
    return out          # the (unfinished) last run is dropped: beyond it the model makes no prediction


def measure(strict=True):
    """strict=False: no shape assertion (the translator has refused the tree already; the check still looks for a failing input)"""
    g = sys.getsizeof
    base = sizes.measure(strict)

    def need(cond, what):
        if strict:
            assert cond, what
    from yaql.language import utils as yutils
    none_sz, bool_sz = g(None), g(True)
    assert g(False) == bool_sz
    digit_bits = sys.int_info.bits_per_digit
    int_digit = sys.int_info.sizeof_digit
    int_base = g(1) - int_digit

    def ndigits(n):
        n = abs(n)
        d = 1
        while n >= (1 << digit_bits):
            n >>= digit_bits
            d += 1
        return d
    for x in [0, 1, -1, 7, 255, 2 ** 29, 2 ** 30 - 1, 2 ** 30, -2 ** 30, 2 ** 59, 2 ** 60 - 1, 2 ** 60, 2 ** 61, 10 ** 30, -10 ** 40,
              2 ** 300, 3 ** 500]:
        need(g(x) == int_base + int_digit * ndigits(x), ('int', x))

    def by_insertion(keys):
        d = {}
        for k in keys:
            d[k] = None
        return d

    def uni(n):
        return g(by_insertion('k%d' % i for i in range(n)))

    def gen(n):
        return g(by_insertion(range(n)))
    dict_empty = g({})
    assert uni(0) == gen(0) == dict_empty
    dict_uni = [p for p in breakpoints(uni, MAX_DICT) if p[0] > 0]
    dict_gen = [p for p in breakpoints(gen, MAX_DICT) if p[0] > 0]
    fd_over = base['fdictOverhead']
    for n in list(range(0, 70)) + [85, 86, 170, 171, 341, 342, 682, 683]:
        ks = ['k%d' % i for i in range(n)]
        d = by_insertion(ks)
        # the ways the fragment builds dicts: FrozenDict(generator of pairs), FrozenDict(dict), dict(FrozenDict) + update,
        # keys of other non-string types, tuple keys
        need(g(yutils.FrozenDict((k, 1) for k in ks)) == fd_over + g(d), ('FrozenDict(pairs)', n))
        need(g(yutils.FrozenDict(d)) == fd_over + g(d), ('FrozenDict(dict)', n))
        half = yutils.FrozenDict((k, 1) for k in ks[:n // 2])
        rest = yutils.FrozenDict((k, 2) for k in ks[n // 3:])
        m = dict(half)
        m.update(rest)
        need(g(m) == g(d) and g(yutils.FrozenDict(m)) == fd_over + g(d), ('combine_dicts', n))
        need(g(by_insertion((i, 'x') for i in range(n))) == g(by_insertion(range(n))), ('tuple keys', n))
        need(g(by_insertion([None, True, 2, (3,)][:n] + list(range(4, n)))) == g(by_insertion(range(n))), ('mixed non-str', n))
        # updating existing keys does not change the table
        d2 = by_insertion(ks)
        for k in ks:
            d2[k] = 7
        assert g(d2) == g(d)

    def lst(n):
        r = list(x for x in range(n))
        assert (g(r) - base['listHdr']) % base['ptr'] == 0
        return (g(r) - base['listHdr']) // base['ptr']
    list_grow = breakpoints(lst, MAX_LIST)
    objs = observe_objects()
    for must in ('map', 'filter', 'generator', 'islice', 'OrderingIterable', 'Context'):
        need(must in objs, ('the battery no longer reaches a %s object' % must, objs))
    rule_sz = g(yutils.MappingRule(None, None))
    obj_max = max(list(objs.values()) + [g(yutils.NO_VALUE)])
    obj_min = min(list(objs.values()) + [g(yutils.NO_VALUE)])
    assert rule_sz <= obj_max
    return dict(base=base, noneSz=none_sz, boolSz=bool_sz, intBase=int_base, intDigit=int_digit, digitBits=digit_bits,
                objMin=obj_min, objMax=obj_max, ruleSz=rule_sz, dictEmpty=dict_empty, dictUni=dict_uni, dictGen=dict_gen, listGrow=list_grow,
                objects=objs)


def pairs(ps):
    return '[' + ', '.join('(%d, %d)' % p for p in ps) + ']'


@pyfacts.generator('EvalSizes')
def gen():
    c = measure()
    body = ['import Yaql.Model.EvalLimits', 'import Yaql.Gen.Sizes',
            '/-! `sys.getsizeof` facts of CPython %s for the instrumented evaluator; non-data objects measured: %s -/' % (
                sys.version.split()[0], ', '.join('%s %d' % kv for kv in sorted(c['objects'].items()))),
            'namespace Yaql.Gen.EvalSizes', '',
            'def ecfg : Yaql.EvalLimits.ECfg :=',
            '  { sz := Yaql.Gen.Sizes.cfg, noneSz := %d, boolSz := %d, intBase := %d, intDigit := %d, digitBits := %d,' % (
                c['noneSz'], c['boolSz'], c['intBase'], c['intDigit'], c['digitBits']),
            '    objMin := %d, objMax := %d, ruleSz := %d, dictEmpty := %d,' % (c['objMin'], c['objMax'], c['ruleSz'], c['dictEmpty']),
            '    dictUni := ' + pairs(c['dictUni']) + ',',
            '    dictGen := ' + pairs(c['dictGen']) + ',',
            '    listGrow := ' + pairs(c['listGrow']) + ' }', '',
            'end Yaql.Gen.EvalSizes', '']
    pyfacts.emit('EvalSizes', '\n'.join(body))
    return {k: v for k, v in c.items() if k not in ('listGrow', 'base')}
