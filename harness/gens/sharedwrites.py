"""Gen.SharedWrites (property C18): every place in yaql that WRITES something which may outlive the call.

AST walk over ALL of `yaql/__init__.py`, `yaql/language/*.py`, `yaql/standard_library/*.py` of the live
repo.  A *write site* is
  * an assignment / augmented assignment / `del` whose target is an attribute or an item (`x.a = ..`,
    `x.a[k] = ..`, `x[k] op= ..`, `del x[k]`), `setattr(x, ..)` / `delattr(x, ..)`,
  * a call of a mutating container method (`append extend insert sort update pop add remove clear
    setdefault discard popitem appendleft popleft rotate reverse`) on a name or attribute chain,
  * an assignment to a name the function declares `global` / `nonlocal`,
whose ROOT (the name the target chain starts at) is not an object the same function just created.
Not rows (counted in `skipped_fresh`): roots that are locals bound only to freshly created objects
(literals, comprehensions, constructor calls, `.copy()`/`.clone()`/`dict(x)`, nested defs) and the
`*args`/`**kwargs` collections of the function itself.

Each row is classified BY RULES (below, in order); whatever no rule explains is `unknown`, and
`Props/C18Gen.no_shared_writes` then fails and names the site.

  ctor               `self.<..>` inside `__init__`/`__new__`, or inside a method that is only ever called
                     as `self.m(..)` from the `__init__` of its own class (object under construction)
  plyCallback        `t.<..>` / `p[0]` inside a ply token / grammar callback (`t_*`, `p_*`): the token /
                     production object ply created for this parse (parsing is property C01)
  setupTime          the enclosing function is not reachable from evaluation (name-based call graph from
                     `Statement.evaluate/__call__`, `yaql.eval`, `runner.*`, every `__call__`/`check`/`convert`,
                     every registered payload; every dunder method counts as reachable)
  contextApi         `self.<..>` inside a method of a `ContextBase` subclass: the registration / data API
                     of contexts; evaluation calls it only on contexts it created (checked dynamically:
                     harness/props/c18.py tags every context with its creating thread)
  contextItem        `ctx[..] = v` / `del ctx[..]` where `ctx` is a parameter the live FunctionDefinition
                     types as `yaqltypes.Context`, or is named like one (`context`, `__context__`, ...):
                     goes through the context API above (same dynamic check)
  evalPrivateObject  `self.<..>` / `param.<..>` where the object's class (enclosing class; class of the first
                     parameter of an enclosing method for a closure variable; `python_type` of the live
                     parameter declaration) has NO instance reachable from a prepared context, a parsed
                     statement or an engine (object-graph walk of live objects, see `shared_kinds`)
  closureCell        mutation of a container that an ENCLOSING call created as a fresh local (`yielded` of
                     `utils.memorize`): reachable only through the closures that call returned
  freshDerived       the root is a loop variable / alias over the contents of a fresh local
                     (`for p in fd.parameters.values()` with `fd = ....clone()`)
  idempotentCache    publish-once of a value that is a function of its key: (a) `self.X = <local>` as the only
                     write to `self.X` in a function that first tests `self.X is None` and whose local is
                     computed without reading `self.X`; (b) `G = <call without arguments>` / `G[key] = <local
                     computed by one call from key alone>` on a module-level name, under `if G is None` /
                     `G.get(key) is None`; (c) `f.X = <fresh object built from f>` under `if not hasattr(f, X)`
  unknown            none of the above

Also emitted: the classes with / without instances reachable from the prepared objects, and the names of
the module-level caches."""
import ast
import gc
import importlib
import inspect
import os
import types

import common  # noqa
import pyfacts

MUTATORS = {'append', 'extend', 'insert', 'sort', 'update', 'pop', 'add', 'remove', 'clear', 'setdefault',
            'discard', 'popitem', 'appendleft', 'popleft', 'rotate', 'reverse', '__setitem__', '__delitem__',
            'intersection_update', 'difference_update', 'symmetric_difference_update'}
CREATORS = {'dict', 'list', 'set', 'tuple', 'frozenset', 'deque', 'sorted', 'copy', 'clone', 'deepcopy', 'OrderedDict',
            'defaultdict', 'bytearray', 'object'}
CONTEXT_NAMES = {'context', '__context__', '__context', 'new_context', 'ctx'}


def source_files():
    root = os.path.join(common.REPO, 'yaql')
    out = [os.path.join(root, '__init__.py')]
    for sub in ('language', 'standard_library'):
        d = os.path.join(root, sub)
        out += sorted(os.path.join(d, f) for f in os.listdir(d) if f.endswith('.py'))
    return root, out


def module_name(root, path):
    rel = os.path.relpath(path, root)[:-3].replace(os.sep, '.')
    return 'yaql' if rel == '__init__' else 'yaql.' + (rel[:-9] if rel.endswith('.__init__') else rel)


class Func:
    """one def / lambda-free scope with its static facts"""

    def __init__(self, node, parent, cls, mod, relfile):
        self.node, self.parent, self.cls, self.mod, self.relfile = node, parent, cls, mod, relfile
        self.name = node.name
        self.qual = (parent.qual + '.' if parent else (cls.name + '.' if cls else '')) + node.name \
            if not (parent and cls and cls_parent(cls) is parent) else parent.qual + '.' + cls.name + '.' + node.name
        a = node.args
        self.params = [x.arg for x in a.posonlyargs + a.args + a.kwonlyargs]
        self.var = [x.arg for x in (a.vararg, a.kwarg) if x]
        self.assigned = {}      # local name -> list of value nodes (None = not a plain value: loop var, unpack ...)
        self.globals_decl, self.nonlocal_decl = set(), set()
        self.calls, self.loads, self.attr_calls = set(), set(), set()
        self.children = []
        self.decorated = bool(node.decorator_list)


def cls_parent(cls):
    return getattr(cls, '_parent_func', None)


class Collector(ast.NodeVisitor):
    """builds Func records (scopes) and remembers, for every node, its enclosing Func and class"""

    def __init__(self, mod, relfile):
        self.mod, self.relfile = mod, relfile
        self.fstack, self.cstack = [], []
        self.funcs = []
        self.owner = {}          # node -> Func (innermost) for statements we look at
        self.module_assigned = {}
        self.registered = set()
        self.lines = {}

    def cur(self):
        return self.fstack[-1] if self.fstack else None

    def visit_ClassDef(self, node):
        node._parent_func = self.cur()
        self.cstack.append(node)
        saved = self.fstack
        # a class body is not a function scope; methods see the enclosing function's names as closure
        self.generic_visit(node)
        self.fstack = saved
        self.cstack.pop()

    def visit_FunctionDef(self, node):
        cls = self.cstack[-1] if self.cstack and getattr(self.cstack[-1], '_parent_func', None) is self.cur() else None
        f = Func(node, self.cur(), cls, self.mod, self.relfile)
        f.collector = self
        if self.cur():
            self.cur().children.append(f)
            self.cur().assigned.setdefault(node.name, []).append(node)
        self.funcs.append(f)
        for d in node.decorator_list:          # decorators run in the enclosing scope
            self.visit(d)
        self.fstack.append(f)
        saved_c = self.cstack
        self.cstack = list(self.cstack)
        for st in node.body:
            self.visit(st)
        self.cstack = saved_c
        self.fstack.pop()

    visit_AsyncFunctionDef = visit_FunctionDef

    def bind(self, target, value):
        f = self.cur()
        table = f.assigned if f else self.module_assigned
        if isinstance(target, ast.Name):
            table.setdefault(target.id, []).append(value)
            self.lines.setdefault((id(table), target.id), []).append(getattr(target, 'lineno', 0))
        elif isinstance(target, (ast.Tuple, ast.List)):
            for i, e in enumerate(target.elts):
                # `a, b = f(..)`: remember the call and the position, the callee's returns are inspected later
                self.bind(e, ('unpack', value, i) if isinstance(value, ast.Call) else None)
        elif isinstance(target, ast.Starred):
            self.bind(target.value, None)

    def visit_Assign(self, node):
        for t in node.targets:
            self.bind(t, node.value)
        self.owner[node] = self.cur()
        self.generic_visit(node)

    def visit_AugAssign(self, node):
        self.bind(node.target, None)
        self.owner[node] = self.cur()
        self.generic_visit(node)

    def visit_AnnAssign(self, node):
        self.bind(node.target, node.value)
        self.owner[node] = self.cur()
        self.generic_visit(node)

    def visit_Delete(self, node):
        self.owner[node] = self.cur()
        self.generic_visit(node)

    def visit_For(self, node):
        self.bind_loop(node.target, node.iter)
        self.generic_visit(node)

    def bind_loop(self, target, it):
        f = self.cur()
        table = f.assigned if f else self.module_assigned
        for n in ast.walk(target):
            if isinstance(n, ast.Name):
                table.setdefault(n.id, []).append(('loop', it))
                self.lines.setdefault((id(table), n.id), []).append(getattr(n, 'lineno', 0))

    def visit_comprehension(self, node):
        self.bind_loop(node.target, node.iter)
        self.generic_visit(node)

    def visit_With(self, node):
        for item in node.items:
            if item.optional_vars is not None:
                self.bind(item.optional_vars, None)
        self.generic_visit(node)

    def visit_ExceptHandler(self, node):
        if node.name:
            f = self.cur()
            (f.assigned if f else self.module_assigned).setdefault(node.name, []).append(None)
        self.generic_visit(node)

    def visit_Global(self, node):
        if self.cur():
            self.cur().globals_decl |= set(node.names)

    def visit_Nonlocal(self, node):
        if self.cur():
            self.cur().nonlocal_decl |= set(node.names)

    def visit_Call(self, node):
        self.owner[node] = self.cur()
        f = self.cur()
        nm = node.func.id if isinstance(node.func, ast.Name) else node.func.attr if isinstance(node.func, ast.Attribute) else None
        if f and nm:
            f.calls.add(nm)
            if isinstance(node.func, ast.Attribute):
                f.attr_calls.add(nm)
        if nm == 'register_function' or nm == 'register':
            for a in node.args:
                if isinstance(a, ast.Name):
                    self.registered.add(a.id)
        self.generic_visit(node)

    def visit_Name(self, node):
        f = self.cur()
        if f and isinstance(node.ctx, ast.Load):
            f.loads.add(node.id)


def root_of(n):
    while True:
        if isinstance(n, (ast.Attribute, ast.Subscript, ast.Starred)):
            n = n.value
        elif isinstance(n, ast.Call):
            n = n.func
        else:
            return n


def is_creating(v, func, live_mod):
    """is the expression a freshly created object (never an alias of something that existed before)?"""
    if v is None:
        return False
    if isinstance(v, tuple):
        if v[0] == 'unpack':
            return returns_fresh(v[1], v[2], func, live_mod)
        return False
    if isinstance(v, (ast.FunctionDef, ast.AsyncFunctionDef, ast.Lambda, ast.Dict, ast.List, ast.Set, ast.ListComp,
                      ast.SetComp, ast.DictComp, ast.GeneratorExp, ast.Tuple, ast.Constant, ast.JoinedStr,
                      ast.BinOp, ast.Compare, ast.UnaryOp)):
        return True
    if isinstance(v, ast.IfExp):
        return is_creating(v.body, func, live_mod) and is_creating(v.orelse, func, live_mod)
    if isinstance(v, ast.Call):
        nm = v.func.id if isinstance(v.func, ast.Name) else v.func.attr if isinstance(v.func, ast.Attribute) else None
        if nm in CREATORS:
            return True
        obj = resolve(v.func, live_mod)
        if inspect.isclass(obj):
            return True
    return False


def returns_fresh(call, pos, func, live_mod):
    """`a, b = g(..)`: g is a function of the same module every `return` of which is a tuple display whose
    element `pos` is a creating expression or a fresh local of g"""
    if func is None:
        return False
    if isinstance(call.func, ast.Name):
        cands = [g for g in func.collector.funcs if g.name == call.func.id and g.parent is None and g.cls is None]
    elif isinstance(call.func, ast.Attribute) and isinstance(call.func.value, ast.Name) and \
            isinstance(getattr(live_mod, call.func.value.id, None), types.ModuleType):
        target_mod = getattr(live_mod, call.func.value.id).__name__
        cands = [g for g in ALL_FUNCS if g.name == call.func.attr and g.parent is None and g.cls is None and g.mod == target_mod]
    else:
        return False
    if len(cands) != 1:
        return False
    g = cands[0]
    rets = [n for n in ast.walk(g.node) if isinstance(n, ast.Return)]
    if not rets:
        return False
    for r in rets:
        if not (isinstance(r.value, ast.Tuple) and pos < len(r.value.elts)):
            return False
        e = r.value.elts[pos]
        if not (is_creating(e, g, live_mod) or (isinstance(e, ast.Name) and e.id in g.assigned and e.id not in g.params and
                                                 fresh_local(e.id, g, live_mod))):
            return False
    return True


def resolve(expr, live_mod):
    """live object a dotted name denotes at module level (None if unknown)"""
    try:
        if isinstance(expr, ast.Name):
            return getattr(live_mod, expr.id, None) if hasattr(live_mod, expr.id) else getattr(__builtins__, expr.id, None) \
                if not isinstance(__builtins__, dict) else __builtins__.get(expr.id)
        if isinstance(expr, ast.Attribute):
            base = resolve(expr.value, live_mod)
            return getattr(base, expr.attr, None) if base is not None else None
    except Exception:
        return None
    return None


def binding_scope(name, f):
    """(kind, Func) of the scope that binds `name` as seen from function f:
    'param' | 'var' | 'local' in f itself, 'closure' (some enclosing function), 'global'"""
    g = f
    first = True
    while g is not None:
        if name in g.globals_decl and first:
            return 'global', None
        if name in g.nonlocal_decl and first:
            g = g.parent
            first = False
            continue
        if name in g.params:
            return ('param' if first else 'closure'), g
        if name in g.var:
            return ('var' if first else 'closure'), g
        if name in g.assigned:
            return ('local' if first else 'closure'), g
        g = g.parent
        first = False
    return 'global', None


def fresh_local(name, g, live_mod, seen=None):
    """every binding of local `name` in scope g is a creating expression"""
    vals = g.assigned.get(name, [])
    return bool(vals) and all(is_creating(v, g, live_mod) for v in vals)


def fresh_at(name, g, live_mod, line):
    """flow approximation for re-bound names (`kwargs = dict(kwargs)`, `spec = spec.clone()` inside a loop over
    specs): the latest binding of `name` in g textually before `line` is a creating expression, and every
    binding after it (up to `line`) is as well"""
    vals = g.assigned.get(name, [])
    lines = g.collector.lines.get((id(g.assigned), name), [])
    if not vals or len(vals) != len(lines):
        return False
    before = [(ln, v) for ln, v in zip(lines, vals) if ln < line]
    if not before:
        return False
    ln, v = max(before, key=lambda x: x[0])
    return is_creating(v, g, live_mod)


def derived_from_fresh(name, g, live_mod):
    """`name` is only bound as a loop variable over / alias into a fresh local of the same scope"""
    vals = g.assigned.get(name, [])
    if not vals:
        return False
    for v in vals:
        src = v[1] if isinstance(v, tuple) else v
        if src is None or isinstance(src, (ast.FunctionDef,)):
            return False
        r = root_of(src)
        if not isinstance(r, ast.Name):
            return False
        k, gg = binding_scope(r.id, g)
        if not (k == 'local' and gg is g and (fresh_local(r.id, g, live_mod))):
            return False
    return True


# ------------------------------------------------------------------ live facts

def yaql_classes():
    import yaql  # noqa
    out = {}
    root, files = source_files()
    for p in files:
        m = importlib.import_module(module_name(root, p))
        for k, v in vars(m).items():
            if inspect.isclass(v) and getattr(v, '__module__', '').startswith('yaql'):
                out[v.__module__ + '.' + v.__qualname__] = v
    return out


def shared_kinds():
    """classes (defined in yaql) that have an instance reachable from a prepared context chain with
    data and def'd functions, a parsed statement, or an engine - by walking the live object graph"""
    import yaql
    from yaql.language import utils as yutils
    engine = yaql.YaqlFactory().create()
    ctx = yaql.create_context(delegates=True)
    child = ctx.create_child_context()
    child['doc'] = yutils.convert_input_data({'a': [1, {'b': 2}], 'c': {'d': (1, 2)}})
    child.register_function(lambda x: x, name='hostf')
    stmts = [engine(t) for t in ('$doc.a.where($ > 1).orderBy($).thenBy($).select($ * 2).groupBy($, $, $.sum())',
                                 'def(f, $ + 1) -> f(1)', 'let(x => 1) -> $x + len([1, 2].memorize())',
                                 "dict(a => 1).items().join([1], true, [$1, $2])", '{a => [1, 2]}', "'x' =~ 'y'")]
    defd = stmts[1]
    ctx2 = engine('def(g, $ + 1)').evaluate(context=child)
    roots = [engine, ctx, child, ctx2] + stmts
    seen, todo, classes = set(), list(roots), set()
    skip_types = (type, types.ModuleType, types.FrameType, types.BuiltinFunctionType)
    while todo:
        o = todo.pop()
        if id(o) in seen or isinstance(o, skip_types):
            continue
        seen.add(id(o))
        c = type(o)
        if getattr(c, '__module__', '').startswith('yaql'):
            classes.add(c.__module__ + '.' + c.__qualname__)
        if len(seen) > 400000:
            break
        if isinstance(o, types.FunctionType):
            # closure cells and defaults, not the module globals
            for cell in (o.__closure__ or ()):
                try:
                    todo.append(cell.cell_contents)
                except ValueError:
                    pass
            todo.extend(o.__defaults__ or ())
            todo.append(getattr(o, '__dict__', None))
            continue
        try:
            todo.extend(gc.get_referents(o))
        except Exception:
            pass
    return classes


# ------------------------------------------------------------------ reachability

def reachability(all_funcs, collectors):
    by_name = {}
    for f in all_funcs:
        by_name.setdefault(f.name, []).append(f)
    registered = set()
    for c in collectors:
        registered |= c.registered
    seeds = []
    for f in all_funcs:
        n = f.name
        if (n.startswith('__') and n.endswith('__') and n not in ('__init__', '__new__')) or \
                n in ('evaluate', 'check', 'convert', '_call', 'eval') or f.mod == 'yaql.language.runner' or \
                (f.decorated and not f.cls) or (n in registered and f.parent is None and f.cls is None and
                                                f.mod.startswith('yaql.standard_library')):
            seeds.append(f)
    reach, todo = set(), list(seeds)
    classes_by_name = {}
    for f in all_funcs:
        if f.cls is not None and f.name in ('__init__', '__new__'):
            classes_by_name.setdefault(f.cls.name, []).append(f)
    while todo:
        f = todo.pop()
        if f in reach:
            continue
        reach.add(f)
        todo.extend(f.children)
        for nm in f.calls | f.loads:
            bare_only = nm in f.loads and nm not in f.attr_calls
            local = binding_scope(nm, f)[0] != 'global'
            for g in by_name.get(nm, []):
                if bare_only and (g.cls is not None or g.parent is not None or local):
                    continue        # a bare name can only denote a module-level function, unless bound locally
                todo.append(g)
            for g in classes_by_name.get(nm, []):
                todo.append(g)
    return reach, by_name


def ctor_helpers(all_funcs, by_name, collectors):
    """methods that are only ever called as `self.m(...)` from `__init__` of their own class"""
    callers = {}
    for f in all_funcs:
        for nm in f.calls:
            callers.setdefault(nm, set()).add(f)
    out = set()
    for f in all_funcs:
        if f.cls is None or f.name.startswith('__'):
            continue
        cs = callers.get(f.name, set())
        if cs and all(c.cls is f.cls and c.name == '__init__' for c in cs):
            out.add(f)
    return out


# ------------------------------------------------------------------ the walk

def enclosing_method_class(g):
    """class whose method g is (g's first parameter then denotes an instance)"""
    return g.cls.name if g is not None and g.cls is not None else None


def payload_param_types():
    """(module, function name, param) -> class name for parameters the live registry types with a
    PythonType of a yaql class, or `Context`"""
    import yaql
    from yaql.language import yaqltypes
    out = {}
    ctxs = [yaql.create_context(delegates=True)]
    try:
        from yaql import legacy
        ctxs.append(legacy.create_context())
    except Exception:
        pass
    seen = set()
    for ctx in ctxs:
        c = ctx
        while c is not None:
            for lst in getattr(c, '_functions', {}).values():
                for fd in lst:
                    if id(fd) in seen:
                        continue
                    seen.add(id(fd))
                    p = fd.payload
                    for pname, pd in fd.parameters.items():
                        vt = pd.value_type
                        key = (getattr(p, '__module__', ''), getattr(p, '__name__', ''), pd.name)
                        if isinstance(vt, yaqltypes.Context):
                            out[key] = 'Context'
                        elif isinstance(vt, yaqltypes.PythonType) and inspect.isclass(vt.python_type) and \
                                vt.python_type.__module__.startswith('yaql'):
                            out[key] = vt.python_type.__name__
            c = c.parent
    return out


def idempotent_self(site, f):
    """rule (a): `self.X = <local name>` is the only write to self.X in f, f tests `self.X is None`, and the
    local is never computed from self.X"""
    t = site['target_node']
    if not (site['op'] == 'assign' and isinstance(t, ast.Attribute) and isinstance(t.value, ast.Name)):
        return False
    attr, selfname = t.attr, t.value.id
    writes = 0
    tested = False
    reads_in_values = False
    stmt = site['stmt']
    if not isinstance(stmt.value, ast.Name):
        return False
    local = stmt.value.id
    for n in ast.walk(f.node):
        if isinstance(n, (ast.Assign, ast.AugAssign, ast.AnnAssign)):
            tg = n.targets if isinstance(n, ast.Assign) else [n.target]
            for x in tg:
                if isinstance(x, ast.Attribute) and x.attr == attr and isinstance(x.value, ast.Name) and x.value.id == selfname:
                    writes += 1
                if isinstance(x, ast.Name) and x.id == local and n.value is not None:
                    for m in ast.walk(n.value):
                        if isinstance(m, ast.Attribute) and m.attr == attr:
                            reads_in_values = True
        if isinstance(n, ast.Compare) and isinstance(n.left, ast.Attribute) and n.left.attr == attr and \
                any(isinstance(o, (ast.Is, ast.Eq)) for o in n.ops) and \
                any(isinstance(c, ast.Constant) and c.value is None for c in n.comparators):
            tested = True
    return writes == 1 and tested and not reads_in_values


def guarded_none(f, gname):
    for n in ast.walk(f.node):
        if isinstance(n, ast.Compare) and any(isinstance(o, ast.Is) for o in n.ops) and \
                any(isinstance(c, ast.Constant) and c.value is None for c in n.comparators):
            l = n.left
            if isinstance(l, ast.Name) and l.id == gname:
                return True
    return False


def idempotent_global(site, f):
    """rule (b)"""
    stmt, t = site['stmt'], site['target_node']
    if site['op'] != 'assign':
        return False
    if isinstance(t, ast.Name):                      # G = Call() under `if G is None`
        v = stmt.value
        ok_call = isinstance(v, ast.Call) and not any(isinstance(n, ast.Name) and (n.id in f.params or n.id in f.assigned)
                                                      for a in list(v.args) + [k.value for k in v.keywords] for n in ast.walk(a))
        return ok_call and guarded_none(f, t.id)
    if isinstance(t, ast.Subscript) and isinstance(t.value, ast.Name) and isinstance(t.slice, ast.Name) and \
            isinstance(stmt.value, ast.Name):      # G[key] = local;  local = call(key) once;  local = G.get(key) tested None
        g, key, local = t.value.id, t.slice.id, stmt.value.id
        vals = [v for v in f.assigned.get(local, []) if v is not None]
        computed = [v for v in vals if not (isinstance(v, ast.Call) and isinstance(v.func, ast.Attribute) and
                                            v.func.attr == 'get' and isinstance(v.func.value, ast.Name) and v.func.value.id == g)]
        looked_up = len(vals) - len(computed) == 1
        if len(computed) != 1 or not looked_up or not isinstance(computed[0], ast.Call):
            return False
        c = computed[0]
        names = {n.id for a in list(c.args) + [k.value for k in c.keywords] for n in ast.walk(a) if isinstance(n, ast.Name)}
        return names <= {key} and key in f.params and guarded_none(f, local)
    return False


def idempotent_hasattr(site, f, live_mod):
    """rule (c): `p.X = v` under `if not hasattr(p, 'X')`, v a fresh object"""
    t, stmt = site['target_node'], site['stmt']
    if not (site['op'] == 'assign' and isinstance(t, ast.Attribute) and isinstance(t.value, ast.Name)):
        return False
    guarded = False
    for n in ast.walk(f.node):
        if isinstance(n, ast.Call) and isinstance(n.func, ast.Name) and n.func.id == 'hasattr' and len(n.args) == 2 and \
                isinstance(n.args[0], ast.Name) and n.args[0].id == t.value.id and \
                isinstance(n.args[1], ast.Constant) and n.args[1].value == t.attr:
            guarded = True
    v = stmt.value
    fresh = is_creating(v, f, live_mod) or (isinstance(v, ast.Name) and fresh_local(v.id, f, live_mod))
    writes = sum(1 for n in ast.walk(f.node) if isinstance(n, ast.Attribute) and isinstance(n.ctx, ast.Store) and n.attr == t.attr)
    return guarded and fresh and writes == 1


ALL_FUNCS = []


def collect():
    root, files = source_files()
    collectors, all_funcs = [], []
    del ALL_FUNCS[:]
    trees = {}
    for p in files:
        mod = module_name(root, p)
        rel = os.path.relpath(p, root)
        tree = ast.parse(open(p).read())
        c = Collector(mod, rel)
        c.visit(tree)
        collectors.append(c)
        all_funcs += c.funcs
        ALL_FUNCS.extend(c.funcs)
        trees[p] = (tree, c, importlib.import_module(mod))
    reach, by_name = reachability(all_funcs, collectors)
    helpers = ctor_helpers(all_funcs, by_name, collectors)
    shared = shared_kinds()
    classes = yaql_classes()
    shared_names = {k.rsplit('.', 1)[-1] for k in shared}
    # a class counts as shared when it, a base or a subclass has a reachable instance
    def yaql_bases(c):
        return {b for b in c.__mro__ if getattr(b, '__module__', '').startswith('yaql')}
    shared_closure = set(shared_names)
    shared_bases = set()
    for k, c in classes.items():
        if c.__name__ in shared_names:
            shared_bases |= yaql_bases(c)
    for k, c in classes.items():         # same family: has a yaql-defined base in common with a shared class
        if yaql_bases(c) & shared_bases:
            shared_closure.add(c.__name__)
    ptypes = payload_param_types()
    ctx_classes = set()
    from yaql.language import contexts as yctx
    for k, c in classes.items():
        if issubclass(c, yctx.ContextBase):
            ctx_classes.add(c.__name__)

    rows, skipped = [], 0
    func_of_node = {}
    for p in files:
        tree, c, live = trees[p]
        # map every statement/call node to its innermost function
        def index(node, f):
            for ch in ast.iter_child_nodes(node):
                g = f
                if isinstance(ch, (ast.FunctionDef, ast.AsyncFunctionDef)):
                    g = next(x for x in c.funcs if x.node is ch)
                func_of_node[ch] = g
                index(ch, g)
        index(tree, None)

        def add(f, node, op, target, what):
            nonlocal skipped
            r = root_of(target)
            site = dict(file=c.relfile, line=node.lineno, func=f.qual if f else '<module>', op=op, what=what,
                        target=ast.unparse(target), target_node=target, stmt=node, f=f, live=live)
            if f is None:
                site.update(root='module', cls='setupTime', reach=False, why='import time')
                rows.append(site)
                return
            if not isinstance(r, ast.Name):
                site.update(root='expr', rootname=ast.unparse(r))
                rows.append(site)
                return
            kind, g = binding_scope(r.id, f)
            site.update(root=kind, rootname=r.id, scope=g)
            if kind == 'var':
                skipped += 1
                return
            if kind == 'local' and fresh_local(r.id, f, live):
                skipped += 1
                return
            if kind in ('local', 'param') and fresh_at(r.id, f, live, node.lineno):
                skipped += 1
                return
            rows.append(site)

        for node in ast.walk(tree):
            f = func_of_node.get(node)
            if isinstance(node, (ast.Assign, ast.AugAssign, ast.AnnAssign)):
                tg = node.targets if isinstance(node, ast.Assign) else [node.target]
                op = 'aug' if isinstance(node, ast.AugAssign) else 'assign'
                flat = []
                for t in tg:
                    flat += list(t.elts) if isinstance(t, (ast.Tuple, ast.List)) else [t]
                for t in flat:
                    if isinstance(t, (ast.Attribute, ast.Subscript)):
                        add(f, node, op, t, 'attr' if isinstance(t, ast.Attribute) else 'item')
                    elif isinstance(t, ast.Name) and f is not None and (t.id in f.globals_decl or t.id in f.nonlocal_decl):
                        add(f, node, op, t, 'name')
            elif isinstance(node, ast.Delete):
                for t in node.targets:
                    if isinstance(t, (ast.Attribute, ast.Subscript)):
                        add(f, node, 'del', t, 'attr' if isinstance(t, ast.Attribute) else 'item')
            elif isinstance(node, ast.Call):
                if isinstance(node.func, ast.Attribute) and node.func.attr in MUTATORS:
                    add(f, node, 'mut:' + node.func.attr, node.func.value, 'mutate')
                elif isinstance(node.func, ast.Name) and node.func.id in ('setattr', 'delattr') and node.args:
                    add(f, node, node.func.id, node.args[0], 'attr')

    # ---------------------------------------------------------------- classification
    out = []
    for s in rows:
        f = s['f']
        if 'cls' in s:
            out.append(s)
            continue
        live = s['live']
        reachable = f in reach
        s['reach'] = reachable
        kind = s['root']
        rn = s.get('rootname', '')
        obj_class = None
        g = s.get('scope')
        first_param = lambda fn: (fn.params[0] if fn.params else None)
        if kind in ('param', 'closure') and g is not None and g.cls is not None and rn == first_param(g) and \
                not any(isinstance(d, ast.Name) and d.id == 'staticmethod' for d in g.node.decorator_list):
            obj_class = g.cls.name
        elif kind in ('param', 'closure') and g is not None:
            obj_class = ptypes.get((g.mod, g.name, rn))
        s['objclass'] = obj_class or ''
        is_self = obj_class is not None and g is not None and g.cls is not None and rn == first_param(g)
        cls = 'unknown'
        why = ''
        if is_self and kind == 'param' and f.name in ('__init__', '__new__'):
            cls, why = 'ctor', 'constructor of ' + obj_class
        elif is_self and kind == 'param' and f in helpers:
            cls, why = 'ctor', 'only called as self.%s() from %s.__init__' % (f.name, obj_class)
        elif f.cls is None and f.parent is None or True:
            pass
        if cls == 'unknown' and (f.name.startswith('t_') or f.name.startswith('p_')) and kind == 'param' and rn in ('t', 'p'):
            cls, why = 'plyCallback', 'ply token/production object of this parse'
        if cls == 'unknown' and not reachable:
            cls, why = 'setupTime', 'not reachable from evaluation'
        if cls == 'unknown' and is_self and obj_class in ctx_classes:
            cls, why = 'contextApi', 'method of context class ' + obj_class
        if cls == 'unknown' and s['what'] == 'item' and (obj_class == 'Context' or rn in CONTEXT_NAMES) and \
                isinstance(s['target_node'], ast.Subscript) and isinstance(s['target_node'].value, ast.Name):
            cls, why = 'contextItem', 'item write on a context parameter'
        if cls == 'unknown' and obj_class and obj_class != 'Context' and obj_class not in shared_closure:
            cls, why = 'evalPrivateObject', 'no instance of %s is reachable from prepared objects' % obj_class
        if cls == 'unknown' and kind == 'closure' and g is not None and fresh_local(rn, g, live):
            cls, why = 'closureCell', 'fresh local %s of enclosing %s' % (rn, g.qual)
        if cls == 'unknown' and kind == 'local' and derived_from_fresh(rn, f, live):
            cls, why = 'freshDerived', 'loop variable / alias over a fresh local'
        if cls == 'unknown' and obj_class and idempotent_self(s, f):
            cls, why = 'idempotentCache', 'publish-once of a local under `is None`'
        if cls == 'unknown' and kind == 'global' and idempotent_global(s, f):
            cls, why = 'idempotentCache', 'module-level cache filled with a function of the key'
        if cls == 'unknown' and kind == 'param' and idempotent_hasattr(s, f, live):
            cls, why = 'idempotentCache', 'publish-once of a fresh object under `not hasattr`'
        s['cls'], s['why'] = cls, why
        out.append(s)
    private = sorted(c.__name__ for k, c in classes.items() if c.__name__ not in shared_closure)
    # local classes (defined inside functions) never show up in module namespaces
    for f in all_funcs:
        pass
    return out, skipped, sorted(shared_closure), private


def lean_rows(rows):
    lines = []
    for r in rows:
        lines.append('  ⟨%s, %d, %s, %s, %s, %s, .%s⟩  -- %s%s' % (
            pyfacts.lean_str(r['file']), r['line'], pyfacts.lean_str(r['func']), pyfacts.lean_str(r['target']),
            pyfacts.lean_str(r['op']), 'true' if r.get('reach') else 'false', r['cls'],
            r.get('root', ''), (': ' + r['why']) if r.get('why') else ''))
    body = []
    for i, x in enumerate(lines):
        code, comment = x.split('  -- ', 1)
        body.append(code + (',' if i < len(lines) - 1 else '') + '  -- ' + comment)
    return body


@pyfacts.generator('SharedWrites')
def gen():
    rows, skipped, shared, private = collect()
    rows.sort(key=lambda r: (r['file'], r['line'], r['target'], r['op']))
    out = ['/-! every write site of yaql that may outlive its call, classified (see harness/gens/sharedwrites.py) -/',
           'namespace Yaql.Gen.SharedWrites', '',
           'inductive WClass where',
           '  | ctor | plyCallback | setupTime | contextApi | contextItem | evalPrivateObject | closureCell',
           '  | freshDerived | idempotentCache | unknown',
           'deriving DecidableEq, Repr', '',
           'structure Row where', '  file : String', '  line : Nat', '  func : String', '  target : String',
           '  op : String', '  reach : Bool', '  cls : WClass', '',
           'def rows : List Row := [']
    out += lean_rows(rows)
    out += [']', '',
            '/-- classes with an instance reachable from a prepared context / parsed statement / engine -/',
            'def sharedKinds : List String := [' + ', '.join(pyfacts.lean_str(x) for x in shared) + ']', '',
            '/-- module-level classes of yaql with no such instance -/',
            'def privateKinds : List String := [' + ', '.join(pyfacts.lean_str(x) for x in private) + ']', '',
            'end Yaql.Gen.SharedWrites', '']
    pyfacts.emit('SharedWrites', '\n'.join(out))
    hist = {}
    for r in rows:
        hist[r['cls']] = hist.get(r['cls'], 0) + 1
    return dict(rows=len(rows), skipped_fresh=skipped, classes=hist,
                unknown=['%s:%d %s %s' % (r['file'], r['line'], r['func'], r['target']) for r in rows if r['cls'] == 'unknown'],
                eval_reachable_rows=['%s:%d %s %s [%s]' % (r['file'], r['line'], r['func'], r['target'], r['cls'])
                                     for r in rows if r.get('reach') and r['cls'] not in ('ctor',)],
                private_kinds=private)


def sites():
    """rows for the harness (dynamic justification): list of dicts without AST nodes"""
    rows, skipped, shared, private = collect()
    return [dict((k, v) for k, v in r.items() if k in ('file', 'line', 'func', 'target', 'op', 'reach', 'cls', 'why', 'objclass'))
            for r in rows], shared, private
