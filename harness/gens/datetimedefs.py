"""Generator of lean/Yaql/Gen/DateTimeDefs.lean (C20): every FunctionDefinition registered in
yaql.create_context() whose payload is defined in yaql/standard_library/date_time.py, with the class of
each declared parameter type - in particular whether a datetime-typed parameter is `yaqltypes.DateTime()`
(naive values become UTC) or a bare python type (no conversion)."""
import datetime

import common  # noqa: F401
import pyfacts
from yaql.language import yaqltypes

from gens import registry

MODULE = 'yaql.standard_library.date_time'


def kind_of(vt):
    """class of a smart-type for C20"""
    if isinstance(vt, yaqltypes.DateTime):
        return 'dtConv'
    if isinstance(vt, yaqltypes.String):
        return 'string'
    if isinstance(vt, yaqltypes.Integer):
        return 'int'
    if isinstance(vt, yaqltypes.Number):
        return 'number'
    if isinstance(vt, yaqltypes.PythonType):
        pt = vt.python_type
        pts = pt if isinstance(pt, tuple) else (pt,)
        if any(t is not object and isinstance(t, type) and issubclass(datetime.datetime, t) for t in pts):
            return 'dtBare'
        if any(isinstance(t, type) and issubclass(datetime.timedelta, t) and t is not object for t in pts):
            return 'timespan'
        if pts == (int,):
            return 'int'
        return 'other'
    return 'other'


def origin(payload):
    """python name of the date_time.py function behind a payload; the `specs.yaql_property` wrapper
    (defined in yaql.language.specs) is looked through to the function it closes over"""
    if getattr(payload, '__module__', None) == MODULE:
        return payload.__name__
    for cell in getattr(payload, '__closure__', None) or ():
        try:
            f = cell.cell_contents
        except ValueError:
            continue
        if callable(f) and getattr(f, '__module__', None) == MODULE:
            return f.__name__
    return None


def date_time_defs(root=None):
    """[(python name, yaql name, [(param name, kind)])], deterministic order"""
    out = []
    for _, name, fd in registry.all_definitions(root):
        pyname = origin(fd.payload)
        if pyname is None:
            continue
        ps = []
        params = sorted(fd.parameters.values(), key=lambda p: (p.position is None, p.position or 0, p.name))
        for p in params:
            ps.append((p.name, kind_of(p.value_type)))
        out.append((pyname, name, ps))
    out.sort()
    return out


@pyfacts.generator('DateTimeDefs')
def gen_datetime_defs():
    defs = date_time_defs()
    rows = []
    for py, name, ps in defs:
        rows.append('  { py := %s, name := %s,\n    params := [%s] }' % (
            registry.lchars(py), registry.lchars(name),
            ', '.join('{ name := %s, kind := .%s }' % (registry.lchars(n), k) for n, k in ps)))
    body = ('import Yaql.Model.DateTime\n'
            '/-! every FunctionDefinition registered from yaql/standard_library/date_time.py (%d definitions) -/\n'
            'namespace Yaql.Gen.DateTimeDefs\nopen Yaql.DateTime\n\n'
            'def defs : List DDef := [\n%s\n]\n\nend Yaql.Gen.DateTimeDefs\n') % (len(defs), ',\n'.join(rows))
    changed = pyfacts.emit('DateTimeDefs', body)
    kinds = {}
    for _, _, ps in defs:
        for _, k in ps:
            kinds[k] = kinds.get(k, 0) + 1
    return dict(definitions=len(defs), param_kinds=kinds, rewritten=changed)
