"""Gen.StreamFacts: how the payload of every streaming operator uses its source parameter
(AST walk of the live /repo).  Props/C14Gen.lean proves that no use is an eager one."""
import ast
import os

import common
import pyfacts

# operator (as in the property statement) -> (file, python function, source parameter)
Q = 'yaql/standard_library/queries.py'
C = 'yaql/standard_library/collections.py'
U = 'yaql/language/utils.py'
PAYLOADS = [
    ('select', Q, 'select', 'collection'), ('where', Q, 'where', 'collection'),
    ('selectMany', Q, 'select_many', 'collection'), ('skip', Q, 'skip', 'collection'),
    ('take', Q, 'limit', 'collection'), ('takeWhile', Q, 'take_while', 'collection'),
    ('skipWhile', Q, 'skip_while', 'collection'), ('append', Q, 'append', 'collection'),
    ('concat', Q, 'concat', 'collections'), ('distinct', Q, 'distinct', 'collection'),
    ('enumerate', Q, 'enumerate_', 'collection'), ('zip', Q, 'zip_', 'collections'),
    ('accumulate', Q, 'accumulate', 'collection'), ('insert', C, 'iter_insert', 'collection'),
    ('insertMany', C, 'insert_many', 'collection'), ('delete', C, 'delete', 'collection'),
    ('replace', C, 'replace', 'collection'), ('replaceMany', C, 'replace_many', 'collection'),
    ('slice', Q, 'slice_', 'collection'), ('memorize', U, 'memorize', 'collection'),
    ('memberProjection', Q, 'collection_attribution', 'collection'), ('first', Q, 'first', 'collection'),
    ('any', Q, 'any_', 'collection'), ('all', Q, 'all_', 'collection'), ('indexOf', Q, 'index_of', 'collection'),
    ('indexWhere', Q, 'index_where', 'collection'), ('joinOuter', Q, 'join', 'collection1'),
    ('limitIterable', U, 'limit_iterable', 'iterable'),
]

LAZY = {'map', 'filter', 'islice', 'chain', 'takewhile', 'dropwhile', 'enumerate', 'zip', 'zip_longest', 'iter',
        'cycle', 'memorize', 'limit_iterable', 'limiting_iterator'}
EAGER = {'tuple', 'list', 'set', 'frozenset', 'sorted', 'sum', 'min', 'max', 'dict', 'reduce', 'to_list',
         'reversed', 'join', 'extend', 'deque', 'all', 'any', 'Counter'}
TESTS = {'isinstance', 'is_iterator', 'is_iterable', 'is_sequence', 'callable'}


def call_name(node):
    f = node.func
    if isinstance(f, ast.Name):
        return f.id
    if isinstance(f, ast.Attribute):
        return f.attr
    return '?'


class Walker:
    def __init__(self, fn, src):
        self.fn, self.uses = fn, []
        self.alias = {src: 'src'}
        self.parents = {}
        for p in ast.walk(fn):
            for c in ast.iter_child_nodes(p):
                self.parents[c] = p

    def kind(self, e):
        """src | lazy | bounded | None for an expression"""
        if isinstance(e, ast.Name):
            return self.alias.get(e.id)
        if isinstance(e, ast.Starred):
            return self.kind(e.value)
        if isinstance(e, ast.Call):
            n = call_name(e)
            ks = [self.kind(a) for a in e.args]
            if not any(ks):
                return None
            if n == 'islice' and len(e.args) >= 2 and not (len(e.args) == 3 and isinstance(e.args[2], ast.Constant)
                                                           and e.args[2].value is None):
                return 'bounded'
            if n in LAZY:
                return 'bounded' if 'bounded' in ks and n != 'chain' else 'lazy'
        return None

    def scope_is_generator(self, node):
        """is the innermost function containing node a generator function?"""
        p = node
        while p is not None and not isinstance(p, (ast.FunctionDef, ast.Lambda)):
            p = self.parents.get(p)
        if p is None or isinstance(p, ast.Lambda):
            return False
        for n in ast.walk(p):
            if isinstance(n, (ast.Yield, ast.YieldFrom)):
                q = n
                while q is not p and not isinstance(q, (ast.FunctionDef, ast.Lambda)) :
                    q = self.parents.get(q)
                if q is p:
                    return True
        return False

    def run(self):
        for _ in range(3):          # alias propagation
            for n in ast.walk(self.fn):
                if isinstance(n, ast.Assign) and len(n.targets) == 1 and isinstance(n.targets[0], ast.Name):
                    k = self.kind(n.value)
                    if k:
                        self.alias[n.targets[0].id] = k
        for n in ast.walk(self.fn):
            k = None
            if isinstance(n, (ast.Name, ast.Call, ast.Starred)):
                k = self.kind(n)
            if not k:
                continue
            p = self.parents.get(n)
            if isinstance(p, ast.Starred):
                continue                                 # classified at the Starred node
            if isinstance(p, ast.Call) and n in p.args or isinstance(p, ast.Call) and any(
                    isinstance(a, ast.Starred) and a is n for a in p.args):
                name = call_name(p)
                if self.kind(p):
                    continue                            # a lazy wrapper around it: classified at the wrapper
                if name in TESTS:
                    self.uses.append('typeTest')
                elif name == 'next':
                    self.uses.append('pullOne')
                elif name == 'len':
                    self.uses.append('sizeOf')
                elif name in EAGER:
                    self.uses.append('boundedEager' if k == 'bounded' else 'eager:' + name)
                else:
                    self.uses.append('escapes:' + name)
            elif isinstance(p, ast.For) and p.iter is n:
                if self.scope_is_generator(p):
                    self.uses.append('loopInGenerator')
                elif any(isinstance(x, ast.Return) for b in p.body for x in ast.walk(b)):
                    self.uses.append('searchLoop')
                else:
                    self.uses.append('eager:for')
            elif isinstance(p, ast.comprehension) and p.iter is n:
                gp = self.parents.get(p)
                self.uses.append('lazyGenExp' if isinstance(gp, ast.GeneratorExp) else 'eager:comprehension')
            elif isinstance(p, ast.YieldFrom):
                self.uses.append('yieldFrom')
            elif isinstance(p, ast.Return):
                self.uses.append('returnsLazy' if k != 'src' else 'returnsSource')
            elif isinstance(p, ast.Assign):
                t = p.targets[0]
                self.uses.append('alias' if isinstance(t, ast.Name) else 'storedLazy')
            elif isinstance(p, (ast.Compare, ast.BoolOp, ast.UnaryOp, ast.If)):
                self.uses.append('typeTest')
            elif isinstance(p, ast.Attribute):
                self.uses.append('escapes:attr')
            else:
                self.uses.append('escapes:' + type(p).__name__)
        return sorted(set(self.uses))


def find_function(tree, name):
    for n in ast.walk(tree):
        if isinstance(n, ast.FunctionDef) and n.name == name:
            return n
    return None


@pyfacts.generator('StreamFacts')
def gen_streamfacts():
    rows, info = [], {}
    trees = {}
    for op, path, fname, src in PAYLOADS:
        if path not in trees:
            trees[path] = ast.parse(open(os.path.join(common.REPO, path)).read())
        fn = find_function(trees[path], fname)
        if fn is None:
            rows.append((op, fname, False, ['missing']))
            continue
        w = Walker(fn, src)
        uses = w.run()
        is_gen = w.scope_is_generator(fn.body[-1])
        rows.append((op, fname, is_gen, uses or ['unused']))
        info[op] = uses
    def use(u):
        return '.' + u.split(':')[0]
    body = ['import Yaql.Model.StreamUse', 'namespace Yaql.Gen.StreamFacts', 'open Yaql.StreamUse', '',
            'def facts : List Fact := [']
    body.append(',\n'.join('  ⟨%s, %s, %s, [%s]⟩' % (pyfacts.lean_str(op), pyfacts.lean_str(fname), 'true' if g else 'false',
                                                    ', '.join(use(u) for u in uses))
                           for op, fname, g, uses in rows))
    body += [']', '', 'end Yaql.Gen.StreamFacts', '']
    pyfacts.emit('StreamFacts', '\n'.join(body))
    return info
