"""Gen.Engine: how the live engine hands its lexer to a parse (shared object vs per-call clone)."""
import pyfacts


@pyfacts.generator('Engine')
def gen_engine():
    import yaql
    from ply import yacc
    seen = []
    orig = yacc.LRParser.parse

    def spy(self, input=None, lexer=None, *a, **kw):
        seen.append(lexer)
        return orig(self, input, lexer, *a, **kw)
    yacc.LRParser.parse = spy
    try:
        eng = yaql.YaqlFactory().create()
        eng('1 + 2')
        eng('$.a')
    finally:
        yacc.LRParser.parse = orig
    shared = (seen[0] is seen[1]) or any(lx is eng.lexer for lx in seen)
    mode = 'shared' if shared else 'perCall'
    # the same observation for every public entry point that parses a text: two consecutive requests of each kind; the
    # lexer objects handed to LRParser.parse must be pairwise distinct (also ACROSS entry points) and never the
    # engine-wide one.  All lexers seen stay referenced, so identity comparisons are sound.
    from yaql import yaql_interface
    ctx = yaql.create_context()
    root = yaql_interface.YaqlInterface(ctx, eng)
    early = root.on(1)
    cp = eng.copy({'yaql.limitIterators': 10})
    entry_points = [
        ('engine(text)', lambda t: eng(t)),
        ('engine(text, options=..)', lambda t: eng(t, options={'yaql.limitIterators': 5})),
        ('engine.copy(..)(text)', lambda t: cp(t)),
        ('YaqlInterface(ctx, engine)(text)', lambda t: root(t)),
        ('interface.on(x)(text), derived before the first evaluation', lambda t: early(t)),
        ('interface.on(x)(text), derived after it', lambda t: root.on(2)(t)),
        ('another interface.on(y)(text)', lambda t: root.on(3)(t)),
    ]
    all_seen = list(seen)
    modes = []
    yacc.LRParser.parse = spy
    try:
        for k, (name, call) in enumerate(entry_points):
            n0 = len(seen)
            for text in ('%d + 1' % k, '[%d]' % k):
                try:
                    call(text)
                except Exception:       # noqa
                    pass
            mine = seen[n0:]
            bad = len(mine) < 2 or any(a is b for i, a in enumerate(mine) for b in all_seen + mine[:i]) or \
                any(lx is eng.lexer for lx in mine)
            all_seen += mine
            modes.append((name, 'shared' if bad else 'perCall'))
    finally:
        yacc.LRParser.parse = orig
    body = ('import Yaql.Model.ParseSched\nnamespace Yaql.Gen.Engine\nopen Yaql.ParseSched\n'
            '/-- observed on the live engine: the lexer object passed to two consecutive parses of one engine\n'
            '    is %s -/\n'
            'def lexerMode : Mode := .%s\n'
            '/-- the same observation per public entry point that parses a text (two consecutive requests each; a lexer\n'
            '    object seen before - through ANY entry point - or the engine-wide one counts as shared):\n%s -/\n'
            'def entryModes : List Mode := [%s]\n'
            'end Yaql.Gen.Engine\n') % (
        'the engine-wide one' if shared else 'a distinct object each time (a clone), never the engine-wide one', mode,
        '\n'.join('    %d. %s: %s' % (i, n, m) for i, (n, m) in enumerate(modes)),
        ', '.join('.' + m for _, m in modes))
    pyfacts.emit('Engine', body)
    return dict(lexerMode=mode, entryModes=dict(modes))
