"""Gen.Engine: how the live engine hands its lexer to a parse (shared object vs per-call clone)."""
import pyfacts


@pyfacts.generator('Engine')
def gen_engine():
    import yaql
    from ply import yacc
    seen = []
    orig = yacc.LRParser.parse

    def spy(self, input=None, lexer=None, *a, **kw):
        seen.append(lexer)
        return orig(self, input, lexer, *a, **kw)
    yacc.LRParser.parse = spy
    try:
        eng = yaql.YaqlFactory().create()
        eng('1 + 2')
        eng('$.a')
    finally:
        yacc.LRParser.parse = orig
    shared = (seen[0] is seen[1]) or any(lx is eng.lexer for lx in seen)
    mode = 'shared' if shared else 'perCall'
    body = ('import Yaql.Model.ParseSched\nnamespace Yaql.Gen.Engine\nopen Yaql.ParseSched\n'
            '/-- observed on the live engine: the lexer object passed to two consecutive parses of one engine\n'
            '    is %s -/\n'
            'def lexerMode : Mode := .%s\nend Yaql.Gen.Engine\n') % (
        'the engine-wide one' if shared else 'a distinct object each time (a clone), never the engine-wide one', mode)
    pyfacts.emit('Engine', body)
    return dict(lexerMode=mode)
