"""Gen.Sizes: the `sys.getsizeof` constants of the running CPython that yaql's memory quota works with
(tuple / list headers and per-item increment, the four str representations).  The linear shape the Lean
size model assumes is verified here on samples; a CPython where it does not hold makes the translator fail."""
import sys

import pyfacts


def measure(strict=True):
    g = sys.getsizeof
    tup, lst = g(()), g([])
    ptr = g((0,)) - tup
    for k in list(range(0, 130)) + [1000, 4097]:
        assert g(tuple(range(k))) == tup + ptr * k, ('tuple', k)
        assert g((1,) * k) == tup + ptr * k, ('tuple*', k)
        assert g([0] * k) == lst + ptr * k, ('list*', k)
        assert g([1, 2] * k) == lst + ptr * 2 * k, ('list2*', k)
        assert g(list(range(k))) >= lst + ptr * k, ('list', k)
    asc = g('')
    lat = g('\xe9' * 2) - 2      # (single latin-1 characters are cached singletons that may carry a utf-8 copy)
    u2 = g('ሴ') - 2
    u4 = g('\U0001d11e') - 4
    for k in list(range(1, 130)) + [1000, 4097]:
        assert g('a' * k) == asc + k, ('ascii', k)
        assert g('ab' * k) == asc + 2 * k
        assert k == 1 or g('\xe9' * k) == lat + k, ('latin1', k)
        assert g('a\xff' * k) == lat + 2 * k
        assert g('ሴ' * k) == u2 + 2 * k, ('ucs2', k)
        assert g('a￿' * k) == u2 + 4 * k
        assert g('\U0001d11e' * k) == u4 + 4 * k, ('ucs4', k)
        assert g('a\U00010000' * k) == u4 + 8 * k
    assert g('\x7f') == asc + 1 and g('\x80' * 2) == lat + 2 and g('Ā') == u2 + 2 and g('\U00010000') == u4 + 4
    assert g('a' * 0) == asc and g('\xe9' * 0) == asc
    # utils.FrozenDict.__sizeof__ (since /repo ccc0ee2): the wrapper plus the dict it owns
    from yaql.language import utils as yutils
    fd_over = g(yutils.FrozenDict({})) - g({})
    for n in (0, 1, 5, 6, 11, 22, 100, 1000):
        d = dict.fromkeys(range(n))
        if strict:
            assert g(yutils.FrozenDict(d)) == fd_over + g(d), ('FrozenDict does not report the dict it wraps', n)
    if strict:
        assert fd_over > 0
    return dict(tupleHdr=tup, listHdr=lst, ptr=ptr, strAscii=asc, strLatin1=lat, strUcs2=u2, strUcs4=u4,
                fdictOverhead=max(fd_over, 0))


@pyfacts.generator('Sizes')
def gen():
    c = measure()
    body = ['import Yaql.Model.Limits',
            '/-! `sys.getsizeof` constants of CPython %s (%s) -/' % (sys.version.split()[0], sys.implementation.cache_tag),
            'namespace Yaql.Gen.Sizes', '',
            'def cfg : Yaql.Limits.SizeCfg :=',
            '  { ' + ', '.join('%s := %d' % kv for kv in c.items()) + ' }', '',
            'end Yaql.Gen.Sizes', '']
    pyfacts.emit('Sizes', '\n'.join(body))
    return c
