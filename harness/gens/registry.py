"""Generator of lean/Yaql/Gen/Registry.lean: EVERY FunctionDefinition registered in the context chain
of yaql.create_context() - name, kinds, no_kwargs, and every parameter with key, python name, alias,
whether the alias was given explicitly, position, default-present, smart-type class, hidden, lazy.

Generator of lean/Yaql/Gen/RegistryConv.lean: the names and aliases the same definitions have in contexts of
EVERY naming convention (CamelCaseConvention, PythonConvention, no convention), read from contexts created in
fresh interpreters in several creation orders (camel first, python first, convention-less first, with
re-creation), next to what the SOURCE TEXT of the decorators declares (`@specs.name`, `alias=`,
`register_function(f, name=..)`, read with `ast`, never from objects the registration code may have touched)."""
import ast
import json
import os
import subprocess
import sys

import common  # noqa: F401
import pyfacts
import yaql
from yaql.language import contexts, conventions, specs, yaqltypes


def all_definitions(root=None):
    """[(layer index, name, fd)] over the whole chain of `root` (default: a fresh yaql.create_context()),
    deterministic order"""
    out = []
    c = root if root is not None else yaql.create_context()
    li = 0
    while c is not None:
        fns = getattr(c, '_functions', {})
        for name in sorted(fns):
            fds = sorted(fns[name], key=lambda fd: (fd.payload.__module__, fd.payload.__qualname__,
                                                    getattr(fd.payload, '__code__', None) and
                                                    fd.payload.__code__.co_firstlineno or 0))
            for fd in fds:
                out.append((li, name, fd))
        c = c.parent
        li += 1
    return out


# ---- what the source text declares ------------------------------------------------------------------------

_SRC = {}


def _source(filename):
    """-> ({first line of a decorated def -> FunctionDef}, {function identifier -> names given to register_function})"""
    if filename not in _SRC:
        tree = ast.parse(open(filename).read())
        idx, reg = {}, {}
        for node in ast.walk(tree):
            if isinstance(node, ast.FunctionDef):
                idx[min([d.lineno for d in node.decorator_list] + [node.lineno])] = node
            elif isinstance(node, ast.Call) and isinstance(node.func, ast.Attribute) and \
                    node.func.attr == 'register_function' and node.args and isinstance(node.args[0], ast.Name):
                for kw in node.keywords:
                    if kw.arg == 'name' and isinstance(kw.value, ast.Constant):
                        reg.setdefault(node.args[0].id, set()).add(kw.value.value)
        _SRC[filename] = (idx, reg)
    return _SRC[filename]


def declared(payload):
    """what the decorators of `payload` say in the source: dict(pyname, name (of @specs.name, None when absent),
    dyn (the name is computed), aliases {parameter -> alias}, reg_names (explicit register_function names))"""
    code = getattr(payload, '__code__', None)
    if code is None:
        return None
    idx, reg = _source(code.co_filename)
    node = idx.get(code.co_firstlineno)
    if node is None or node.name != payload.__name__:
        return None
    name, dyn, aliases = None, False, {}
    for d in node.decorator_list:
        if not isinstance(d, ast.Call):
            continue
        f = d.func
        fname = f.attr if isinstance(f, ast.Attribute) else getattr(f, 'id', None)
        if fname == 'name':
            if d.args and isinstance(d.args[0], ast.Constant):
                name = d.args[0].value
            else:
                dyn = True
        elif fname in ('parameter', 'inject', '_parameter') and d.args and isinstance(d.args[0], ast.Constant):
            al = d.args[3] if len(d.args) >= 4 else None
            for kw in d.keywords:
                if kw.arg == 'alias':
                    al = kw.value
            if al is not None:
                if not isinstance(al, ast.Constant):
                    return None
                if al.value is not None:
                    aliases[d.args[0].value] = al.value
    return dict(pyname=node.name, name=name, dyn=dyn, aliases=aliases, reg_names=sorted(reg.get(node.name, ())))


def declared_alias(fd, p):
    """the alias the decorator of `fd.payload` gives to parameter `p` in the source text (None = none given)"""
    d = declared(fd.payload)
    if d is None:           # no source: fall back to the decorator-level definition
        orig = getattr(fd.payload, '__yaql_function__', None)
        for q in (orig.parameters.values() if orig is not None else ()):
            if q.name == p.name:
                return q.alias
        return None
    return d['aliases'].get(p.name)


def explicit_alias(fd, p):
    return declared_alias(fd, p) is not None


# ---- the naming rule, transcribed from the documentation of the conventions ------------------------------------

def _is_word(c):
    return c == '_' or c.isalnum()


def to_camel(n):
    """snake_case -> camelCase: an underscore that is not the first character and is followed by a word character
    disappears and that character is upper-cased (left to right, non-overlapping)"""
    out, i = [], 0
    while i < len(n):
        if n[i] == '_' and i > 0 and i + 1 < len(n) and _is_word(n[i + 1]):
            out.append(n[i + 1].upper())
            i += 2
        else:
            out.append(n[i])
            i += 1
    return ''.join(out)


def promised_kw(conv, decl_alias, pyname):
    """the keyword name a context with convention `conv` ('camel' | 'python' | 'none') promises for a parameter"""
    if decl_alias:
        return decl_alias
    if conv == 'none' or not pyname:
        return pyname
    n = pyname.rstrip('_')
    return (to_camel(n) if conv == 'camel' else n) or pyname


def promised_name(conv, reg_as, decl_name, pyname):
    """the name a registration gets; names like `#operator_x` / `#property#x_y` keep their `#..#` prefix"""
    if reg_as is not None:
        return reg_as
    n = decl_name if decl_name is not None else pyname
    if conv == 'none':
        return n if decl_name is not None else n.rstrip('_')
    n = n.rstrip('_')
    tr = to_camel if conv == 'camel' else (lambda x: x)
    if n and not n[0].isalpha():
        j = n.find(n[0], 1)
        return n if j <= 1 else n[:j + 1] + tr(n[j + 1:])
    return tr(n)


# ---- can the promised keyword name be WRITTEN as `name => value`? (transcription of the lexer's rule for words) -----

_KW_RE = None


def operator_words():
    """the words the lexers of the default and of the legacy factory take out of KEYWORD_STRING"""
    from yaql.language import factory
    from yaql import legacy
    words = {'true', 'false', 'null'}
    for fac in (factory.YaqlFactory(), legacy.YaqlFactory()):
        words.update(r[0] for r in fac.operators if len(r) > 1 and isinstance(r[0], str))
    return words


def spellable(kw, words):
    """identifier-shaped, not starting with `__`, no operator word / constant"""
    global _KW_RE
    if _KW_RE is None:
        import re
        _KW_RE = re.compile(r'(?!__)[^\W\d]\w*\Z')
    return bool(_KW_RE.match(kw)) and kw not in words


# ---- contexts of every convention ---------------------------------------------------------------------------

CONVS = ('camel', 'python', 'none')


def make_context(conv):
    if conv == 'camel':
        return yaql.create_context()                 # the default: CamelCaseConvention
    if conv == 'python':
        return yaql.create_context(convention=conventions.PythonConvention())
    return yaql.create_context(context=contexts.Context())      # a root without a convention


def dump_contexts(order):
    """creates one context per entry of `order` (in this order, all alive together) and describes every definition"""
    ctxs = [make_context(c) for c in order]
    out = []
    for conv, ctx in zip(order, ctxs):
        defs = []
        for _, name, fd in all_definitions(ctx):
            d = declared(fd.payload)
            orig = getattr(fd.payload, '__yaql_function__', None)
            decl_name = d['name'] if d is not None and not d['dyn'] else (orig.name if orig is not None else None)
            reg_as = name if d is not None and name in d['reg_names'] else None
            defs.append(dict(reg=name, py=fd.payload.__name__, decl=decl_name, reg_as=reg_as,
                             params=[dict(key=k, name=p.name, decl=declared_alias(fd, p), alias=p.alias or None,
                                          hidden=isinstance(p.value_type, yaqltypes.HiddenParameterType),
                                          lazy=isinstance(p.value_type, yaqltypes.LazyParameterType))
                                     for k, p in fd.parameters.items()]))
        out.append(dict(conv=conv, has_convention=ctx.convention is not None, defs=defs))
    return out


SCENARIOS = (('camel', 'python', 'none', 'camel', 'python'),
             ('python', 'camel', 'none', 'python'),
             ('none', 'camel', 'python', 'none'))


def dump_scenarios(scenarios=SCENARIOS):
    """each scenario in an interpreter of its own (so that `first` really is first)"""
    procs = []
    env = dict(os.environ, PYTHONPATH=os.pathsep.join(
        [os.path.dirname(os.path.dirname(os.path.abspath(__file__)))] + sys.path))
    for sc in scenarios:
        procs.append(subprocess.Popen([sys.executable, '-W', 'ignore', os.path.abspath(__file__), ','.join(sc)],
                                      stdout=subprocess.PIPE, stderr=subprocess.PIPE, env=env, cwd='/tmp'))
    out = []
    for sc, p in zip(scenarios, procs):
        o, e = p.communicate(timeout=120)
        if p.returncode != 0:
            raise RuntimeError('registry dump %r failed: %s' % (sc, e.decode()[-400:]))
        out.append((sc, json.loads(o.decode())))
    return out


def lchars(s):
    if not all(32 <= ord(c) < 127 for c in s):
        raise ValueError('non-ASCII name in the registry: %r' % s)
    return '[' + ', '.join("'%s'" % (c if c not in "'\\" else '\\' + c) for c in s) + ']'


def row(name, fd):
    ps = []
    for key, p in fd.parameters.items():
        k = '.star' if key == '*' else '.starstar' if key == '**' else '.name %s' % lchars(key)
        ps.append('{ key := %s, name := %s, alias := %s, explicitAlias := %s, position := %s, hasDefault := %s, '
                  'tyClass := %s, hidden := %s, lazy := %s }' % (
                      k, lchars(p.name), 'none' if not p.alias else 'some ' + lchars(p.alias),
                      'true' if explicit_alias(fd, p) else 'false',
                      'none' if p.position is None else 'some %d' % p.position,
                      'false' if p.default is specs.NO_DEFAULT else 'true',
                      lchars(type(p.value_type).__name__),
                      'true' if isinstance(p.value_type, yaqltypes.HiddenParameterType) else 'false',
                      'true' if isinstance(p.value_type, yaqltypes.LazyParameterType) else 'false'))
    return '  { name := %s, isFunction := %s, isMethod := %s, noKwargs := %s,\n    params := [\n      %s] }' % (
        lchars(name), 'true' if fd.is_function else 'false', 'true' if fd.is_method else 'false',
        'true' if fd.no_kwargs else 'false', ',\n      '.join(ps))


def _opt(s):
    return 'none' if s is None else 'some ' + lchars(s)


@pyfacts.generator('RegistryConv')
def gen_registry_conv():
    rows, seen, per_ctx, bad = [], set(), [], []
    words, unspellable = operator_words(), []
    for sc, ctxs in dump_scenarios():
        for i, c in enumerate(ctxs):
            per_ctx.append('%s[%d]=%s:%d' % ('>'.join(x[0] for x in sc), i, c['conv'], len(c['defs'])))
            for d in c['defs']:
                key = json.dumps([c['conv'], d], sort_keys=True)
                # the same rule, transcribed in Python: a violating row is named in the evidence
                if d['reg'] != promised_name(c['conv'], d['reg_as'], d['decl'], d['py']) or any(
                        (p['alias'] or p['name']) != promised_kw(c['conv'], p['decl'], p['name']) for p in d['params']):
                    if len(bad) < 5:
                        bad.append('%s (%s context #%d of %s)' % (d['reg'], c['conv'], i, '>'.join(sc)))
                if key in seen:
                    continue
                seen.add(key)
                for p in d['params']:
                    if not p['hidden'] and p['key'] not in ('*', '**'):
                        for kw in {promised_kw(c['conv'], p['decl'], p['name']), p['alias'] or p['name']}:
                            if not spellable(kw, words) and [c['conv'], d['reg'], kw] not in unspellable:
                                unspellable.append([c['conv'], d['reg'], kw])
                ps = ['{ name := %s, declAlias := %s, seenAlias := %s, hidden := %s, star := %s }' % (
                    lchars(p['name']), _opt(p['decl']), _opt(p['alias']), 'true' if p['hidden'] else 'false',
                    'true' if p['key'] in ('*', '**') else 'false') for p in d['params']]
                rows.append('  { conv := %s, pyName := %s, declName := %s, regAs := %s, regName := %s,\n'
                            '    params := [\n      %s] }' % (
                                'none' if c['conv'] == 'none' else 'some .' + c['conv'], lchars(d['py']), _opt(d['decl']),
                                _opt(d['reg_as']), lchars(d['reg']), ',\n      '.join(ps)))
    body = ('import Yaql.Model.Naming\n'
            '/-! the definitions of `yaql.create_context()` as found in contexts of every naming convention, created in\n'
            'several orders in fresh interpreters (%d distinct rows) -/\n'
            'namespace Yaql.Gen.RegistryConv\nopen Yaql.Naming\n\n'
            'def convRows : List CRow := [\n%s\n]\n\nend Yaql.Gen.RegistryConv\n') % (len(rows), ',\n'.join(rows))
    changed = pyfacts.emit('RegistryConv', body)
    return dict(rows=len(rows), contexts=per_ctx, rows_off_the_rule=bad, unspellable=unspellable[:40], rewritten=changed)


@pyfacts.generator('Registry')
def gen_registry():
    defs = all_definitions()
    body = ('import Yaql.Model.RegistryRow\n'
            '/-! every FunctionDefinition of `yaql.create_context()`, all layers (%d definitions) -/\n'
            'namespace Yaql.Gen.Registry\nopen Yaql.Registry Yaql.Resolve\n\n'
            'def registry : List RDef := [\n%s\n]\n\nend Yaql.Gen.Registry\n') % (
        len(defs), ',\n'.join(row(n, fd) for _, n, fd in defs))
    changed = pyfacts.emit('Registry', body)
    return dict(definitions=len(defs), names=len({n for _, n, _ in defs}),
                parameters=sum(len(fd.parameters) for _, _, fd in defs), rewritten=changed)


if __name__ == '__main__':
    print(json.dumps(dump_contexts(sys.argv[1].split(','))))
