"""Generator of lean/Yaql/Gen/Registry.lean: EVERY FunctionDefinition registered in the context chain
of yaql.create_context() - name, kinds, no_kwargs, and every parameter with key, python name, alias,
whether the alias was given explicitly, position, default-present, smart-type class, hidden, lazy."""
import common  # noqa: F401
import pyfacts
import yaql
from yaql.language import specs, yaqltypes


def all_definitions(root=None):
    """[(layer index, name, fd)] over the whole chain of `root` (default: a fresh yaql.create_context()),
    deterministic order"""
    out = []
    c = root if root is not None else yaql.create_context()
    li = 0
    while c is not None:
        fns = getattr(c, '_functions', {})
        for name in sorted(fns):
            fds = sorted(fns[name], key=lambda fd: (fd.payload.__module__, fd.payload.__qualname__,
                                                    getattr(fd.payload, '__code__', None) and
                                                    fd.payload.__code__.co_firstlineno or 0))
            for fd in fds:
                out.append((li, name, fd))
        c = c.parent
        li += 1
    return out


def explicit_alias(fd, p):
    orig = getattr(fd.payload, '__yaql_function__', None)
    if orig is None:
        return False
    for q in orig.parameters.values():
        if q.name == p.name:
            return q.alias is not None
    return False


def lchars(s):
    if not all(32 <= ord(c) < 127 for c in s):
        raise ValueError('non-ASCII name in the registry: %r' % s)
    return '[' + ', '.join("'%s'" % (c if c not in "'\\" else '\\' + c) for c in s) + ']'


def row(name, fd):
    ps = []
    for key, p in fd.parameters.items():
        k = '.star' if key == '*' else '.starstar' if key == '**' else '.name %s' % lchars(key)
        ps.append('{ key := %s, name := %s, alias := %s, explicitAlias := %s, position := %s, hasDefault := %s, '
                  'tyClass := %s, hidden := %s, lazy := %s }' % (
                      k, lchars(p.name), 'none' if not p.alias else 'some ' + lchars(p.alias),
                      'true' if explicit_alias(fd, p) else 'false',
                      'none' if p.position is None else 'some %d' % p.position,
                      'false' if p.default is specs.NO_DEFAULT else 'true',
                      lchars(type(p.value_type).__name__),
                      'true' if isinstance(p.value_type, yaqltypes.HiddenParameterType) else 'false',
                      'true' if isinstance(p.value_type, yaqltypes.LazyParameterType) else 'false'))
    return '  { name := %s, isFunction := %s, isMethod := %s, noKwargs := %s,\n    params := [\n      %s] }' % (
        lchars(name), 'true' if fd.is_function else 'false', 'true' if fd.is_method else 'false',
        'true' if fd.no_kwargs else 'false', ',\n      '.join(ps))


@pyfacts.generator('Registry')
def gen_registry():
    defs = all_definitions()
    body = ('import Yaql.Model.RegistryRow\n'
            '/-! every FunctionDefinition of `yaql.create_context()`, all layers (%d definitions) -/\n'
            'namespace Yaql.Gen.Registry\nopen Yaql.Registry Yaql.Resolve\n\n'
            'def registry : List RDef := [\n%s\n]\n\nend Yaql.Gen.Registry\n') % (
        len(defs), ',\n'.join(row(n, fd) for _, n, fd in defs))
    changed = pyfacts.emit('Registry', body)
    return dict(definitions=len(defs), names=len({n for _, n, _ in defs}),
                parameters=sum(len(fd.parameters) for _, _, fd in defs), rewritten=changed)
