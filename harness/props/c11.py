"""C11 - arguments are evaluated once, in order; lazy ones only on demand.

A probe function `tick(id, value)` (logs `id`, returns `value`) is registered next to the standard
library.  The generator builds typed expressions of bounded depth with a uniquely numbered probe in
every operand position of operators, literal constructors, indexers, method calls, keyword calls and
a representative set of library functions, including every short-circuit function
(and/or/?./switch/switchCase/selectCase/selectAllCases/examine/coalesce) and user functions with 1-6
overloads.  The real evaluation log is compared with the trace predicted by the evaluation-order
reference (`Yaql.EvalOrder.trace`, and its plain-Python transcription `py_trace` kept here).

Per-element lambdas (last clause): pipelines of streaming operators with the same probe expressions INSIDE their
lambdas, lazy pipelines as second collection of join / zip / concat, consumed completely or partly; the real log
must equal the log of a lazy plain-Python transcription (`RefEval`: each lambda once per element consumed, in
order, none for elements never consumed) and of `Yaql.PerElem` (the model the per_element theorems are about)."""
import json

import common
import pyfacts
import yaql
from yaql.language import factory, specs, yaqltypes

ID = 'C11'
LEAN_MODULES = ['Yaql.Props.C11', 'Yaql.Props.C11Gen']
P = 'Yaql.Props.C11.'
REQUIRED_THEOREMS = [P + n for n in (
    'eager_once_in_order', 'log_independent_of_candidates', 'eager_fragment_trace', 'short_circuit_and',
    'short_circuit_or', 'short_circuit_elvis', 'short_circuit_switch', 'short_circuit_switch_none',
    'short_circuit_selectCase', 'short_circuit_coalesce', 'short_circuit_switchCase', 'all_cases_trace',
    'runFrom_log', 'runOn_log', 'per_element_total', 'per_element_own', 'per_element', 'per_element_own_firstK',
    'take_log', 'take_zero_log', 'take_short_log', 'simple_select', 'simple_filter', 'simple_takeWhile', 'simple_skipWhile',
    'applies_selectMany', 'applies_search', 'search_consumed', 'applies_each', 'applies_accumulate', 'applies_zip',
    'concat_log', 'joinRows_events', 'join_pass_events', 'join_empty_outer', 'thunk_per_call', 'thunk_slots')] + [
    'Yaql.Props.C11Gen.lazy_params', 'Yaql.Props.C11Gen.lazy_functions']
TRUSTED = ['the expression generator and its bookkeeping of operand values (taken from separate real evaluations of the '
           'sub-expressions)', 'harness/gens/registry.py']
ASSUMPTIONS = ['selectAllCases / examine return lazy iterators (documented); the generator consumes them on the spot with '
               '.toList(), which is the point at which the model places their operands',
               'probes cannot raise; expressions whose evaluation raises are regenerated',
               'per-element part: sources are list literals of <= 5 integers, <= 4 stages; the values of lambda bodies on elements '
               'and the flags of short-circuit operators inside them come from separate real evaluations of the body on the '
               'element; pipelines in which a lambda raises on some element are regenerated',
               'orderBy: only the bound "at most once per element" is checked (the order in which keys are taken is left open)']


def generate():
    return pyfacts.run(['Registry'])['Registry']


ENGINE = factory.YaqlFactory().create()
LOG = []


def tick(id, value):
    LOG.append(id)
    return value


def make_context(noverloads):
    ctx = yaql.create_context().create_child_context()
    ctx.register_function(tick, name='tick')
    # `g`: 1-6 overloads of one name; the generated calls always hit the (int, int) one
    sigs = [(int, int), (str, int), (int, str), (str, str), (bool, bool), (type(None), int)][:noverloads]
    for i, (ta, tb) in enumerate(sigs):
        def g(x, y, i=i):
            return 7 + i
        f = specs.parameter('y', yaqltypes.PythonType(tb, False, [lambda t: type(t) is not bool] if tb is int else None))(g)
        f = specs.parameter('x', yaqltypes.PythonType(ta, False, [lambda t: type(t) is not bool] if ta is int else None))(f)
        ctx.register_function(f, name='g')
    return ctx


class Bad(Exception):
    pass


class Gen:
    deferred = False        # LamGen: flags are left as {'$f': kind, 't': text} and filled in per element

    def __init__(self, rng, ctx, max_depth):
        self.rng, self.ctx, self.max_depth = rng, ctx, max_depth
        self.n = 0
        self.features = set()

    def value(self, text):
        try:
            v = ENGINE(text).evaluate(context=self.ctx)
        except Exception as e:
            raise Bad('%s: %r' % (text, e))
        finally:
            del LOG[:]
        return v

    def tick(self, text, x):
        self.n += 1
        return 'tick(%d, %s)' % (self.n, text), dict(k='tick', id=self.n, a=x)

    def leaf(self, ty):
        r = self.rng
        c = {'I': lambda: str(r.choice([0, 1, 2, 3, 5])), 'B': lambda: r.choice(['true', 'false']),
             'S': lambda: r.choice(["'a'", "''", "'bc'"]), 'L': lambda: r.choice(['[1, 2]', '[]', '[3]']),
             'N': lambda: r.choice(['null', 'null', '1', "'x'"]),
             'A': lambda: r.choice(['0', '1', 'true', 'false', 'null', "'a'", "''", '[1]', '[]'])}[ty]()
        return self.tick(c, dict(k='leaf'))

    def expr(self, ty, depth):
        """-> (text, X) of an expression of type ty with a probe around every operand"""
        if depth <= 0 or self.rng.random() < 0.15:
            return self.leaf(ty)
        prods = getattr(self, 'p_' + ty)()
        name, fn = self.rng.choice(prods)
        self.features.add(name)
        t, x = fn(depth - 1)
        if self.rng.random() < 0.5:
            return self.tick(t, x)       # the operator node itself sits in an operand position of its parent
        return t, x

    # ---- helpers
    def eager(self, fmt, tys, depth):
        parts = [self.expr(t, depth) for t in tys]
        return fmt.format(*[p[0] for p in parts]), dict(k='eager', ks=[p[1] for p in parts])

    def truthy(self, text):
        if self.deferred:
            return {'$f': 'truthy', 't': text}
        return bool(self.value(text))

    def isnull(self, text):
        if self.deferred:
            return {'$f': 'null', 't': text}
        return self.value(text) is None

    def p_I(self):
        e = self.eager
        return [
            ('+', lambda d: e('({} + {})', 'II', d)), ('*', lambda d: e('({} * {})', 'II', d)),
            ('-', lambda d: e('({} - {})', 'II', d)), ('unary-', lambda d: e('(-{})', 'I', d)),
            ('max', lambda d: e('max({}, {})', 'II', d)), ('min', lambda d: e('min({}, {})', 'II', d)),
            ('max-kw', lambda d: e('max({}, b => {})', 'II', d)),
            ('max-kw2', lambda d: e('max(b => {}, a => {})', 'II', d)),
            ('abs', lambda d: e('abs({})', 'I', d)), ('len', lambda d: e('len({})', 'L', d)),
            ('len-method', lambda d: e('{}.len()', 'S', d)),
            ('g', lambda d: e('g({}, {})', 'II', d)), ('g-kw', lambda d: e('g({}, y => {})', 'II', d)),
            ('indexer', lambda d: e('[{}, {}][{}]', 'II', d, ) if False else self.indexer(d)),
            ('selectCase', self.select_case), ('switchCase', self.switch_case),
            ('coalesce-int', lambda d: self.coalesce(d, 'I')),
            ('indexOf', lambda d: e('{}.indexOf({})', 'LI', d)),
        ]

    def indexer(self, d):
        a, xa = self.expr('I', d)
        b, xb = self.expr('I', d)
        i, xi = self.tick(self.rng.choice(['0', '1']), dict(k='leaf'))
        return '[%s, %s][%s]' % (a, b, i), dict(k='eager', ks=[dict(k='eager', ks=[xa, xb]), xi])

    def p_B(self):
        e = self.eager
        return [
            ('and', lambda d: self.andor('and', d)), ('or', lambda d: self.andor('or', d)),
            ('not', lambda d: e('(not {})', 'B', d)), ('<', lambda d: e('({} < {})', 'II', d)),
            ('=', lambda d: e('({} = {})', 'AA', d)), ('!=', lambda d: e('({} != {})', 'II', d)),
            ('in', lambda d: e('({} in {})', 'IL', d)), ('isInteger', lambda d: e('isInteger({})', 'A', d)),
            ('bool', lambda d: e('bool({})', 'A', d)),
        ]

    def p_S(self):
        e = self.eager
        return [
            ('str+', lambda d: e('({} + {})', 'SS', d)), ('str', lambda d: e('str({})', 'I', d)),
            ('toUpper', lambda d: e('{}.toUpper()', 'S', d)),
            ('replace', lambda d: e('{}.replace({}, {})', 'SSS', d)),
            ('format', lambda d: e("'{{0}}{{1}}'.format({}, {})", 'AA', d)),
            ('concat', lambda d: e('concat({}, {})', 'SS', d)),
        ]

    def p_L(self):
        e = self.eager
        return [
            ('list-literal', lambda d: e('[{}, {}, {}]', 'AAA', d)), ('list()', lambda d: e('list({}, {})', 'AA', d)),
            ('list+', lambda d: e('({} + {})', 'LL', d)),
            ('examine', self.examine), ('selectAllCases', self.select_all),
            ('map-literal-keys', self.map_literal), ('def-calls', self.def_calls),
        ]

    def p_N(self):
        return [('switch', self.switch), ('coalesce', lambda d: self.coalesce(d, 'N')), ('elvis', self.elvis),
                ('and-any', lambda d: self.andor('and', d, 'A')), ('or-any', lambda d: self.andor('or', d, 'A'))]

    def p_A(self):
        ty = self.rng.choice('IBSLN')
        return getattr(self, 'p_' + ty)()

    def andor(self, op, d, ty='B'):
        a, xa = self.expr(ty, d)
        b, xb = self.expr(ty, d)
        return '(%s %s %s)' % (a, op, b), dict(k=op, a=xa, b=xb, t=self.truthy(a))

    def elvis(self, d):
        r, xr = self.expr(self.rng.choice(['N', 'L']), d)
        v = self.value(r)
        if v is not None and not isinstance(v, (tuple, list, str)):
            r, xr = self.tick('null', dict(k='leaf'))
            v = None
        if self.rng.random() < 0.5 or isinstance(v, str):
            return '%s?.len()' % r, dict(k='elvis', r=xr, null=v is None, ks=[])
        a, xa = self.expr('I', d)
        return '%s?.indexOf(%s)' % (r, a), dict(k='elvis', r=xr, null=v is None, ks=[xa])

    def switch(self, d):
        n = self.rng.choice([1, 2, 3])
        cs = [self.expr('B', d) for _ in range(n)]
        vs = [self.expr('A', d) for _ in range(n)]
        text = 'switch(%s)' % ', '.join('%s => %s' % (c[0], v[0]) for c, v in zip(cs, vs))
        return text, dict(k='switch', cs=[c[1] for c in cs], ts=[self.truthy(c[0]) for c in cs], vs=[v[1] for v in vs])

    def select_case(self, d):
        ps = [self.expr('B', d) for _ in range(self.rng.choice([1, 2, 3]))]
        return 'selectCase(%s)' % ', '.join(p[0] for p in ps), dict(
            k='selectCase', ps=[p[1] for p in ps], ts=[self.truthy(p[0]) for p in ps])

    def select_all(self, d):
        ps = [self.expr('B', d) for _ in range(self.rng.choice([1, 2, 3]))]
        return 'selectAllCases(%s).toList()' % ', '.join(p[0] for p in ps), dict(k='allCases', ps=[p[1] for p in ps])

    def examine(self, d):
        ps = [self.expr('A', d) for _ in range(self.rng.choice([1, 2, 3]))]
        return 'examine(%s).toList()' % ', '.join(p[0] for p in ps), dict(k='allCases', ps=[p[1] for p in ps])

    def switch_case(self, d):
        c, xc = self.expr('I', d)
        args = [self.expr('I', d) for _ in range(self.rng.choice([1, 2, 3]))]
        if self.deferred:
            sel = {'$f': 'sel', 't': c, 'n': len(args)}
        else:
            sel = switch_sel(self.value(c), len(args))
        return '%s.switchCase(%s)' % (c, ', '.join(a[0] for a in args)), dict(
            k='switchCase', c=xc, sel=sel, **{'as': [a[1] for a in args]})

    def coalesce(self, d, last):
        if last == 'I':     # keep the result an integer: the possibly-null operands are null or integers
            args = [self.tick(self.rng.choice(['null', 'null', '4']), dict(k='leaf'))
                    for _ in range(self.rng.choice([1, 2]))] + [self.expr(last, d)]
        else:
            args = [self.expr('N', d) for _ in range(self.rng.choice([1, 2]))] + [self.expr(last, d)]
        return 'coalesce(%s)' % ', '.join(a[0] for a in args), dict(
            k='coalesce', nulls=[self.isnull(a[0]) for a in args], **{'as': [a[1] for a in args]})

    def def_calls(self, d):
        """def(f, body) -> [f(), e, f(), ..]: the lazily passed body is evaluated at every call of f"""
        self.ndef = getattr(self, 'ndef', 0) + 1
        f = 'fn%d' % self.ndef
        body, xb = self.expr('A', d)
        slots, others, parts = [], [], []
        for _ in range(self.rng.choice([1, 2, 2, 3, 4])):
            if self.rng.random() < 0.65:
                slots.append(True)
                parts.append('%s()' % f)
            else:
                t, x = self.expr('A', d)
                slots.append(False)
                others.append(x)
                parts.append(t)
        text = '(def(%s, %s) -> [%s])' % (f, body, ', '.join(parts))
        return text, dict(k='defCalls', b=xb, sl=slots, os=others)

    def map_literal(self, d):
        ks = [self.tick("'k%d'" % i, dict(k='leaf')) for i in range(2)]
        vs = [self.expr('A', d) for _ in range(2)]
        text = '{%s}.keys().toList()' % ', '.join('%s => %s' % (k[0], v[0]) for k, v in zip(ks, vs))
        return text, dict(k='eager', ks=[ks[0][1], vs[0][1], ks[1][1], vs[1][1]])


def switch_sel(v, nargs):
    if not isinstance(v, int) or isinstance(v, bool):
        raise Bad('switchCase on %r' % (v,))
    return v if 0 <= v < nargs else nargs - 1


def py_trace(x):
    """plain-Python transcription of the reference evaluation order (the statement of C11)"""
    k = x['k']
    if k == 'leaf':
        return []
    if k == 'tick':
        return py_trace(x['a']) + [x['id']]
    if k == 'eager':
        return [i for c in x['ks'] for i in py_trace(c)]
    if k == 'and':
        return py_trace(x['a']) + (py_trace(x['b']) if x['t'] else [])
    if k == 'or':
        return py_trace(x['a']) + ([] if x['t'] else py_trace(x['b']))
    if k == 'elvis':
        return py_trace(x['r']) + ([] if x['null'] else [i for c in x['ks'] for i in py_trace(c)])
    if k == 'switch':
        out = []
        for c, t, v in zip(x['cs'], x['ts'], x['vs']):
            out += py_trace(c)
            if t:
                return out + py_trace(v)
        return out
    if k == 'selectCase':
        out = []
        for p, t in zip(x['ps'], x['ts']):
            out += py_trace(p)
            if t:
                break
        return out
    if k == 'allCases':
        return [i for c in x['ps'] for i in py_trace(c)]
    if k == 'switchCase':
        return py_trace(x['c']) + (py_trace(x['as'][x['sel']]) if x['as'] else [])
    if k == 'coalesce':
        out = []
        for a, nul in zip(x['as'], x['nulls']):
            out += py_trace(a)
            if not nul:
                break
        return out
    if k == 'defCalls':
        out, rest = [], list(x['os'])
        for is_call in x['sl']:
            out += py_trace(x['b']) if is_call else py_trace(rest.pop(0))
        return out
    raise ValueError(k)


def real_log(text, ctx):
    del LOG[:]
    try:
        ENGINE(text).evaluate(context=ctx)
    except Exception as e:
        return None, type(e).__name__
    return list(LOG), None


# ------------------------------------------------------------------ per-element lambdas of streaming operators
#
# A pipeline  <list literal>.op1(..).op2(..)...  whose per-element lambdas carry numbered probes (the same ids fire
# once per application), whose collection arguments may be lazy pipelines themselves (join's second collection,
# zip, concat) and whose result is consumed completely or only partly (.take(k), .first(), .any(), .indexWhere()..).
# Three logs:  real (the yaql under test),  reference (RefEval: plain-Python lazy transcription of the documented
# evaluation order: each lambda once per element consumed, in order, none for elements never consumed),
# model (Yaql.PerElem via the driver, from a table of per-element facts built eagerly by `Describe`).

import itertools
import functools

STMT = {}


def ev(text, ctx, env):
    """value of `text` with the variables `env` ({'$': v} / {'$1': a, '$2': b}); probes fired on the way are dropped"""
    st = STMT.get(text)
    if st is None:
        st = STMT[text] = ENGINE(text)
    c = ctx.create_child_context()
    for k, v in env.items():
        c[k] = v
    try:
        return st.evaluate(context=c)
    except Exception as e:
        raise Bad('%s on %r: %r' % (text, env, e))
    finally:
        del LOG[:]


def freeze(v):
    return tuple(freeze(x) for x in v) if isinstance(v, (list, tuple)) else v


def inst(x, f):
    """the X of a lambda body with its flags filled in by f"""
    if isinstance(x, dict):
        if '$f' in x:
            return f(x)
        return {k: inst(v, f) for k, v in x.items()}
    if isinstance(x, list):
        return [inst(v, f) for v in x]
    return x


def flagval(fl, ctx, env):
    v = ev(fl['t'], ctx, env)
    if fl['$f'] == 'truthy':
        return bool(v)
    if fl['$f'] == 'null':
        return v is None
    return switch_sel(v, fl['n'])


class LamGen(Gen):
    """bodies of per-element lambdas: the leaves may mention the element"""
    deferred = True
    var = '$'

    def leaf(self, ty):
        r, v = self.rng, self.var
        if ty == 'I' and r.random() < 0.65:
            c = r.choice([v, v, '%s + 1' % v, '%s * 2' % v, '%s mod 3' % v, '%s - 1' % v])
            return self.tick(c, dict(k='leaf'))
        if ty == 'B' and r.random() < 0.75:
            c = r.choice(['%s > %d' % (v, r.choice([0, 1, 2, 3, 5])), '%s mod 2 = %d' % (v, r.choice([0, 1])),
                          '%s < %d' % (v, r.choice([2, 4, 8])), '%s = %d' % (v, r.choice([1, 2, 3]))])
            return self.tick(c, dict(k='leaf'))
        if ty in ('A', 'N') and r.random() < 0.4:
            return self.tick(v, dict(k='leaf'))
        return Gen.leaf(self, ty)

    def p_N(self):
        return [p for p in Gen.p_N(self) if p[0] != 'elvis']

    def body(self, ty, var, depth):
        """-> {'text', 'x' (flags deferred), 'vars'}; `var`: how the lambda refers to the (integer) element"""
        self.var = var
        text, x = self.expr(ty, depth)
        if '$' not in text:                  # keep it a function of the element
            t2, x2 = self.tick(var, dict(k='leaf'))
            if ty == 'B':
                text, x = '(%s and %s > %d)' % (text, t2, self.rng.choice([0, 1, 2])), dict(
                    k='and', a=x, b=x2, t={'$f': 'truthy', 't': text})
            else:
                text, x = '[%s, %s][1]' % (text, t2), dict(k='eager', ks=[x, x2])
        return dict(text=text, x=x)


PE_LAMBDA_OPS = ['select', 'where', 'takeWhile', 'skipWhile', 'selectMany', 'distinct', 'accumulate']
PE_PLAIN_OPS = ['take', 'skip', 'memorize', 'enumerate']
PE_SECOND_OPS = ['join', 'zip', 'concat']
PE_TERMINALS = ['any', 'all', 'indexWhere', 'first', 'len', 'toDict', 'aggregate', 'lastIndexWhere', 'anyNoPred', 'groupBy']


class PipeGen:
    def __init__(self, rng, ctx, depth):
        self.rng, self.g = rng, LamGen(rng, ctx, depth)
        self.depth = depth
        self.ops = set()

    def body(self, ty, var, two=False):
        b = self.g.body(ty, var, self.rng.randrange(0, self.depth + 1))
        b['vars'] = ['$1', '$2'] if two else ['$']
        return b

    def source(self):
        r = self.rng
        vals = [r.choice([0, 1, 2, 3, 4, 5, 7]) for _ in range(r.choice([0, 1, 2, 3, 3, 4, 5]))]
        src = dict(vals=vals, ids=None)
        if r.random() < 0.3:
            src['ids'] = []
            for _ in vals:
                self.g.n += 1
                src['ids'].append(self.g.n)
        return src

    def pipe(self, nstages, allow_second=True, terminal_ok=False):
        """-> pipeline spec; the elements handed on are integers except behind zip / enumerate (pairs)"""
        r = self.rng
        p = dict(src=self.source(), stages=[])
        var = '$'
        for i in range(nstages):
            last = i == nstages - 1
            pool = PE_LAMBDA_OPS * 3 + PE_PLAIN_OPS + (PE_SECOND_OPS * 2 if allow_second else [])
            if last and terminal_ok and r.random() < 0.55:
                pool = PE_TERMINALS
            op = r.choice(pool)
            st = dict(op=op)
            self.ops.add(op)
            if op in ('select', 'selectMany'):
                st['body'] = self.body('I', var)
                if op == 'selectMany' and r.random() < 0.6:
                    b2 = self.body('I', var)
                    st['body'] = dict(text='[%s, %s]' % (st['body']['text'], b2['text']),
                                      x=dict(k='eager', ks=[st['body']['x'], b2['x']]), vars=['$'])
                var = '$'
            elif op in ('where', 'takeWhile', 'skipWhile', 'any', 'all', 'indexWhere', 'lastIndexWhere'):
                st['body'] = self.body('B', var)
            elif op in ('distinct', 'groupBy'):
                st['body'] = self.body('I', var)
            elif op == 'toDict':
                st['body'], st['body2'] = self.body('I', var), self.body('A', var)
            elif op in ('accumulate', 'aggregate'):
                if var != '$':
                    st = dict(op='memorize')
                else:
                    st['body'] = self.body('I', r.choice(['$1', '$2']), two=True)
                    if '$1' not in st['body']['text'] or '$2' not in st['body']['text']:
                        o = '$2' if '$1' in st['body']['text'] else '$1'
                        st['body'] = dict(text='(%s + %s)' % (st['body']['text'], o), x=st['body']['x'], vars=['$1', '$2'])
            elif op in ('take', 'skip'):
                st['k'] = r.choice([0, 1, 1, 2, 2, 3])
                if r.random() < 0.25:
                    self.g.n += 1
                    st['id'] = self.g.n
            elif op == 'enumerate':
                if var != '$' or not allow_second:          # secondary pipelines deliver integers
                    st = dict(op='memorize')
                else:
                    var = '$[1]'
            elif op == 'zip':
                if var != '$':
                    st = dict(op='memorize')
                else:
                    st['other'] = self.pipe(r.choice([0, 1, 1, 2]), allow_second=False)
                    var = r.choice(['$[0]', '$[1]'])
            elif op == 'concat':
                if var != '$':
                    st = dict(op='memorize')
                else:
                    st['other'] = self.pipe(r.choice([0, 1, 1, 2]), allow_second=False)
            elif op == 'join':
                if var != '$':
                    st = dict(op='memorize')
                else:
                    st['other'] = self.pipe(r.choice([0, 1, 1, 2]), allow_second=False)
                    st['pred'] = self.body('B', r.choice(['$1', '$2']), two=True)
                    st['sel'] = self.body('I', r.choice(['$1', '$2']), two=True)
            p['stages'].append(st)
        return p


def src_text(src):
    if src['ids'] is None:
        return '[%s]' % ', '.join(str(v) for v in src['vals'])
    return '[%s]' % ', '.join('tick(%d, %d)' % (i, v) for i, v in zip(src['ids'], src['vals']))


def pipe_text(p):
    t = src_text(p['src'])
    for st in p['stages']:
        op = st['op']
        b = lambda k='body': st[k]['text']
        if op in ('select', 'where', 'takeWhile', 'skipWhile', 'selectMany', 'distinct', 'any', 'all', 'indexWhere',
                  'lastIndexWhere', 'accumulate', 'aggregate', 'groupBy', 'orderBy'):
            t = '%s.%s(%s)' % (t, op, b())
        elif op == 'toDict':
            t = '%s.toDict(%s, %s)' % (t, b(), b('body2'))
        elif op in ('take', 'skip'):
            t = '%s.%s(%s)' % (t, op, 'tick(%d, %d)' % (st['id'], st['k']) if st.get('id') else st['k'])
        elif op in ('memorize', 'enumerate', 'first', 'len'):
            t = '%s.%s()' % (t, op)
        elif op == 'anyNoPred':
            t = '%s.any()' % t
        elif op in ('zip', 'concat'):
            t = '%s.%s(%s)' % (t, op, pipe_text(st['other']))
        elif op == 'join':
            t = '%s.join(%s, %s, %s)' % (t, pipe_text(st['other']), b('pred'), b('sel'))
        else:
            raise ValueError(op)
    return t


class Memo:
    """a lazy collection gone through once and remembered (join's second collection)"""
    def __init__(self, it):
        self.it, self.buf = it, []

    def __iter__(self):
        i = 0
        while True:
            if i == len(self.buf):
                try:
                    self.buf.append(next(self.it))
                except StopIteration:
                    return
            yield self.buf[i]
            i += 1


class RefEval:
    """the reference evaluation order, as lazy Python: arguments that are not lambdas are evaluated when the expression
    is built, receiver first, left to right; a lambda is applied once to each element its operator consumes, when
    it consumes it; an operator consumes an element only when a result that needs it is asked for"""
    def __init__(self, ctx):
        self.ctx, self.log = ctx, []

    def apply(self, body, *args):
        env = dict(zip(body['vars'], args))
        self.log += py_trace(inst(body['x'], lambda fl: flagval(fl, self.ctx, env)))
        return freeze(ev(body['text'], self.ctx, env))

    def build(self, p):
        if p['src']['ids'] is not None:
            self.log += p['src']['ids']
        o = iter(tuple(p['src']['vals']))
        for st in p['stages']:
            o = self.stage(o, st)
        return o

    def run(self, p):
        o = self.build(p)
        return freeze(list(o)) if hasattr(o, '__next__') else o

    def stage(self, up, st):
        op, ap = st['op'], self.apply
        b = st.get('body')
        if op == 'select':
            return (ap(b, v) for v in up)
        if op == 'where':
            return (v for v in up if ap(b, v))
        if op == 'takeWhile':
            return itertools.takewhile(lambda v: ap(b, v), up)
        if op == 'skipWhile':
            return itertools.dropwhile(lambda v: ap(b, v), up)
        if op == 'selectMany':
            def many():
                for v in up:
                    r = ap(b, v)
                    if isinstance(r, tuple):
                        yield from r
                    else:
                        yield r
            return many()
        if op == 'distinct':
            def dist():
                seen = set()
                for v in up:
                    k = ap(b, v)
                    if k not in seen:
                        seen.add(k)
                        yield v
            return dist()
        if op == 'accumulate':
            def acc():
                first = True
                for v in up:
                    a = v if first else ap(b, a, v)
                    first = False
                    yield a
                if first:
                    raise Bad('accumulate of nothing (TypeError, documented)')
            return acc()
        if op in ('take', 'skip'):
            if st.get('id'):
                self.log.append(st['id'])
            return itertools.islice(up, st['k']) if op == 'take' else itertools.islice(up, st['k'], None)
        if op == 'memorize':
            return iter(Memo(up))
        if op == 'enumerate':
            return ((i, v) for i, v in enumerate(up))
        if op == 'zip':
            return zip(up, self.build(st['other']))
        if op == 'concat':
            return itertools.chain(up, self.build(st['other']))
        if op == 'join':
            inner = Memo(self.build(st['other']))
            return (ap(st['sel'], x, y) for x in up for y in inner if ap(st['pred'], x, y))
        # ---- consumers
        if op == 'any':
            return any(ap(b, v) for v in up)
        if op == 'anyNoPred':
            for _ in up:
                return True
            return False
        if op == 'all':
            return all(ap(b, v) for v in up)
        if op == 'indexWhere':
            for i, v in enumerate(up):
                if ap(b, v):
                    return i
            return -1
        if op == 'lastIndexWhere':
            r = -1
            for i, v in enumerate(up):
                if ap(b, v):
                    r = i
            return r
        if op == 'first':
            for v in up:
                return v
            raise Bad('first() of nothing')
        if op == 'len':
            return sum(1 for _ in up)
        if op == 'toDict':
            d = {}
            for v in up:
                k = ap(b, v)
                d[k] = ap(st['body2'], v)
            return d
        if op == 'aggregate':
            try:
                return functools.reduce(lambda a, v: ap(b, a, v), up)
            except TypeError:
                raise Bad('aggregate of nothing')
        if op == 'groupBy':
            g = {}
            for v in up:
                g.setdefault(ap(b, v), []).append(v)
            return tuple((k, tuple(vs)) for k, vs in g.items())
        raise ValueError(op)


LEAF = dict(k='leaf')


class Describe:
    """the table for the model: per stage and per element that WOULD reach it if everything were consumed, the lambda
    body as evaluated on that element and the fact the operator's reaction depends on (eager, no laziness in here)"""
    def __init__(self, ctx):
        self.ctx = ctx

    def x(self, body, *args):
        env = dict(zip(body['vars'], args))
        return inst(body['x'], lambda fl: flagval(fl, self.ctx, env))

    def val(self, body, *args):
        return freeze(ev(body['text'], self.ctx, dict(zip(body['vars'], args))))

    def pipe(self, p):
        """-> (json for the driver, all elements of the pipeline)"""
        src = p['src']
        ids = src['ids'] or []
        j = dict(src=dict(n=len(src['vals']), x=dict(k='eager', ks=[dict(k='tick', id=i, a=LEAF) for i in ids])), stages=[])
        elems = list(src['vals'])
        for st in p['stages']:
            sj, elems = self.stage(st, elems)
            j['stages'].append(sj)
        return j, elems

    def stage(self, st, elems):
        op = st['op']
        b = st.get('body')
        xs = [self.x(b, v) for v in elems] if b is not None and b['vars'] == ['$'] else []
        vs = [self.val(b, v) for v in elems] if b is not None and b['vars'] == ['$'] else []
        if op == 'select':
            return dict(op='select', bodies=xs), vs
        if op == 'where':
            return dict(op='filter', bodies=xs, flags=[bool(v) for v in vs]), [e for e, v in zip(elems, vs) if v]
        if op == 'takeWhile':
            return dict(op='takeWhile', bodies=xs, flags=[bool(v) for v in vs]), [
                e for e, _ in itertools.takewhile(lambda t: t[1], zip(elems, vs))]
        if op == 'skipWhile':
            return dict(op='skipWhile', bodies=xs, flags=[bool(v) for v in vs]), [
                e for e, _ in itertools.dropwhile(lambda t: t[1], zip(elems, vs))]
        if op == 'selectMany':
            out = []
            for v in vs:
                out += list(v) if isinstance(v, tuple) else [v]
            return dict(op='selectMany', bodies=xs, counts=[len(v) if isinstance(v, tuple) else 1 for v in vs]), out
        if op == 'distinct':
            seen, keep = set(), []
            for v in vs:
                keep.append(v not in seen)
                seen.add(v)
            return dict(op='filter', bodies=xs, flags=keep), [e for e, k in zip(elems, keep) if k]
        if op in ('accumulate', 'aggregate'):
            bodies, out = [], []
            for i, v in enumerate(elems):
                if i == 0:
                    bodies.append(LEAF)
                    out.append(v)
                else:
                    bodies.append(self.x(b, out[-1], v))
                    out.append(self.val(b, out[-1], v))
            if op == 'accumulate':
                return dict(op='accumulate', bodies=bodies, seeded=False), out
            return dict(op='each', bodies=bodies, nout=1), out[-1:]
        if op in ('take', 'skip'):
            eager = [dict(k='tick', id=st['id'], a=LEAF)] if st.get('id') else []
            return dict(op=op, k=st['k'], eager=eager), (elems[:st['k']] if op == 'take' else elems[st['k']:])
        if op == 'memorize':
            return dict(op='pass'), elems
        if op == 'enumerate':
            return dict(op='pass'), [(i, v) for i, v in enumerate(elems)]
        if op in ('zip', 'concat'):
            oj, oel = self.pipe(st['other'])
            return dict(op=op, other=oj), ([(a, c) for a, c in zip(elems, oel)] if op == 'zip' else elems + oel)
        if op == 'join':
            oj, oel = self.pipe(st['other'])
            preds, flags, sels, out = [], [], [], []
            for x in elems:
                pr, fr, sr = [], [], []
                for y in oel:
                    pr.append(self.x(st['pred'], x, y))
                    f = bool(self.val(st['pred'], x, y))
                    fr.append(f)
                    sr.append(self.x(st['sel'], x, y) if f else LEAF)
                    if f:
                        out.append(self.val(st['sel'], x, y))
                preds.append(pr)
                flags.append(fr)
                sels.append(sr)
            return dict(op='join', other=oj, preds=preds, pflags=flags, sels=sels), out
        # ---- consumers: one result
        if op in ('any', 'indexWhere'):
            return dict(op='search', bodies=xs, flags=[bool(v) for v in vs]), [None]
        if op == 'all':
            return dict(op='search', bodies=xs, flags=[not v for v in vs]), [None]
        if op in ('anyNoPred', 'first'):
            return dict(op='search', bodies=[], flags=[True] * len(elems)), [None]
        if op in ('lastIndexWhere', 'groupBy'):
            return dict(op='each', bodies=xs, nout=1), [None]
        if op == 'len':
            return dict(op='each', bodies=[], nout=1), [None]
        if op == 'toDict':
            return dict(op='each', nout=1, bodies=[dict(k='eager', ks=[x1, self.x(st['body2'], v)])
                                                    for x1, v in zip(xs, elems)]), [None]
        raise ValueError(op)


def real_pipe(text, ctx):
    del LOG[:]
    try:
        v = ENGINE(text).evaluate(context=ctx)
    except Exception as e:
        return None, None, type(e).__name__
    finally:
        log = list(LOG)
        del LOG[:]
    return freeze(v), log, None


def pipe_case(p, ctx):
    """-> dict(text, ref_log, ref_value, table) or raises Bad (a lambda raises on some element, first() of nothing..)"""
    text = pipe_text(p)
    ref = RefEval(ctx)
    value = ref.run(p)
    table, _ = Describe(ctx).pipe(p)
    return dict(text=text, ref_log=ref.log, ref_value=value, table=table)


def canon_value(v):
    if isinstance(v, dict):
        return tuple(sorted((repr(k), repr(canon_value(x))) for k, x in v.items()))
    if isinstance(v, (list, tuple)):
        return tuple(canon_value(x) for x in v)
    return v


def pipe_verdict(p, ctx, model_log, c=None):
    """-> (failure or None, info); failure = (kind, key, what)"""
    c = c or pipe_case(p, ctx)
    value, log, err = real_pipe(c['text'], ctx)
    info = dict(c, real_log=log, real_err=err)
    ops = '.'.join(st['op'] for st in p['stages'])
    if err is not None:
        return ('oracle', 'per-element-raises', '%s: raises %s; the reference gives %r with log %r' % (
            c['text'], err, c['ref_value'], c['ref_log'])), info
    if log != c['ref_log']:
        return ('oracle', 'per-element', '%s: real log %r; each lambda once per element consumed, in order, gives %r' % (
            c['text'], log, c['ref_log'])), info
    if canon_value(value) != canon_value(c['ref_value']):
        return ('mismatch', 'per-element-value', '%s: real value %r, transcription %r (the harness computes the wrong '
                'elements)' % (c['text'], value, c['ref_value'])), info
    if model_log is not None and model_log != c['ref_log']:
        return ('mismatch', 'per-element-model', '%s (%s): Yaql.PerElem log %r, transcription %r' % (
            c['text'], ops, model_log, c['ref_log'])), info
    return None, info


def ask_pipes(drv, tables):
    if drv is None:
        return [None] * len(tables)
    out = []
    for i in range(0, len(tables), 100):
        out += drv.ask(dict(p='C11', xs=[], pipes=tables[i:i + 100]))['plogs']
    return out


def pipe_fails(p, ctx, drv, kind):
    try:
        c = pipe_case(p, ctx)
        f, _ = pipe_verdict(p, ctx, ask_pipes(drv, [c['table']])[0])
    except Exception:
        return None
    return f if f and f[0] == kind else None


def sub_pipes(p):
    """smaller variants of a pipeline spec"""
    n = len(p['stages'])
    for i in range(n - 1, -1, -1):
        yield dict(p, stages=p['stages'][:i] + p['stages'][i + 1:])
    src = p['src']
    for i in range(len(src['vals'])):
        yield dict(p, src=dict(vals=src['vals'][:i] + src['vals'][i + 1:],
                               ids=None if src['ids'] is None else src['ids'][:i] + src['ids'][i + 1:]))
    if src['ids'] is not None:
        yield dict(p, src=dict(vals=src['vals'], ids=None))
    for i, st in enumerate(p['stages']):
        if st.get('other'):
            for q in sub_pipes(st['other']):
                yield dict(p, stages=p['stages'][:i] + [dict(st, other=q)] + p['stages'][i + 1:])
        if st.get('id'):
            yield dict(p, stages=p['stages'][:i] + [{k: v for k, v in st.items() if k != 'id'}] + p['stages'][i + 1:])


PRED_OPS = ('where', 'takeWhile', 'skipWhile', 'any', 'all', 'indexWhere', 'lastIndexWhere')


def simple_bodies(st, key, n):
    """plain one-probe lambdas that could stand in for the body `key` of stage `st`"""
    two = st[key]['vars'] != ['$']
    if key == 'pred' or key == 'body' and st['op'] in PRED_OPS:
        texts = ['true', 'false'] + (['$1 < $2', '$2 > 15'] if two else ['$ > 2', '$ mod 2 = 0'])
    else:
        texts = ['$1 + $2'] if two else ['$']
    for t in texts:
        yield dict(text='tick(%d, %s)' % (n, t), x=dict(k='tick', id=n, a=dict(k='leaf')), vars=st[key]['vars'])


def sub_bodies(p, counter):
    for i, st in enumerate(p['stages']):
        for key in ('body', 'body2', 'pred', 'sel'):
            if key in st and not st[key]['text'].startswith('tick(9'):
                counter[0] += 1
                for b in simple_bodies(st, key, 900 + counter[0]):
                    yield dict(p, stages=p['stages'][:i] + [dict(st, **{key: b})] + p['stages'][i + 1:])
        if st.get('other'):
            for q in sub_bodies(st['other'], counter):
                yield dict(p, stages=p['stages'][:i] + [dict(st, other=q)] + p['stages'][i + 1:])


def shrink_pipe(p, ctx, drv, kind):
    p = shrink_pipe_shape(p, ctx, drv, kind)
    counter = [0]
    changed = True
    while changed:
        changed = False
        for q in sub_bodies(p, counter):
            if pipe_fails(q, ctx, drv, kind):
                p, changed = q, True
                break
    return shrink_pipe_shape(p, ctx, drv, kind)


def shrink_pipe_shape(p, ctx, drv, kind):
    changed = True
    while changed:
        changed = False
        for q in sub_pipes(p):
            if pipe_fails(q, ctx, drv, kind):
                p, changed = q, True
                break
    return p


def orderby_verdict(p, ctx):
    """orderBy: the key selector is needed once per element (none for fewer than two elements); the order in which the
    keys are taken is left open, so the oracle is a bound: no probe of the selector fires more often than once per
    element it is evaluated on"""
    text = pipe_text(p)
    _, log, err = real_pipe(text, ctx)
    if err is not None:
        raise Bad(err)
    d = Describe(ctx)
    body = p['stages'][-1]['body']
    elems = RefEval(ctx).run(dict(p, stages=p['stages'][:-1]))
    bound = {}
    for v in elems:
        for i in py_trace(d.x(body, v)):
            bound[i] = bound.get(i, 0) + 1
    own = [i for i in log if i in bound]
    over = sorted(i for i in bound if own.count(i) > bound[i])
    if over:
        return ('oracle', 'orderBy-key-reevaluated',
                '%s: %d elements, but the probes %r inside the key selector fired %r times (log %r): the selector runs '
                'more than once per element' % (text, len(elems), over, [own.count(i) for i in over], log)), dict(text=text)
    return None, dict(text=text)


HAND = [
    ('(tick(1, false) and tick(2, true))', dict(k='and', t=False, a=dict(k='tick', id=1, a=dict(k='leaf')),
                                                b=dict(k='tick', id=2, a=dict(k='leaf')))),
    ('max(b => tick(1, 4), a => tick(2, 3))', dict(k='eager', ks=[dict(k='tick', id=1, a=dict(k='leaf')),
                                                                  dict(k='tick', id=2, a=dict(k='leaf'))])),
    ('g(tick(1, 5), tick(2, 6))', dict(k='eager', ks=[dict(k='tick', id=1, a=dict(k='leaf')),
                                                      dict(k='tick', id=2, a=dict(k='leaf'))])),
    ('tick(1, null)?.indexOf(tick(2, 1))', dict(k='elvis', r=dict(k='tick', id=1, a=dict(k='leaf')), null=True,
                                                ks=[dict(k='tick', id=2, a=dict(k='leaf'))])),
]


def run_pipes(env, res, rng0, ctxs, hist, rp):
    """the per-element part: pipelines of streaming operators with probes inside their lambdas"""
    drv, tier = env['driver'], env['tier']
    rng = common.make_rng(env['seed'], 'C11-pipes')
    ctx = ctxs[3]
    todo = []            # (spec, precomputed case)
    if rp is not None:
        if not rp.get('pipe'):
            return
        specs_ = [rp['pipe']]
    else:
        specs_ = None
    n = 2600 if tier == 'quick' else 25000
    n_order = 150 if tier == 'quick' else 2000
    tries = 0
    while (specs_ is None and len(todo) < n and tries < 4 * n) or (specs_ and tries < len(specs_)):
        tries += 1
        if specs_:
            p = specs_[tries - 1]
        else:
            pg = PipeGen(rng, ctx, 2 if tier == 'quick' else 3)
            p = pg.pipe(rng.choice([1, 1, 2, 2, 3, 4]), terminal_ok=True)
        if p['stages'] and p['stages'][-1]['op'] == 'orderBy':
            todo.append((p, None))
            continue
        try:
            c = pipe_case(p, ctx)
        except Bad:
            hist['pipe-regenerated'] = hist.get('pipe-regenerated', 0) + 1
            continue
        todo.append((p, c))
    if specs_ is None:
        for _ in range(n_order):
            pg = PipeGen(rng, ctx, 1)
            p = pg.pipe(rng.choice([0, 0, 1]), allow_second=False)
            p['stages'].append(dict(op='orderBy', body=pg.body('I', '$')))
            todo.append((p, None))
    mlogs = iter(ask_pipes(drv, [c['table'] for _, c in todo if c is not None]))
    for p, c in todo:
        if c is None:
            try:
                f, info = orderby_verdict(p, ctx)
            except Bad:
                continue
            hist['pipe-op:orderBy'] = hist.get('pipe-op:orderBy', 0) + 1
            res.case(info['text'], True)
            if f and len([x for x in res.failures if x.key == f[1]]) < 2:
                res.fail(f[0], f[1], f[2], dict(pipe=p, text=info['text']))
            continue
        ml = next(mlogs)
        f, info = pipe_verdict(p, ctx, ml, c)
        partial = any(st['op'] in ('take', 'any', 'all', 'indexWhere', 'first', 'anyNoPred', 'takeWhile', 'zip')
                      for st in p['stages'])
        res.case(c['text'], len(c['ref_log']) >= 2, sample=c['text'] if len(res.samples) < 6 and len(c['ref_log']) > 3 else None)
        if ml is not None:
            res.traces += 1
        for st in p['stages']:
            hist['pipe-op:' + st['op']] = hist.get('pipe-op:' + st['op'], 0) + 1
            if st.get('other'):
                hist['pipe-second-arg-lazy'] = hist.get('pipe-second-arg-lazy', 0) + bool(st['other']['stages'])
        hist['pipe-partial' if partial else 'pipe-full'] = hist.get('pipe-partial' if partial else 'pipe-full', 0) + 1
        hist['pipe-log-len:%d' % min(len(c['ref_log']) // 4 * 4, 24)] = hist.get('pipe-log-len:%d' % min(len(c['ref_log']) // 4 * 4, 24), 0) + 1
        if f:
            small = shrink_pipe(p, ctx, drv, f[0])
            g = pipe_fails(small, ctx, drv, f[0]) or f
            res.fail(g[0], g[1], g[2], dict(pipe=small, text=pipe_text(small)))
            if len([x for x in res.failures if x.key.startswith('per-element')]) >= 6:
                break


def run(env, res):
    drv = env['driver']
    tier = env['tier']
    rng = common.make_rng(env['seed'], 'C11')
    rp = None
    n = 15000 if tier == 'quick' else 150000
    max_depth = 3 if tier == 'quick' else 4
    res.rule = ('typed random expressions of depth <= %d with a numbered probe in every operand position (operators, list/map '
                'literals, indexer, method and keyword calls, library functions, every short-circuit function, a user '
                'function with 1-6 overloads); distinct = distinct expression text; non-trivial = at least 3 probes and one '
                'lazy operator or a call of the overloaded function. Plus pipelines of 1-4 streaming operators over a list '
                'literal with such expressions as per-element lambdas, lazy pipelines as second collection of join/zip/concat, '
                'consumed completely or partly (non-trivial = at least 2 probe events)' % max_depth)
    ctxs = {k: make_context(k) for k in range(1, 7)}
    hist = {}
    cases = []
    if env['replay']:
        rp = json.load(open(env['replay']))['case']
        cases = [(rp['text'], rp['x'], rp.get('overloads', 3))] if not rp.get('pipe') else []
    else:
        for text, x in HAND:
            for k in (1, 6):
                cases.append((text, x, k))
        tries = 0
        while len(cases) < n + len(HAND) * 2 and tries < n * 5:
            tries += 1
            k = rng.randrange(1, 7)
            g = Gen(rng, ctxs[k], max_depth)
            try:
                text, x = g.expr(rng.choice('IBSLNA'), rng.randrange(1, max_depth + 1))
            except Bad:
                hist['regenerated'] = hist.get('regenerated', 0) + 1
                continue
            for f in g.features:
                hist['op:' + f] = hist.get('op:' + f, 0) + 1
            cases.append((text, x, k))
    model = None
    if drv:
        model = []
        for i in range(0, len(cases), 500):
            model += drv.ask(dict(p='C11', xs=[c[1] for c in cases[i:i + 500]]))['traces']
    if env['replay'] and rp.get('pipe'):
        cases = []
    run_pipes(env, res, rng, ctxs, hist, rp if env['replay'] else None)
    for ci, (text, x, k) in enumerate(cases):
        exp = py_trace(x)
        lazy = any(s in text for s in (' and ', ' or ', '?.', 'switch', 'selectCase', 'selectAllCases', 'examine',
                                       'coalesce'))
        res.case(text, len(exp) >= 3 and (lazy or 'g(' in text), sample=text if ci in (8, 9, 10) else None)
        case = dict(text=text, x=x, overloads=k)
        log, err = real_log(text, ctxs[k])
        hist['overloads:%d' % k] = hist.get('overloads:%d' % k, 0) + 1
        if err is not None:
            hist['raised:' + err] = hist.get('raised:' + err, 0) + 1
            continue
        hist['log-len:%d' % min(len(log), 12)] = hist.get('log-len:%d' % min(len(log), 12), 0) + 1
        if log != exp:
            key = 'double-evaluation' if len(set(log)) < len(log) else 'order'
            res.fail('oracle', key, '%s (g has %d overloads): real log %r, reference order %r' % (text, k, log, exp), case)
        if 'g(' in text:
            # the log must not depend on the number of overloads of g
            for k2 in (1, 6):
                if k2 != k:
                    log2, err2 = real_log(text, ctxs[k2])
                    if err2 is None and log2 != log:
                        res.fail('oracle', 'grows-with-overloads', '%s: log %r with %d overloads of g, %r with %d' % (
                            text, log, k, log2, k2), case)
        if model is not None:
            res.traces += 1
            if model[ci] != exp:
                res.fail('mismatch', 'model', '%s: Lean trace %r, transcription %r' % (text, model[ci], exp), case)
        if len(res.failures) >= 12:
            break
    res.extra['histogram'] = hist
    return res


LEVEL_TEXT = ('Lean 4: the evaluation log of the resolver model is one left-to-right pass over the eager non-constant '
              'arguments, positional then keyword, under the common laziness signature (eager_once_in_order), and does not '
              'depend on the number of candidates (log_independent_of_candidates); over the evaluation-order model: '
              'eager_fragment_trace and the short_circuit_* theorems; C11Gen.lazy_params / lazy_functions re-prove on the '
              'regenerated registry that the lazy parameters are where the model assumes; over the per-element model '
              '(Yaql.PerElem: streams of probe deltas, stages with reactions): conservation of the log for every stage '
              '(runOn_log), per_element_total / per_element (an operator that applies its lambda fires, for each input element '
              'consumed and in input order, the probes of pulling it and of the lambda body on it, once - for the whole result '
              'and for its first k+1 results; nothing of the elements behind), take_log (a consumer of k results consumes '
              'exactly k), instances for select/where/distinct/takeWhile/skipWhile/selectMany/any/all/indexWhere/first/'
              'accumulate/zip/concat/join (join_pass_events, join_empty_outer). Tie: generated probe expressions and '
              'pipelines evaluated by the real engine, log compared with the predicted trace; C05/C06 tie the resolver model.')
LEVEL_NOTE = ('trusted: Lean kernel; Model/EvalOrder.lean, Resolve.lean; the generator\'s bookkeeping (operand truthiness '
              'taken from separate real evaluations); Model/PerElem.lean and the harness\'s eager table of per-element facts; '
              'the lazy transcription RefEval as the reference for the per-element clause.')
TECHNIQUE = 'Lean 4 proof + generated registry facts + differential trace comparison with numbered probes'
DESIGN_REF = 'DESIGN.md section 5, C11'
