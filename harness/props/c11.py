"""C11 - arguments are evaluated once, in order; lazy ones only on demand.

A probe function `tick(id, value)` (logs `id`, returns `value`) is registered next to the standard
library.  The generator builds typed expressions of bounded depth with a uniquely numbered probe in
every operand position of operators, literal constructors, indexers, method calls, keyword calls and
a representative set of library functions, including every short-circuit function
(and/or/?./switch/switchCase/selectCase/selectAllCases/examine/coalesce) and user functions with 1-6
overloads.  The real evaluation log is compared with the trace predicted by the evaluation-order
reference (`Yaql.EvalOrder.trace`, and its plain-Python transcription `py_trace` kept here).

Per-element lambdas (last clause): pipelines of streaming operators with the same probe expressions INSIDE their
lambdas, lazy pipelines as second collection of join / zip / concat, consumed completely or partly; the real log
must equal the log of a lazy plain-Python transcription (`RefEval`: each lambda once per element consumed, in
order, none for elements never consumed) and of `Yaql.PerElem` (the model the per_element theorems are about).

Spelling: every argument of a generated call is written positionally or by keyword (`harness/c11spell.py`: the alias
of the live registry), in a context of the camelCase or of the Python naming convention; the reference does not
depend on it (except that eager keyword arguments fire behind the positional ones, in source order): a lazily
evaluated parameter stays lazy however its argument arrives."""
import collections
import json

import c11spell
import common
import pyfacts
import yaql
from yaql.language import conventions, factory, specs, yaqltypes

ID = 'C11'
LEAN_MODULES = ['Yaql.Props.C11', 'Yaql.Props.C11Gen', 'Yaql.Props.C11Spell', 'Yaql.Props.C11Err']
P = 'Yaql.Props.C11.'
REQUIRED_THEOREMS = [P + n for n in (
    'eager_once_in_order', 'log_independent_of_candidates', 'eager_fragment_trace', 'short_circuit_and',
    'short_circuit_or', 'short_circuit_elvis', 'short_circuit_switch', 'short_circuit_switch_none',
    'short_circuit_selectCase', 'short_circuit_coalesce', 'short_circuit_switchCase', 'all_cases_trace',
    'runFrom_log', 'runOn_log', 'per_element_total', 'per_element_own', 'per_element', 'per_element_own_firstK',
    'take_log', 'take_zero_log', 'take_short_log', 'simple_select', 'simple_filter', 'simple_takeWhile', 'simple_skipWhile',
    'applies_selectMany', 'applies_search', 'search_consumed', 'applies_each', 'applies_accumulate', 'applies_zip',
    'concat_log', 'joinRows_events', 'join_pass_events', 'join_empty_outer', 'thunk_per_call', 'thunk_slots',
    # Props/C11Err.lean: error paths and lazy values that nothing consumes
    'run_upto', 'run_prefix', 'run_complete', 'run_of_noRaise', 'raise_fails', 'raise_log', 'calls_prefix_of_probes',
    'calls_nodup', 'evalPassE_prefix', 'evalPassE_first_raise', 'trace_subset_awake', 'unconsumed_never_fires',
    'not_consumed_no_application', 'not_consumed_no_application_ops', 'consumed_prefix_only')] + [
    'Yaql.Props.C11Gen.lazy_params', 'Yaql.Props.C11Gen.lazy_functions', 'Yaql.Props.C11Gen.lazy_keyword_spelling',
    'Yaql.Props.C11Gen.lazy_rows_cover', 'Yaql.Props.C11Gen.lazy_rows_every_convention'] + [
    'Yaql.Props.C11Spell.' + n for n in ('mapLoop_move', 'mapArgs_kw_move', 'mapArgs_kwd_keys', 'chooseOverload_single',
                                         'lazy_spelling_invariant', 'lazy_spelling_invariant_of_table', 'MoveOk.of_table',
                                         'mappedOf_move', 'matchesOf_move', 'choose_move', 'stage_move',
                                         'lazy_spelling_invariant_family')]
TRUSTED = ['the expression generator and its bookkeeping of operand values (taken from separate real evaluations of the '
           'sub-expressions)', 'harness/gens/registry.py', 'harness/gens/lazyspell.py',
           'harness/c11spell.py (names and keyword aliases per convention, read from live contexts)']
ASSUMPTIONS = ['selectAllCases / examine return lazy iterators (documented); the generator consumes them on the spot with '
               '.toList(), which is the point at which the model places their operands',
               'probes cannot raise; expressions whose evaluation raises are regenerated',
               'per-element part: sources are list literals of <= 5 integers, <= 4 stages; the values of lambda bodies on elements '
               'and the flags of short-circuit operators inside them come from separate real evaluations of the body on the '
               'element; pipelines in which a lambda raises on some element are regenerated',
               'orderBy / thenBy: the bound "at most once per element" and the independence of the log from the spelling are '
               'checked (the order in which keys are taken is left open)',
               'spelling: keyword arguments are written behind the positional ones (the grammar rejects the other order), so '
               'the arguments passed by keyword are a suffix of the parameters plus the ones behind a left-out optional one; '
               'operators (and, or, ->, ., ?.) and `*args` parameters (coalesce, switch, selectCase, ..) have no keyword '
               'spelling (C11Gen.lazy_keyword_spelling says which have one)',
               'single calls (mergeWith, search, searchAll, replaceBy): flat dictionaries of integers and lists, 6 patterns x 5 '
               'strings']


def generate():
    r = pyfacts.run(['Registry', 'LazySpell'])
    return dict(r['Registry'], lazy_spell=r['LazySpell'])


ENGINE = factory.YaqlFactory().create()
LOG = []


def tick(id, value):
    LOG.append(id)
    return value


_SPELL = []


def spell():
    """names and keyword aliases per naming convention, read from live contexts"""
    if not _SPELL:
        _SPELL.append(c11spell.Spell())
    return _SPELL[0]


def conv_text(text, conv):
    return text if conv == 'camel' else spell().convert(text, conv)


def make_context(noverloads, conv='camel'):
    root = yaql.create_context() if conv == 'camel' else yaql.create_context(convention=conventions.PythonConvention())
    ctx = root.create_child_context()
    ctx.register_function(tick, name='tick')
    # `g`: 1-6 overloads of one name; the generated calls always hit the (int, int) one
    sigs = [(int, int), (str, int), (int, str), (str, str), (bool, bool), (type(None), int)][:noverloads]
    for i, (ta, tb) in enumerate(sigs):
        def g(x, y, i=i):
            return 7 + i
        f = specs.parameter('y', yaqltypes.PythonType(tb, False, [lambda t: type(t) is not bool] if tb is int else None))(g)
        f = specs.parameter('x', yaqltypes.PythonType(ta, False, [lambda t: type(t) is not bool] if ta is int else None))(f)
        ctx.register_function(f, name='g')
    # functions for the error paths: a host function that raises, and one name with two equal overloads (ambiguous)
    ctx.register_function(boom, name='boom')
    ctx.register_function(lambda x, y=0: 1, name='amb')
    ctx.register_function(lambda x, y=0: 2, name='amb')
    ctx['host'] = make_host()
    return ctx


def boom(x, y=0):
    raise ValueError('boom')


def make_host():
    """a yaqlized host object: its method calls evaluate their arguments like any other call"""
    from yaql import yaqlization

    class Host(object):
        def add(self, a, b=0, c=0):
            return a + b + c

        def pick(self, a, b):
            return b

        def boom(self, a):
            raise ValueError('boom')
    h = Host()
    yaqlization.yaqlize(h)
    return h


class Bad(Exception):
    pass


class Gen:
    deferred = False        # LamGen: flags are left as {'$f': kind, 't': text} and filled in per element

    def __init__(self, rng, ctx, max_depth):
        self.rng, self.ctx, self.max_depth = rng, ctx, max_depth
        self.n = 0
        self.features = set()
        self.allow_lazy = True      # lazy values (unconsumed pipelines) may sit in the positions that do not iterate
        self.plant = False          # one call of the expression is to end in an exception
        self.planted = None

    def value(self, text):
        try:
            v = ENGINE(text).evaluate(context=self.ctx)
        except Exception as e:
            raise Bad('%s: %r' % (text, e))
        finally:
            del LOG[:]
        return v

    def tick(self, text, x):
        self.n += 1
        return 'tick(%d, %s)' % (self.n, text), dict(k='tick', id=self.n, a=x)

    def leaf(self, ty):
        r = self.rng
        if ty in ('Y', 'C'):
            if self.allow_lazy and r.random() < (0.7 if ty == 'Y' else 0.5):
                return self.lazy_value(0)
            ty = 'A' if ty == 'Y' else 'B'
        c = {'I': lambda: str(r.choice([0, 1, 2, 3, 5])), 'B': lambda: r.choice(['true', 'false']),
             'S': lambda: r.choice(["'a'", "''", "'bc'"]), 'L': lambda: r.choice(['[1, 2]', '[]', '[3]']),
             'N': lambda: r.choice(['null', 'null', '1', "'x'"]),
             'A': lambda: r.choice(['0', '1', 'true', 'false', 'null', "'a'", "''", '[1]', '[]'])}[ty]()
        if self.plant and self.planted is None and not self.deferred and r.random() < 0.3:
            return self.plant_failure(c)
        return self.tick(c, dict(k='leaf'))

    def expr(self, ty, depth):
        """-> (text, X) of an expression of type ty with a probe around every operand"""
        if depth <= 0 or self.rng.random() < 0.15:
            return self.leaf(ty)
        if ty in ('Y', 'C') and not self.allow_lazy:
            ty = 'A' if ty == 'Y' else 'B'
        prods = getattr(self, 'p_' + ty)()
        name, fn = self.rng.choice(prods)
        self.features.add(name)
        t, x = fn(depth - 1)
        if self.rng.random() < 0.5:
            return self.tick(t, x)       # the operator node itself sits in an operand position of its parent
        return t, x

    # ---- helpers
    def eager(self, fmt, tys, depth):
        parts = [self.expr(t, depth) for t in tys]
        return fmt.format(*[p[0] for p in parts]), dict(k='eager', ks=[p[1] for p in parts])

    # The facts an operator's selection depends on are taken IN PLACE: `bool(<operand>)` / `<operand> = null` evaluated
    # by the engine, not Python's `bool` of the finalised value - a lazy value (an iterator, an ordering) is true and not
    # null whatever it would yield, and asking must not iterate it.
    def truthy(self, text):
        if self.deferred:
            return {'$f': 'truthy', 't': 'bool(%s)' % text}
        return self.value('bool(%s)' % text) is True

    def isnull(self, text):
        if self.deferred:
            return {'$f': 'truthy', 't': '((%s) = null)' % text}
        return self.value('((%s) = null)' % text) is True

    def p_I(self):
        e = self.eager
        return [
            ('+', lambda d: e('({} + {})', 'II', d)), ('*', lambda d: e('({} * {})', 'II', d)),
            ('-', lambda d: e('({} - {})', 'II', d)), ('unary-', lambda d: e('(-{})', 'I', d)),
            ('max', lambda d: e('max({}, {})', 'II', d)), ('min', lambda d: e('min({}, {})', 'II', d)),
            ('max-kw', lambda d: e('max({}, b => {})', 'II', d)),
            ('max-kw2', lambda d: e('max(b => {}, a => {})', 'II', d)),
            ('abs', lambda d: e('abs({})', 'I', d)), ('len', lambda d: e('len({})', 'L', d)),
            ('len-method', lambda d: e('{}.len()', 'S', d)),
            ('g', lambda d: e('g({}, {})', 'II', d)), ('g-kw', lambda d: e('g({}, y => {})', 'II', d)),
            ('indexer', lambda d: e('[{}, {}][{}]', 'II', d, ) if False else self.indexer(d)),
            ('selectCase', self.select_case), ('switchCase', self.switch_case),
            ('coalesce-int', lambda d: self.coalesce(d, 'I')),
            ('indexOf', lambda d: e('{}.indexOf({})', 'LI', d)),
            ('assert', lambda d: self.assert_(d, 'I')),
            # method calls of a yaqlized host object: positional arguments left to right, then the keyword ones
            ('host-method', lambda d: e('$host.add({}, {})', 'II', d)),
            ('host-method-kw', lambda d: e('$host.add({}, b => {})', 'II', d)),
            ('host-method-kw2', lambda d: e('$host.add({}, c => {}, b => {})', 'III', d)),
            ('host-method-kw3', lambda d: e('$host.pick({}, b => {})', 'II', d)),
            # a lazy value handed to a function that drops it
            ('lazy-passed-and-dropped', lambda d: e('$host.pick({}, {})', 'YI', d)),
        ]

    def indexer(self, d):
        a, xa = self.expr('I', d)
        b, xb = self.expr('I', d)
        i, xi = self.tick(self.rng.choice(['0', '1']), dict(k='leaf'))
        return '[%s, %s][%s]' % (a, b, i), dict(k='eager', ks=[dict(k='eager', ks=[xa, xb]), xi])

    def p_B(self):
        e = self.eager
        return [
            ('and', lambda d: self.andor('and', d)), ('or', lambda d: self.andor('or', d)),
            ('not', lambda d: e('(not {})', 'B', d)), ('<', lambda d: e('({} < {})', 'II', d)),
            ('=', lambda d: e('({} = {})', 'AA', d)), ('!=', lambda d: e('({} != {})', 'II', d)),
            ('in', lambda d: e('({} in {})', 'IL', d)), ('isInteger', lambda d: e('isInteger({})', 'A', d)),
            ('bool', lambda d: e('bool({})', 'A', d)),
            # truth tests of values that may be lazy: asking does not iterate
            ('not-lazy', lambda d: e('(not {})', 'Y', d)), ('bool-lazy', lambda d: e('bool({})', 'Y', d)),
            ('isInteger-lazy', lambda d: e('isInteger({})', 'Y', d)),
            ('lazy-and-bool', lambda d: self.andor('and', d, 'B', first='Y')),
        ]

    def p_S(self):
        e = self.eager
        return [
            ('str+', lambda d: e('({} + {})', 'SS', d)), ('str', lambda d: e('str({})', 'I', d)),
            ('toUpper', lambda d: e('{}.toUpper()', 'S', d)),
            ('replace', lambda d: e('{}.replace({}, {})', 'SSS', d)),
            ('trimLeft', lambda d: e('{}.trimLeft({})', 'SS', d)),
            ('trimLeft-kw', lambda d: e('{}.trimLeft(chars => {})', 'SS', d)),
            ('concat', lambda d: e('concat({}, {})', 'SS', d)),
            ('assert-str', lambda d: self.assert_(d, 'S')),
        ]

    def p_L(self):
        e = self.eager
        return [
            ('list-literal', lambda d: e('[{}, {}, {}]', 'AAA', d)), ('list()', lambda d: e('list({}, {})', 'AA', d)),
            ('list+', lambda d: e('({} + {})', 'LL', d)),
            ('examine', self.examine), ('selectAllCases', self.select_all),
            ('map-literal-keys', self.map_literal), ('def-calls', self.def_calls),
        ]

    def p_N(self):
        e = self.eager
        return [('switch', self.switch), ('coalesce', lambda d: self.coalesce(d, 'N')), ('elvis', self.elvis),
                ('and-any', lambda d: self.andor('and', d, 'A')), ('or-any', lambda d: self.andor('or', d, 'A')),
                # positions that hold a (maybe lazy) value without iterating it; what comes out is not lazy
                ('lazy-and', lambda d: self.andor('and', d, 'A', first='Y')),
                ('lazy-dropped-in-list', lambda d: e('[{}, {}, {}][1]', 'YAY', d)),
                ('lazy-dropped-in-dict', lambda d: e('{{a => {}, b => {}}}.get(b)', 'YA', d)),
                # (by keyword only: `let(a, b) -> ..` binds `$1`, which is what `$` reads)
                ('lazy-let-unread', lambda d: e('(let(zz => {}) -> {})', 'YA', d)),
                ('lazy-let-unread-2', lambda d: e('(let(zz => {}, yy => {}) -> {})', 'YYA', d))]

    def p_Y(self):
        """values that may be LAZY (an unconsumed pipeline, or an operator that hands one on): only for positions that
        do not iterate their operand"""
        e = self.eager
        return [('lazy', self.lazy_value), ('lazy', self.lazy_value),
                ('lazy-or-any', lambda d: self.andor('or', d, 'A', first='Y')),
                ('bool-and-lazy', lambda d: self.andor('and', d, 'Y', first='B')),
                ('coalesce-lazy', lambda d: self.coalesce(d, 'Y')),
                ('switch-lazy', lambda d: self.switch(d, 'Y')),
                ('lazy-passed-on', lambda d: e('$host.pick({}, {})', 'IY', d)),
                ('lazy-picked-from-list', lambda d: e('[{}, {}][1]', 'AY', d)),
                ('lazy-assert', lambda d: self.assert_(d, 'Y'))]

    def p_C(self):
        """conditions: anything that is tested for truth"""
        return self.p_B() + [('lazy-condition', self.lazy_value)] * 4 + [('lazy-condition-passed', lambda d: self.expr('Y', d))] * 2

    def p_A(self):
        ty = self.rng.choice('IBSLN')
        return getattr(self, 'p_' + ty)()

    def andor(self, op, d, ty='B', first=None):
        a, xa = self.expr(first or ty, d)
        b, xb = self.expr(ty, d)
        return '(%s %s %s)' % (a, op, b), dict(k=op, a=xa, b=xb, t=self.truthy(a))

    def elvis(self, d):
        r, xr = self.expr(self.rng.choice(['N', 'L']), d)
        v = self.value(r)
        if v is not None and not isinstance(v, (tuple, list, str)):
            r, xr = self.tick('null', dict(k='leaf'))
            v = None
        if self.rng.random() < 0.5 or isinstance(v, str):
            return '%s?.len()' % r, dict(k='elvis', r=xr, null=v is None, ks=[])
        a, xa = self.expr('I', d)
        return '%s?.indexOf(%s)' % (r, a), dict(k='elvis', r=xr, null=v is None, ks=[xa])

    def switch(self, d, vty='A'):
        n = self.rng.choice([1, 2, 3])
        cs = [self.expr('C', d) for _ in range(n)]
        vs = [self.expr(vty, d) for _ in range(n)]
        text = 'switch(%s)' % ', '.join('%s => %s' % (c[0], v[0]) for c, v in zip(cs, vs))
        return text, dict(k='switch', cs=[c[1] for c in cs], ts=[self.truthy(c[0]) for c in cs], vs=[v[1] for v in vs])

    def select_case(self, d):
        ps = [self.expr('C', d) for _ in range(self.rng.choice([1, 2, 3]))]
        return 'selectCase(%s)' % ', '.join(p[0] for p in ps), dict(
            k='selectCase', ps=[p[1] for p in ps], ts=[self.truthy(p[0]) for p in ps])

    def select_all(self, d):
        ps = [self.expr('C', d) for _ in range(self.rng.choice([1, 2, 3]))]
        return 'selectAllCases(%s).toList()' % ', '.join(p[0] for p in ps), dict(k='allCases', ps=[p[1] for p in ps])

    def examine(self, d):
        ps = [self.expr(self.rng.choice('AY'), d) for _ in range(self.rng.choice([1, 2, 3]))]
        return 'examine(%s).toList()' % ', '.join(p[0] for p in ps), dict(k='allCases', ps=[p[1] for p in ps])

    def switch_case(self, d):
        c, xc = self.expr('I', d)
        args = [self.expr('I', d) for _ in range(self.rng.choice([1, 2, 3]))]
        if self.deferred:
            sel = {'$f': 'sel', 't': c, 'n': len(args)}
        else:
            sel = switch_sel(self.value(c), len(args))
        return '%s.switchCase(%s)' % (c, ', '.join(a[0] for a in args)), dict(
            k='switchCase', c=xc, sel=sel, **{'as': [a[1] for a in args]})

    def coalesce(self, d, last):
        if last == 'I':     # keep the result an integer: the possibly-null operands are null or integers
            args = [self.tick(self.rng.choice(['null', 'null', '4']), dict(k='leaf'))
                    for _ in range(self.rng.choice([1, 2]))] + [self.expr(last, d)]
        else:
            args = [self.expr('Y' if last == 'Y' else 'N', d) for _ in range(self.rng.choice([1, 2]))] + [self.expr(last, d)]
        return 'coalesce(%s)' % ', '.join(a[0] for a in args), dict(
            k='coalesce', nulls=[self.isnull(a[0]) for a in args], **{'as': [a[1] for a in args]})

    def def_calls(self, d):
        """def(f, body) -> [f(), e, f(), ..]: the lazily passed body is evaluated at every call of f, however `def` is
        spelled (`def(f, func => body)`, `def(func => body, name => f)`, ..)"""
        self.ndef = getattr(self, 'ndef', 0) + 1
        f = 'fn%d' % self.ndef
        body, xb = self.expr('A', d)
        slots, others, parts = [], [], []
        for _ in range(self.rng.choice([1, 2, 2, 3, 4])):
            if self.rng.random() < 0.65:
                slots.append(True)
                parts.append('%s()' % f)
            else:
                t, x = self.expr('A', d)
                slots.append(False)
                others.append(x)
                parts.append(t)
        text = '(def(%s) -> [%s])' % (self.spelled('def', False, [f, body]), ', '.join(parts))
        return text, dict(k='defCalls', b=xb, sl=slots, os=others)

    def spelled(self, name, method, texts):
        """the argument list of a call of the library function `name` in a random spelling (positional / by keyword under
        the alias of the live registry); only where the keyword names are the same under every convention, because the
        text is converted to other conventions by function names only"""
        e = spell().entry('camel', name, method=method)
        names = e.argnames(method)[:len(texts)]
        same = all(spell().entry('python', name, method=method).alias[n] == e.alias[n] for n in names)
        sp = c11spell.spelling(self.rng, e, names, [t is not None for t in texts], allow_kw=same)
        if sp['kw']:
            self.features.add('%s-by-keyword' % name)
        return c11spell.write_args(e, names, texts, sp)

    def assert_(self, d, ty):
        """obj.assert(condition, message): obj and message are evaluated when the call is made (message behind obj even
        when it is written in front of the condition or by keyword), the lazily passed condition once, in the body"""
        r, xr = self.expr(ty, d)
        c, xc = self.expr('C', d)
        t, xt = self.tick('true', dict(k='leaf'))
        cond, xcond = '(%s or %s)' % (c, t), dict(k='or', a=xc, b=xt, t=self.truthy(c))
        ks = [xr]
        m = None
        if self.rng.random() < 0.6:
            m, xm = self.expr('S', d)
            ks.append(xm)
        return '%s.assert(%s)' % (r, self.spelled('assert', True, [cond, m])), dict(k='eager', ks=ks + [xcond])

    def map_literal(self, d):
        ks = [self.tick("'k%d'" % i, dict(k='leaf')) for i in range(2)]
        vs = [self.expr('A', d) for _ in range(2)]
        text = '{%s}.keys().toList()' % ', '.join('%s => %s' % (k[0], v[0]) for k, v in zip(ks, vs))
        return text, dict(k='eager', ks=[ks[0][1], vs[0][1], ks[1][1], vs[1][1]])


    def lazy_value(self, d):
        """a lazy value: a pipeline of streaming operators / an ordering over a list literal, with numbered probes in its
        collection and eager arguments (they fire when the expression is built) and inside its per-element lambdas (they
        must not fire: nothing iterates the value where it is put).  X: `lazy` (built, dormant)"""
        r = self.rng
        pg = PipeGen(r, self.ctx, 1)
        pg.g.n = self.n
        pg.g.allow_lazy = False
        if r.random() < 0.4:
            p = pg.order_pipe()
        else:
            # (list sources: the optional arguments of generate / generateMany keep their keywords in the plain spelling,
            # and the text is converted to other conventions by function names only)
            p = pg.pipe(r.choice([1, 1, 2]), allow_second=r.random() < 0.3, generated=False)
        p = positional(dict(p, conv='camel'))
        self.n = pg.g.n
        ref = RefEval(self.ctx)
        ref.build(dict(p, stages=[st for st in p['stages'] if st['op'] not in ORDER_OPS]))
        for st in p['stages']:
            self.features.add('lazy:' + st['op'])
        return pipe_text(p, 'camel'), dict(k='lazy', b=[dict(k='tick', id=i, a=dict(k='leaf')) for i in ref.log],
                                          d=[inst(b, lambda fl: False) for b in pipe_bodies(p)])

    # ---- calls that end in an exception
    FAILS = ['unknown-function', 'unknown-function-2', 'unknown-method', 'unknown-property', 'unknown-property-null',
             'method-as-function', 'arity', 'no-matching-function', 'no-matching-function-1', 'no-matching-method',
             'ambiguous', 'host-raises', 'host-raises-kw', 'host-method-raises', 'division', 'index', 'int-of-text',
             'assert-false', 'assert-false-message']

    def plant_failure(self, const):
        """a leaf `tick(n, c)` that will be REPLACED, after the expression around it has been generated (and its operand
        facts taken from evaluations that work), by a call that ends in an exception: X `raise` with the operands that
        are evaluated before the exception - none when the resolution fails before the evaluation stage (nothing
        registered under the name / for methods, no overload takes that many arguments), all eager arguments when the
        evaluated values decide (no overload or two overloads accept them) or the payload raises"""
        r = self.rng
        kind = r.choice(self.FAILS)
        n = self.n + 1
        m1, m2 = n + 1, n + 2
        self.n += 3
        lf = dict(k='leaf')
        T = lambda i: dict(k='tick', id=i, a=lf)        # noqa
        a, b, c = 'tick(%d, ' % n, 'tick(%d, ' % m1, 'tick(%d, ' % m2
        text, ks, exc = {
            'unknown-function': ('nosuch(%s1))' % a, [], 'NoFunctionRegisteredException'),
            'unknown-function-2': ('nosuch(%s1), %s2))' % (a, b), [], 'NoFunctionRegisteredException'),
            'unknown-method': ('%s1).nosuch(%s2))' % (a, b), [T(n)], 'NoMethodRegisteredException'),
            'unknown-property': ("%s'x').nosuchProp" % a, [T(n)], 'NoFunctionRegisteredException'),
            'unknown-property-null': ('%snull).nosuchProp' % a, [T(n)], 'NoFunctionRegisteredException'),
            'method-as-function': ('where(%s[1]), %strue))' % (a, b), [], 'NoFunctionRegisteredException'),
            'arity': ('abs(%s1), %s2))' % (a, b), [], 'NoMatchingFunctionException'),
            'no-matching-function': ('g(%s1), %s[1]))' % (a, b), [T(n), T(m1)], 'NoMatchingFunctionException'),
            'no-matching-function-1': ("abs(%s'x'))" % a, [T(n)], 'NoMatchingFunctionException'),
            'no-matching-method': ('%s1).len()' % a, [T(n)], 'NoMatchingMethodException'),
            'ambiguous': ('amb(%s1), %s2))' % (a, b), [T(n), T(m1)], 'AmbiguousFunctionException'),
            'host-raises': ('boom(%s1), %s2))' % (a, b), [T(n), T(m1)], 'ValueError'),
            'host-raises-kw': ('boom(%s1), y => %s2))' % (a, b), [T(n), T(m1)], 'ValueError'),
            'host-method-raises': ('$host.boom(%s1))' % a, [T(n)], 'ValueError'),
            'division': ('(%s1) / %s0))' % (a, b), [T(n), T(m1)], 'ZeroDivisionError'),
            'index': ('[%s1)][%s3)]' % (a, b), [T(n), T(m1)], 'IndexError'),
            'int-of-text': ("int(%s'x'))" % a, [T(n)], 'ValueError'),
            'assert-false': ('%s1).assert(%sfalse))' % (a, b), [T(n), T(m1)], 'AssertionError'),
            'assert-false-message': ("%s1).assert(%sfalse), %s'm'))" % (a, b, c), [T(n), T(m2), T(m1)], 'AssertionError'),
        }[kind]
        healthy = 'tick(%d, %s)' % (n, const)
        node = dict(k='tick', id=n, a=lf)
        self.planted = dict(kind=kind, healthy=healthy, failing=text, node=node, x=dict(k='raise', ks=ks), exc=exc)
        return healthy, node

    def finish(self, text, x):
        """puts the planted failing call in"""
        pl = self.planted
        if pl is None:
            return text, x
        if text.count(pl['healthy']) != 1:
            raise Bad('the planted leaf does not occur exactly once')
        pl['node'].clear()
        pl['node'].update(pl['x'])
        self.features.add('fails:' + pl['kind'])
        return text.replace(pl['healthy'], pl['failing']), x

    def fail_at_output(self, d):
        """an exception raised LAZILY, while the result is converted for the host: the elements of the list are evaluated
        when the expression is, the failing lambda when the finaliser pulls the first element"""
        r = self.rng
        es = [self.expr('I', d) for _ in range(r.choice([1, 2]))]
        m = self.n + 1
        self.n += 1
        T = dict(k='tick', id=m, a=dict(k='leaf'))
        lam, ks = r.choice([('select(nosuch($))', []), ('select($.nosuchProp)', []), ('where(boom($, tick(%d, 1)))' % m, [T]),
                            ('select(amb(tick(%d, $), $))' % m, [T]), ('orderBy(boom(tick(%d, $)))' % m, [T]),
                            ('select($.nosuch(tick(%d, 1)))' % m, []), ('select(where($, true))', []),
                            ('takeWhile(g(tick(%d, $), [1]))' % m, [T]), ('skip(0).select($ / tick(%d, 0))' % m, [T])])
        if lam.startswith('orderBy') and len(es) < 2:
            es.append(self.expr('I', d))         # a single element is not compared: no key is taken
        self.features.add('fails-at-output:' + lam.split('(')[0])
        return '[%s].%s' % (', '.join(t for t, _ in es), lam), dict(k='eager', ks=[x for _, x in es] + [dict(k='raise', ks=ks)])


def pipe_bodies(p):
    """the X of every per-element lambda of a pipeline spec (secondary pipelines included)"""
    out = []
    for d in [p['src']] + p['stages']:
        for v in d.values():
            if isinstance(v, dict) and 'x' in v and 'text' in v:
                out.append(v['x'])
        if d.get('other'):
            out += pipe_bodies(d['other'])
    return out


def switch_sel(v, nargs):
    if not isinstance(v, int) or isinstance(v, bool):
        raise Bad('switchCase on %r' % (v,))
    return v if 0 <= v < nargs else nargs - 1


def py_trace(x):
    """plain-Python transcription of the reference evaluation order (the statement of C11)"""
    k = x['k']
    if k == 'leaf':
        return []
    if k == 'tick':
        return py_trace(x['a']) + [x['id']]
    if k == 'eager':
        return [i for c in x['ks'] for i in py_trace(c)]
    if k == 'and':
        return py_trace(x['a']) + (py_trace(x['b']) if x['t'] else [])
    if k == 'or':
        return py_trace(x['a']) + ([] if x['t'] else py_trace(x['b']))
    if k == 'elvis':
        return py_trace(x['r']) + ([] if x['null'] else [i for c in x['ks'] for i in py_trace(c)])
    if k == 'switch':
        out = []
        for c, t, v in zip(x['cs'], x['ts'], x['vs']):
            out += py_trace(c)
            if t:
                return out + py_trace(v)
        return out
    if k == 'selectCase':
        out = []
        for p, t in zip(x['ps'], x['ts']):
            out += py_trace(p)
            if t:
                break
        return out
    if k == 'allCases':
        return [i for c in x['ps'] for i in py_trace(c)]
    if k == 'switchCase':
        return py_trace(x['c']) + (py_trace(x['as'][x['sel']]) if x['as'] else [])
    if k == 'coalesce':
        out = []
        for a, nul in zip(x['as'], x['nulls']):
            out += py_trace(a)
            if not nul:
                break
        return out
    if k == 'defCalls':
        out, rest = [], list(x['os'])
        for is_call in x['sl']:
            out += py_trace(x['b']) if is_call else py_trace(rest.pop(0))
        return out
    if k == 'raise':            # the log if the call did not fail
        return [i for c in x['ks'] for i in py_trace(c)]
    if k == 'lazy':             # building the lazy value; its per-element lambdas stay dormant
        return [i for c in x['b'] for i in py_trace(c)]
    raise ValueError(k)


class Raised(Exception):
    pass


def py_run(x):
    """-> (log, failed): the reference order when calls may end in an exception (X `raise`): the evaluation stops at the
    first failing call that is reached; everything in front of it has been evaluated as `py_trace` says, nothing behind
    it, nothing twice"""
    log = []

    def go(x):
        k = x['k']
        if k == 'leaf':
            return
        if k == 'tick':
            go(x['a'])
            log.append(x['id'])
        elif k in ('eager', 'allCases', 'raise', 'lazy'):
            for c in x['ks' if k in ('eager', 'raise') else 'ps' if k == 'allCases' else 'b']:
                go(c)
            if k == 'raise':
                raise Raised()
        elif k == 'and':
            go(x['a'])
            if x['t']:
                go(x['b'])
        elif k == 'or':
            go(x['a'])
            if not x['t']:
                go(x['b'])
        elif k == 'elvis':
            go(x['r'])
            if not x['null']:
                for c in x['ks']:
                    go(c)
        elif k == 'switch':
            for c, t, v in zip(x['cs'], x['ts'], x['vs']):
                go(c)
                if t:
                    go(v)
                    return
        elif k == 'selectCase':
            for p, t in zip(x['ps'], x['ts']):
                go(p)
                if t:
                    return
        elif k == 'switchCase':
            go(x['c'])
            if x['as']:
                go(x['as'][x['sel']])
        elif k == 'coalesce':
            for a, nul in zip(x['as'], x['nulls']):
                go(a)
                if not nul:
                    return
        elif k == 'defCalls':
            rest = list(x['os'])
            for is_call in x['sl']:
                go(x['b'] if is_call else rest.pop(0))
        else:
            raise ValueError(k)
    try:
        go(x)
    except Raised:
        return log, True
    return log, False


def real_log(text, ctx, keep=False):
    """-> (log, None) or (None, exception class); keep: the log up to the exception instead of None"""
    del LOG[:]
    try:
        ENGINE(text).evaluate(context=ctx)
    except Exception as e:
        return (list(LOG) if keep else None), type(e).__name__
    return list(LOG), None


# ------------------------------------------------------------------ per-element lambdas of streaming operators
#
# A pipeline  <list literal>.op1(..).op2(..)...  whose per-element lambdas carry numbered probes (the same ids fire
# once per application), whose collection arguments may be lazy pipelines themselves (join's second collection,
# zip, concat) and whose result is consumed completely or only partly (.take(k), .first(), .any(), .indexWhere()..).
# Three logs:  real (the yaql under test),  reference (RefEval: plain-Python lazy transcription of the documented
# evaluation order: each lambda once per element consumed, in order, none for elements never consumed),
# model (Yaql.PerElem via the driver, from a table of per-element facts built eagerly by `Describe`).

import itertools
import functools

STMT = {}


def ev(text, ctx, env):
    """value of `text` with the variables `env` ({'$': v} / {'$1': a, '$2': b}); probes fired on the way are dropped"""
    st = STMT.get(text)
    if st is None:
        st = STMT[text] = ENGINE(text)
    c = ctx.create_child_context()
    for k, v in env.items():
        c[k] = v
    try:
        return st.evaluate(context=c)
    except Exception as e:
        raise Bad('%s on %r: %r' % (text, env, e))
    finally:
        del LOG[:]


def freeze(v):
    return tuple(freeze(x) for x in v) if isinstance(v, (list, tuple)) else v


def inst(x, f):
    """the X of a lambda body with its flags filled in by f"""
    if isinstance(x, dict):
        if '$f' in x:
            return f(x)
        return {k: inst(v, f) for k, v in x.items()}
    if isinstance(x, list):
        return [inst(v, f) for v in x]
    return x


def flagval(fl, ctx, env):
    v = ev(fl['t'], ctx, env)
    if fl['$f'] == 'truthy':
        return bool(v)
    if fl['$f'] == 'null':
        return v is None
    return switch_sel(v, fl['n'])


class LamGen(Gen):
    """bodies of per-element lambdas: the leaves may mention the element"""
    deferred = True
    var = '$'

    def leaf(self, ty):
        r, v = self.rng, self.var
        if ty == 'I' and r.random() < 0.65:
            c = r.choice([v, v, '%s + 1' % v, '%s * 2' % v, '%s mod 3' % v, '%s - 1' % v])
            return self.tick(c, dict(k='leaf'))
        if ty == 'B' and r.random() < 0.75:
            c = r.choice(['%s > %d' % (v, r.choice([0, 1, 2, 3, 5])), '%s mod 2 = %d' % (v, r.choice([0, 1])),
                          '%s < %d' % (v, r.choice([2, 4, 8])), '%s = %d' % (v, r.choice([1, 2, 3]))])
            return self.tick(c, dict(k='leaf'))
        if ty in ('A', 'N') and r.random() < 0.4:
            return self.tick(v, dict(k='leaf'))
        return Gen.leaf(self, ty)

    def p_N(self):
        return [p for p in Gen.p_N(self) if p[0] != 'elvis']

    # `assert` binds `$` anew inside its condition: not inside bodies whose leaves mean the element by `$`
    def p_I(self):
        return [p for p in Gen.p_I(self) if p[0] != 'assert']

    def p_S(self):
        return [p for p in Gen.p_S(self) if p[0] != 'assert-str']

    def p_Y(self):
        return [p for p in Gen.p_Y(self) if p[0] != 'lazy-assert']

    def body(self, ty, var, depth):
        """-> {'text', 'x' (flags deferred), 'vars'}; `var`: how the lambda refers to the (integer) element"""
        self.var = var
        text, x = self.expr(ty, depth)
        if '$' not in text:                  # keep it a function of the element
            t2, x2 = self.tick(var, dict(k='leaf'))
            if ty in ('B', 'C'):
                text, x = '(%s and %s > %d)' % (text, t2, self.rng.choice([0, 1, 2])), dict(
                    k='and', a=x, b=x2, t=self.truthy(text))
            else:
                text, x = '[%s, %s][1]' % (text, t2), dict(k='eager', ks=[x, x2])
        return dict(text=text, x=x)


PE_LAMBDA_OPS = ['select', 'where', 'takeWhile', 'skipWhile', 'selectMany', 'distinct', 'accumulate']
PE_PLAIN_OPS = ['take', 'skip', 'memorize', 'enumerate']
PE_SECOND_OPS = ['join', 'zip', 'concat']
PE_TERMINALS = ['any', 'all', 'indexWhere', 'first', 'len', 'toDict', 'aggregate', 'lastIndexWhere', 'anyNoPred', 'groupBy',
                'sliceWhere', 'splitWhere', 'allNoPred']
# other names the same definition is registered under
PE_ALIASES = {'where': ['filter'], 'select': ['map'], 'aggregate': ['reduce'], 'take': ['limit']}
# the keys of a stage spec that hold the arguments, in the positional order of the parameters behind the receiver
PE_SLOTS = {'select': ['body'], 'where': ['body'], 'takeWhile': ['body'], 'skipWhile': ['body'], 'selectMany': ['body'],
            'distinct': ['body'], 'accumulate': ['body', 'seed'], 'aggregate': ['body', 'seed'], 'take': ['k'], 'skip': ['k'],
            'join': ['other', 'pred', 'sel'], 'any': ['body'], 'all': ['body'], 'indexWhere': ['body'],
            'lastIndexWhere': ['body'], 'toDict': ['body', 'body2'], 'groupBy': ['body', 'body2', 'body3'],
            'sliceWhere': ['body'], 'splitWhere': ['body'], 'orderBy': ['body'], 'orderByDescending': ['body'],
            'thenBy': ['body'], 'thenByDescending': ['body'], 'anyNoPred': [], 'allNoPred': [], 'memorize': [],
            'enumerate': [], 'first': [], 'len': []}
PE_NAMES = {'anyNoPred': 'any', 'allNoPred': 'all'}
# the arguments of the generating functions (all parameters: they are not methods)
SRC_SLOTS = {'generate': ['init', 'pred', 'prod', 'sel', 'decycle'],
             'generateMany': ['init', 'prod', 'sel', 'decycle', 'depthFirst']}
ORDER_OPS = ('orderBy', 'orderByDescending', 'thenBy', 'thenByDescending')


def stage_entry(st, conv):
    name = st.get('as') or PE_NAMES.get(st['op'], st['op'])
    return spell().entry(conv, name, method=True)


def stage_names(st):
    """[(slot key, python name of the parameter, argument present)] of a stage with named parameters"""
    e = stage_entry(st, 'camel')
    slots = PE_SLOTS[st['op']]
    return [(k, n, st.get(k) is not None) for k, n in zip(slots, e.argnames(True))]


def src_names(src):
    e = spell().entry('camel', src['kind'], method=False)
    return [(k, n, src.get(k) is not None) for k, n in zip(SRC_SLOTS[src['kind']], e.argnames(False))]


def sp_of(d, sn):
    """the spelling of a stage / source (replays written before spellings existed: everything positional)"""
    return d.get('sp') or dict(npos=len(sn), kw=[])


def eager_ids(sn, sp, ids):
    """the probes of the eagerly evaluated arguments (`ids`: slot key -> probe id) in the order they fire under the
    spelling `sp`: positional arguments first, keyword arguments behind them in source order"""
    key = {n: k for k, n, _ in sn}
    return [ids[key[n]] for n in c11spell.eager_order([n for _, n, _ in sn], sp) if ids.get(key[n])]


class PipeGen:
    def __init__(self, rng, ctx, depth):
        self.rng, self.g = rng, LamGen(rng, ctx, depth)
        self.depth = depth
        self.ops = set()

    def body(self, ty, var, two=False):
        b = self.g.body(ty, var, self.rng.randrange(0, self.depth + 1))
        b['vars'] = ['$1', '$2'] if two else ['$']
        return b

    def newid(self):
        self.g.n += 1
        return self.g.n

    def spelled(self, d, sn, entry):
        """chooses how the arguments of the stage / source `d` are written"""
        d['sp'] = c11spell.spelling(self.rng, entry, [n for _, n, _ in sn], [pr for _, _, pr in sn])
        return d

    def source(self, generated=True):
        r = self.rng
        if generated and r.random() < 0.12:
            kind = r.choice(['generate', 'generateMany'])
            src = dict(kind=kind, init=r.choice([0, 1, 2, 3]), ids={}, decycle=True)
            if r.random() < 0.3:
                src['ids']['init'] = self.newid()
            if r.random() < 0.3:
                src['ids']['decycle'] = self.newid()
            if kind == 'generate':
                src['pred'] = self.body('B', '$')
                src['prod'] = self.mod_body(self.body('I', '$'), 6)
            else:
                bs = [self.mod_body(self.body('I', '$'), 5) for _ in range(r.choice([0, 1, 1, 2]))]
                src['prod'] = dict(text='[%s]' % ', '.join(b['text'] for b in bs), x=dict(k='eager', ks=[b['x'] for b in bs]),
                                   vars=['$'])
                if r.random() < 0.4:
                    src['depthFirst'] = r.choice([True, False])
                    if r.random() < 0.3:
                        src['ids']['depthFirst'] = self.newid()
            if r.random() < 0.5:
                src['sel'] = self.body('I', '$')
            self.ops.add(kind)
            return self.spelled(src, src_names(src), spell().entry('camel', kind, method=False))
        vals = [r.choice([0, 1, 2, 3, 4, 5, 7]) for _ in range(r.choice([0, 1, 2, 3, 3, 4, 5]))]
        src = dict(kind='list', vals=vals, ids=None)
        if r.random() < 0.3:
            src['ids'] = [self.newid() for _ in vals]
        return src

    @staticmethod
    def mod_body(b, m):
        """keeps the generated values in a small range (with `decycle` the generation then ends)"""
        return dict(b, text='(%s) mod %d' % (b['text'], m))

    def pipe(self, nstages, allow_second=True, terminal_ok=False, conv=None, generated=None):
        """-> pipeline spec; the elements handed on are integers except behind zip / enumerate (pairs)"""
        r = self.rng
        p = dict(src=self.source(generated=allow_second if generated is None else generated), stages=[])
        if conv is not None:
            p['conv'] = conv
        var = '$'
        for i in range(nstages):
            last = i == nstages - 1
            pool = PE_LAMBDA_OPS * 3 + PE_PLAIN_OPS + (PE_SECOND_OPS * 2 if allow_second else [])
            if last and terminal_ok and r.random() < 0.55:
                pool = PE_TERMINALS
            op = r.choice(pool)
            st = dict(op=op)
            if op in ('select', 'selectMany'):
                st['body'] = self.body('I', var)
                if op == 'selectMany' and r.random() < 0.6:
                    b2 = self.body('I', var)
                    st['body'] = dict(text='[%s, %s]' % (st['body']['text'], b2['text']),
                                      x=dict(k='eager', ks=[st['body']['x'], b2['x']]), vars=['$'])
                var = '$'
            elif op in ('where', 'takeWhile', 'skipWhile', 'any', 'all', 'indexWhere', 'lastIndexWhere'):
                # the predicate's result is tested for truth: it may be a lazy value, which the test must not iterate
                st['body'] = self.body('C' if self.g.allow_lazy and r.random() < 0.15 else 'B', var)
            elif op in ('sliceWhere', 'splitWhere'):
                st['body'] = self.body('B', var)
            elif op == 'distinct':
                if r.random() < 0.85 or var != '$':
                    st['body'] = self.body('I', var)
            elif op == 'groupBy':
                st['body'] = self.body('I', var)
                if r.random() < 0.5:
                    st['body2'] = self.body('I', var)
                if r.random() < 0.4:
                    st['body3'] = self.body('I', 'len($)')
            elif op == 'toDict':
                st['body'] = self.body('I', var)
                if r.random() < 0.75:
                    st['body2'] = self.body('A', var)
            elif op in ('accumulate', 'aggregate'):
                if var != '$':
                    st = dict(op='memorize')
                else:
                    st['body'] = self.body('I', r.choice(['$1', '$2']), two=True)
                    if '$1' not in st['body']['text'] or '$2' not in st['body']['text']:
                        o = '$2' if '$1' in st['body']['text'] else '$1'
                        st['body'] = dict(text='(%s + %s)' % (st['body']['text'], o), x=st['body']['x'], vars=['$1', '$2'])
                    if r.random() < 0.35:
                        st['seed'] = r.choice([0, 1, 5])
                        if r.random() < 0.4:
                            st['id'] = self.newid()
            elif op in ('take', 'skip'):
                st['k'] = r.choice([0, 1, 1, 2, 2, 3])
                if r.random() < 0.25:
                    st['id'] = self.newid()
            elif op == 'enumerate':
                if var != '$' or not allow_second:          # secondary pipelines deliver integers
                    st = dict(op='memorize')
                else:
                    var = '$[1]'
            elif op == 'zip':
                if var != '$':
                    st = dict(op='memorize')
                else:
                    st['other'] = self.pipe(r.choice([0, 1, 1, 2]), allow_second=False)
                    var = r.choice(['$[0]', '$[1]'])
            elif op == 'concat':
                if var != '$':
                    st = dict(op='memorize')
                else:
                    st['other'] = self.pipe(r.choice([0, 1, 1, 2]), allow_second=False)
            elif op == 'join':
                if var != '$':
                    st = dict(op='memorize')
                else:
                    st['other'] = self.pipe(r.choice([0, 1, 1, 2]), allow_second=False)
                    st['pred'] = self.body('B', r.choice(['$1', '$2']), two=True)
                    st['sel'] = self.body('I', r.choice(['$1', '$2']), two=True)
            op = st['op']
            self.ops.add(op)
            if op in PE_ALIASES and r.random() < 0.25:
                st['as'] = r.choice(PE_ALIASES[op])
            if op in PE_SLOTS:
                self.spelled(st, stage_names(st), stage_entry(st, 'camel'))
            p['stages'].append(st)
        return p

    def order_pipe(self):
        """<collection>.orderBy(key)[.thenBy(key2)]"""
        r = self.rng
        p = self.pipe(r.choice([0, 0, 1]), allow_second=False)
        for i in range(r.choice([1, 1, 2])):
            op = r.choice(ORDER_OPS[:2] if i == 0 else ORDER_OPS[2:])
            st = dict(op=op, body=self.body('I', '$'))
            p['stages'].append(self.spelled(st, stage_names(st), stage_entry(st, 'camel')))
        return p


def src_text(src, conv='camel'):
    if src.get('kind', 'list') == 'list':
        if src['ids'] is None:
            return '[%s]' % ', '.join(str(v) for v in src['vals'])
        return '[%s]' % ', '.join('tick(%d, %d)' % (i, v) for i, v in zip(src['ids'], src['vals']))
    e = spell().entry(conv, src['kind'], method=False)
    sn = src_names(src)
    texts = []
    for k, _, present in sn:
        if not present:
            texts.append(None)
        elif isinstance(src[k], dict):
            texts.append(conv_text(src[k]['text'], conv))
        else:
            lit = json.dumps(src[k])
            texts.append('tick(%d, %s)' % (src['ids'][k], lit) if src['ids'].get(k) else lit)
    return '%s(%s)' % (e.name, c11spell.write_args(e, [n for _, n, _ in sn], texts, sp_of(src, sn)))


def pipe_text(p, conv=None):
    conv = conv or p.get('conv', 'camel')
    t = src_text(p['src'], conv)
    for st in p['stages']:
        op = st['op']
        if op in ('zip', 'concat'):
            t = '%s.%s(%s)' % (t, op, pipe_text(st['other'], conv))
            continue
        e = stage_entry(st, conv)
        sn = stage_names(st)
        texts = []
        for k, _, present in sn:
            if not present:
                texts.append(None)
            elif k in ('k', 'seed'):
                texts.append('tick(%d, %d)' % (st['id'], st[k]) if st.get('id') else str(st[k]))
            elif k == 'other':
                texts.append(pipe_text(st['other'], conv))
            else:
                texts.append(conv_text(st[k]['text'], conv))
        t = '%s.%s(%s)' % (t, e.name, c11spell.write_args(e, [n for _, n, _ in sn], texts, sp_of(st, sn)))
    return t


class Memo:
    """a lazy collection gone through once and remembered (join's second collection)"""
    def __init__(self, it):
        self.it, self.buf = it, []

    def __iter__(self):
        i = 0
        while True:
            if i == len(self.buf):
                try:
                    self.buf.append(next(self.it))
                except StopIteration:
                    return
            yield self.buf[i]
            i += 1


def produced(v):
    if not isinstance(v, tuple):
        raise Bad('the producer of generateMany gives %r' % (v,))
    return v


class RefEval:
    """the reference evaluation order, as lazy Python: arguments that are not lambdas are evaluated when the expression
    is built, receiver first, then the positional ones left to right, then the keyword ones in source order; a lambda
    is applied once to each element its operator consumes, when it consumes it - however the lambda was passed
    (positionally or by keyword, under whatever naming convention); an operator consumes an element only when a
    result that needs it is asked for"""
    def __init__(self, ctx):
        self.ctx, self.log = ctx, []

    def apply(self, body, *args):
        env = dict(zip(body['vars'], args))
        self.log += py_trace(inst(body['x'], lambda fl: flagval(fl, self.ctx, env)))
        return freeze(ev(body['text'], self.ctx, env))

    def test(self, body, *args):
        """applies a predicate: its probes fire, its result is tested for truth where it is (a lazy result is true and
        is not iterated)"""
        env = dict(zip(body['vars'], args))
        self.log += py_trace(inst(body['x'], lambda fl: flagval(fl, self.ctx, env)))
        return ev('bool(%s)' % body['text'], self.ctx, env) is True

    def source(self, src):
        ap = self.apply
        if src.get('kind', 'list') == 'list':
            if src['ids'] is not None:
                self.log += src['ids']
            return iter(tuple(src['vals']))
        self.log += eager_ids(src_names(src), src['sp'], src['ids'])
        sel = src.get('sel')
        if src['kind'] == 'generate':
            def gen():
                x, past = src['init'], set()
                while ap(src['pred'], x):
                    if src['decycle']:
                        if x in past:
                            break
                        past.add(x)
                    yield ap(sel, x) if sel else x
                    x = ap(src['prod'], x)
            return gen()

        def many():
            queue, past = collections.deque([src['init']]), set()
            while queue:
                x = queue.popleft()
                if src['decycle']:
                    if x in past:
                        continue
                    past.add(x)
                yield ap(sel, x) if sel else x
                new = produced(ap(src['prod'], x))
                if src.get('depthFirst'):
                    queue.extendleft(reversed(new))
                else:
                    queue.extend(new)
        return many()

    def build(self, p):
        o = self.source(p['src'])
        for st in p['stages']:
            o = self.stage(o, st)
        return o

    def run(self, p):
        o = self.build(p)
        return freeze(list(o)) if hasattr(o, '__next__') else o

    def stage(self, up, st):
        op, ap, test = st['op'], self.apply, self.test
        b = st.get('body')
        if op == 'select':
            return (ap(b, v) for v in up)
        if op == 'where':
            return (v for v in up if test(b, v))
        if op == 'takeWhile':
            return itertools.takewhile(lambda v: test(b, v), up)
        if op == 'skipWhile':
            return itertools.dropwhile(lambda v: test(b, v), up)
        if op == 'selectMany':
            def many():
                for v in up:
                    r = ap(b, v)
                    if isinstance(r, tuple):
                        yield from r
                    else:
                        yield r
            return many()
        if op == 'distinct':
            def dist():
                seen = set()
                for v in up:
                    k = ap(b, v) if b else v
                    if k not in seen:
                        seen.add(k)
                        yield v
            return dist()
        if op == 'accumulate':
            if st.get('id'):
                self.log.append(st['id'])

            def acc():
                first = st.get('seed') is None
                a = st.get('seed')
                if not first:
                    yield a
                for v in up:
                    a = v if first else ap(b, a, v)
                    first = False
                    yield a
                if first:
                    raise Bad('accumulate of nothing (TypeError, documented)')
            return acc()
        if op in ('take', 'skip'):
            if st.get('id'):
                self.log.append(st['id'])
            return itertools.islice(up, st['k']) if op == 'take' else itertools.islice(up, st['k'], None)
        if op == 'memorize':
            return iter(Memo(up))
        if op == 'enumerate':
            return ((i, v) for i, v in enumerate(up))
        if op == 'zip':
            return zip(up, self.build(st['other']))
        if op == 'concat':
            return itertools.chain(up, self.build(st['other']))
        if op == 'join':
            inner = Memo(self.build(st['other']))
            return (ap(st['sel'], x, y) for x in up for y in inner if ap(st['pred'], x, y))
        # ---- consumers
        if op == 'any':
            return any(test(b, v) for v in up)
        if op == 'anyNoPred':
            for _ in up:
                return True
            return False
        if op == 'all':
            return all(test(b, v) for v in up)
        if op == 'allNoPred':
            return all(v for v in up)
        if op == 'indexWhere':
            for i, v in enumerate(up):
                if test(b, v):
                    return i
            return -1
        if op == 'lastIndexWhere':
            r = -1
            for i, v in enumerate(up):
                if test(b, v):
                    r = i
            return r
        if op == 'first':
            for v in up:
                return v
            raise Bad('first() of nothing')
        if op == 'len':
            return sum(1 for _ in up)
        if op == 'toDict':
            d = {}
            for v in up:
                k = ap(b, v)
                d[k] = ap(st['body2'], v) if st.get('body2') else v
            return d
        if op == 'aggregate':
            if st.get('id'):
                self.log.append(st['id'])
            try:
                if st.get('seed') is not None:
                    return functools.reduce(lambda a, v: ap(b, a, v), up, st['seed'])
                return functools.reduce(lambda a, v: ap(b, a, v), up)
            except TypeError:
                raise Bad('aggregate of nothing')
        if op == 'groupBy':
            g = {}
            for v in up:
                val = ap(st['body2'], v) if st.get('body2') else v       # the value, then the key
                g.setdefault(ap(b, v), []).append(val)
            if st.get('body3'):
                return tuple((k, ap(st['body3'], tuple(vs))) for k, vs in g.items())
            return tuple((k, tuple(vs)) for k, vs in g.items())
        if op in ('sliceWhere', 'splitWhere'):
            lst = list(up)                          # the collection is made a list first, then the predicate goes over it
            flags = [ap(b, v) for v in lst]
            out, cur = [], []
            for i, (v, f) in enumerate(zip(lst, flags)):
                if op == 'splitWhere':
                    if f:
                        out.append(cur)
                        cur = []
                    else:
                        cur.append(v)
                else:
                    if i > 0 and f != flags[i - 1]:
                        out.append(cur)
                        cur = []
                    cur.append(v)
            if op == 'sliceWhere' and cur or op == 'splitWhere' and lst and not flags[-1]:
                out.append(cur)
            return tuple(tuple(c) for c in out)
        raise ValueError(op)


LEAF = dict(k='leaf')


class Describe:
    """the table for the model: per stage and per element that WOULD reach it if everything were consumed, the lambda
    body as evaluated on that element and the fact the operator's reaction depends on (eager, no laziness in here)"""
    def __init__(self, ctx):
        self.ctx = ctx

    def x(self, body, *args):
        env = dict(zip(body['vars'], args))
        return inst(body['x'], lambda fl: flagval(fl, self.ctx, env))

    def val(self, body, *args):
        return freeze(ev(body['text'], self.ctx, dict(zip(body['vars'], args))))

    def source(self, src):
        """-> (json of the source, its elements)"""
        ticks = lambda ids: dict(k='eager', ks=[dict(k='tick', id=i, a=LEAF) for i in ids])
        if src.get('kind', 'list') == 'list':
            return dict(n=len(src['vals']), x=ticks(src['ids'] or [])), list(src['vals'])
        outs, cur, elems, past = [], [], [], set()
        sel = src.get('sel')
        if src['kind'] == 'generate':
            x = src['init']
            while len(elems) < 50:
                cur.append(self.x(src['pred'], x))
                if not self.val(src['pred'], x) or (src['decycle'] and x in past):
                    break
                past.add(x)
                if sel:
                    cur.append(self.x(sel, x))
                elems.append(self.val(sel, x) if sel else x)
                outs.append(cur)
                cur = [self.x(src['prod'], x)]
                x = self.val(src['prod'], x)
        else:
            queue = collections.deque([src['init']])
            while queue and len(elems) < 50:
                x = queue.popleft()
                if src['decycle']:
                    if x in past:
                        continue
                    past.add(x)
                if sel:
                    cur.append(self.x(sel, x))
                elems.append(self.val(sel, x) if sel else x)
                outs.append(cur)
                cur = [self.x(src['prod'], x)]
                new = produced(self.val(src['prod'], x))
                if src.get('depthFirst'):
                    queue.extendleft(reversed(new))
                else:
                    queue.extend(new)
        if len(elems) >= 50:
            raise Bad('the generation does not end')
        return dict(n=len(elems), x=ticks(eager_ids(src_names(src), src['sp'], src['ids'])), lazy=True,
                    outs=outs, fin=cur), elems

    def pipe(self, p):
        """-> (json for the driver, all elements of the pipeline)"""
        sj, elems = self.source(p['src'])
        j = dict(src=sj, stages=[])
        for st in p['stages']:
            sj, elems = self.stage(st, elems)
            j['stages'] += sj if isinstance(sj, list) else [sj]
        return j, elems

    def stage(self, st, elems):
        op = st['op']
        b = st.get('body')
        xs = [self.x(b, v) for v in elems] if b is not None and b['vars'] == ['$'] else []
        if op in ('where', 'takeWhile', 'skipWhile', 'any', 'all', 'indexWhere', 'lastIndexWhere'):
            # the truth of the predicate's result where it is (a lazy result is true)
            vs = [ev('bool(%s)' % b['text'], self.ctx, {'$': v}) is True for v in elems]
        else:
            vs = [self.val(b, v) for v in elems] if b is not None and b['vars'] == ['$'] else []
        if op == 'select':
            return dict(op='select', bodies=xs), vs
        if op == 'where':
            return dict(op='filter', bodies=xs, flags=[bool(v) for v in vs]), [e for e, v in zip(elems, vs) if v]
        if op == 'takeWhile':
            return dict(op='takeWhile', bodies=xs, flags=[bool(v) for v in vs]), [
                e for e, _ in itertools.takewhile(lambda t: t[1], zip(elems, vs))]
        if op == 'skipWhile':
            return dict(op='skipWhile', bodies=xs, flags=[bool(v) for v in vs]), [
                e for e, _ in itertools.dropwhile(lambda t: t[1], zip(elems, vs))]
        if op == 'selectMany':
            out = []
            for v in vs:
                out += list(v) if isinstance(v, tuple) else [v]
            return dict(op='selectMany', bodies=xs, counts=[len(v) if isinstance(v, tuple) else 1 for v in vs]), out
        if op == 'distinct':
            seen, keep = set(), []
            for v in (vs if b is not None else elems):
                keep.append(v not in seen)
                seen.add(v)
            return dict(op='filter', bodies=xs, flags=keep), [e for e, k in zip(elems, keep) if k]
        if op in ('accumulate', 'aggregate'):
            eager = [dict(k='tick', id=st['id'], a=LEAF)] if st.get('id') else []
            seeded = st.get('seed') is not None
            bodies, out = [], [st['seed']] if seeded else []
            for i, v in enumerate(elems):
                if i == 0 and not seeded:
                    bodies.append(LEAF)
                    out.append(v)
                else:
                    bodies.append(self.x(b, out[-1], v))
                    out.append(self.val(b, out[-1], v))
            if op == 'accumulate':
                return dict(op='accumulate', bodies=bodies, seeded=seeded, eager=eager), out
            return dict(op='each', bodies=bodies, nout=1, eager=eager), out[-1:]
        if op in ('take', 'skip'):
            eager = [dict(k='tick', id=st['id'], a=LEAF)] if st.get('id') else []
            return dict(op=op, k=st['k'], eager=eager), (elems[:st['k']] if op == 'take' else elems[st['k']:])
        if op == 'memorize':
            return dict(op='pass'), elems
        if op == 'enumerate':
            return dict(op='pass'), [(i, v) for i, v in enumerate(elems)]
        if op in ('zip', 'concat'):
            oj, oel = self.pipe(st['other'])
            return dict(op=op, other=oj), ([(a, c) for a, c in zip(elems, oel)] if op == 'zip' else elems + oel)
        if op == 'join':
            oj, oel = self.pipe(st['other'])
            preds, flags, sels, out = [], [], [], []
            for x in elems:
                pr, fr, sr = [], [], []
                for y in oel:
                    pr.append(self.x(st['pred'], x, y))
                    f = bool(self.val(st['pred'], x, y))
                    fr.append(f)
                    sr.append(self.x(st['sel'], x, y) if f else LEAF)
                    if f:
                        out.append(self.val(st['sel'], x, y))
                preds.append(pr)
                flags.append(fr)
                sels.append(sr)
            return dict(op='join', other=oj, preds=preds, pflags=flags, sels=sels), out
        # ---- consumers: one result
        if op in ('any', 'indexWhere'):
            return dict(op='search', bodies=xs, flags=[bool(v) for v in vs]), [None]
        if op == 'all':
            return dict(op='search', bodies=xs, flags=[not v for v in vs]), [None]
        if op == 'allNoPred':
            return dict(op='search', bodies=[], flags=[not v for v in elems]), [None]
        if op in ('anyNoPred', 'first'):
            return dict(op='search', bodies=[], flags=[True] * len(elems)), [None]
        if op == 'lastIndexWhere':
            return dict(op='each', bodies=xs, nout=1), [None]
        if op == 'len':
            return dict(op='each', bodies=[], nout=1), [None]
        if op == 'toDict':
            return dict(op='each', nout=1, bodies=[
                dict(k='eager', ks=[x1] + ([self.x(st['body2'], v)] if st.get('body2') else []))
                for x1, v in zip(xs, elems)]), [None]
        if op == 'groupBy':
            groups = {}
            for v, k in zip(elems, vs):
                groups.setdefault(k, []).append(self.val(st['body2'], v) if st.get('body2') else v)
            each = dict(op='each', nout=len(groups), bodies=[
                dict(k='eager', ks=([self.x(st['body2'], v)] if st.get('body2') else []) + [x1])
                for x1, v in zip(xs, elems)])
            if not st.get('body3'):
                return each, [None] * len(groups)
            return [each, dict(op='select', bodies=[self.x(st['body3'], tuple(g)) for g in groups.values()])], \
                [None] * len(groups)
        if op in ('sliceWhere', 'splitWhere'):
            # the whole collection first (to_list), then the predicate on element after element
            return [dict(op='each', bodies=[], nout=len(elems)), dict(op='each', bodies=xs, nout=1)], [None]
        raise ValueError(op)


_CONV_CTX = {}


def conv_context(conv, noverloads=3):
    """the context (with `tick` and `g`) of a naming convention"""
    if (conv, noverloads) not in _CONV_CTX:
        _CONV_CTX[(conv, noverloads)] = make_context(noverloads, conv)
    return _CONV_CTX[(conv, noverloads)]


def real_pipe(text, ctx, keep=False):
    """-> (value, log, None) or (None, None, exception class); keep: the log up to the exception instead of None"""
    del LOG[:]
    err = v = None
    try:
        v = ENGINE(text).evaluate(context=ctx)
    except Exception as e:
        err = type(e).__name__
    log = list(LOG)
    del LOG[:]
    if err is not None:
        return None, (log if keep else None), err
    return freeze(v), log, None


FAIL_TAILS = ['select(nosuch($))', 'select(boom($))', 'where(nosuch($))', 'select($.nosuch())', 'takeWhile(amb($))',
              'select(where($, true))', "select(g($, [1]))"]


def failing_tail_verdict(p, ctx, tail):
    """an exception raised LAZILY, when the host's finaliser pulls the first result of a pipeline whose last lambda
    fails: at that point exactly what is needed for ONE result has been evaluated - the log of the same pipeline
    consumed by `.take(1)` (Yaql.Props.C11.consumed_prefix_only) -, nothing behind it, nothing twice"""
    conv = p.get('conv', 'camel')
    text = '%s.%s' % (pipe_text(p), conv_text(tail, conv))
    ref = RefEval(ctx)
    first = ref.run(dict(p, stages=p['stages'] + [dict(op='take', k=1)]))
    _, log, err = real_pipe(text, conv_context(conv), keep=True)
    where = '' if conv == 'camel' else ' (in a context of the %s naming convention)' % conv
    if first and err is None:
        return ('mismatch', 'error-path-per-element-model', '%s%s: the reference expects the last lambda to fail on the first '
                'result; the evaluation returns' % (text, where)), text
    if not first and err is not None:
        return ('mismatch', 'error-path-per-element-model', '%s%s: raises %s although the pipeline has no result' % (
            text, where, err)), text
    if log != ref.log:
        twice = sorted(set(i for i in log if log.count(i) > ref.log.count(i)))
        return ('oracle', 'error-path-per-element', '%s%s: %s; probe log %r, but what is evaluated up to the first result - '
                'each lambda once per element consumed, in order - is %r%s' % (
                    text, where, 'ends in %s when the first result is converted' % err if err else 'returns', log, ref.log,
                    ' (evaluated more than once: %r)' % twice if twice else '')), text
    return None, text


def positional(p):
    """the same pipeline in the plain spelling: default convention, every argument in its positional slot (arguments
    behind a left-out optional one keep their keyword)"""
    def plain(d, sn):
        present = [pr for _, _, pr in sn]
        gap = present.index(False) if False in present else len(present)
        return dict(d, sp=dict(npos=gap, kw=[n for i, (_, n, pr) in enumerate(sn) if i >= gap and pr]))
    q = dict(p, conv='camel', stages=[])
    if p['src'].get('sp'):
        q['src'] = plain(p['src'], src_names(p['src']))
    for st in p['stages']:
        st = plain(st, stage_names(st)) if st.get('sp') else st
        if st.get('other'):
            st = dict(st, other=positional(st['other']))
        q['stages'].append(st)
    return q


def is_plain(p):
    return pipe_text(p) == pipe_text(positional(p))


def pipe_case(p, ctx):
    """-> dict(text, ref_log, ref_value, table) or raises Bad (a lambda raises on some element, first() of nothing..);
    `ctx`: the context of the default convention, in which the harness evaluates bodies on elements"""
    text = pipe_text(p)
    ref = RefEval(ctx)
    value = ref.run(p)
    table, _ = Describe(ctx).pipe(p)
    return dict(text=text, ref_log=ref.log, ref_value=value, table=table, conv=p.get('conv', 'camel'))


def canon_value(v):
    if isinstance(v, dict):
        return tuple(sorted((repr(k), repr(canon_value(x))) for k, x in v.items()))
    if isinstance(v, (list, tuple)):
        return tuple(canon_value(x) for x in v)
    return v


def pipe_verdict(p, ctx, model_log, c=None):
    """-> (failure or None, info); failure = (kind, key, what)"""
    c = c or pipe_case(p, ctx)
    value, log, err = real_pipe(c['text'], conv_context(c['conv']))
    info = dict(c, real_log=log, real_err=err)
    ops = '.'.join(st['op'] for st in p['stages'])
    where = '' if c['conv'] == 'camel' else ' (in a context of the %s naming convention)' % c['conv']
    if err is not None or log != c['ref_log']:
        # does the plain spelling of the same call behave?  Then it is the spelling that changes the evaluation
        plain = positional(p)
        ptext = pipe_text(plain)
        if ptext != c['text']:
            _, plog, perr = real_pipe(ptext, conv_context('camel'))
            if perr is None and plog == c['ref_log']:
                return ('oracle', 'spelling', '%s%s: %s; the same call with every argument in its positional slot, %s, logs '
                        '%r, which is each lambda once per element consumed, in order: an argument of a lazily evaluated '
                        'parameter must stay lazy when it is passed by keyword' % (
                            c['text'], where, 'raises ' + err if err is not None else 'real log %r' % (log,), ptext,
                            plog)), info
    if err is not None:
        return ('oracle', 'per-element-raises', '%s%s: raises %s; the reference gives %r with log %r' % (
            c['text'], where, err, c['ref_value'], c['ref_log'])), info
    if log != c['ref_log']:
        return ('oracle', 'per-element', '%s%s: real log %r; each lambda once per element consumed, in order, gives %r' % (
            c['text'], where, log, c['ref_log'])), info
    if canon_value(value) != canon_value(c['ref_value']):
        return ('mismatch', 'per-element-value', '%s: real value %r, transcription %r (the harness computes the wrong '
                'elements)' % (c['text'], value, c['ref_value'])), info
    if model_log is not None and model_log != c['ref_log']:
        return ('mismatch', 'per-element-model', '%s (%s): Yaql.PerElem log %r, transcription %r' % (
            c['text'], ops, model_log, c['ref_log'])), info
    return None, info


def ask_pipes(drv, tables):
    if drv is None:
        return [None] * len(tables)
    out = []
    for i in range(0, len(tables), 100):
        out += drv.ask(dict(p='C11', xs=[], pipes=tables[i:i + 100]))['plogs']
    return out


def pipe_fails(p, ctx, drv, kind, key=None):
    try:
        c = pipe_case(p, ctx)
        f, _ = pipe_verdict(p, ctx, ask_pipes(drv, [c['table']])[0])
    except Exception:
        return None
    return f if f and f[0] == kind and (key is None or f[1] == key) else None


def respell(d, sn):
    """the spelling of `d` after an optional argument was dropped / everything that can be is made positional"""
    present = [pr for _, _, pr in sn]
    gap = present.index(False) if False in present else len(present)
    npos = min(d['sp']['npos'], gap)
    names = [n for _, n, _ in sn]
    kw = [n for n in d['sp']['kw'] if present[names.index(n)]]
    kw += [n for i, n in enumerate(names) if i >= npos and present[i] and n not in kw]
    return dict(d, sp=dict(npos=npos, kw=kw))


def sub_pipes(p):
    """smaller variants of a pipeline spec"""
    n = len(p['stages'])
    for i in range(n - 1, -1, -1):
        yield dict(p, stages=p['stages'][:i] + p['stages'][i + 1:])
    src = p['src']
    if src.get('kind', 'list') == 'list':
        for i in range(len(src['vals'])):
            yield dict(p, src=dict(kind='list', vals=src['vals'][:i] + src['vals'][i + 1:],
                                   ids=None if src['ids'] is None else src['ids'][:i] + src['ids'][i + 1:]))
        if src['ids'] is not None:
            yield dict(p, src=dict(kind='list', vals=src['vals'], ids=None))
    else:
        for vals in ([], [1], [1, 2], [3, 1, 2]):
            yield dict(p, src=dict(kind='list', vals=vals, ids=None))
        if src['ids']:
            yield dict(p, src=dict(src, ids={}))
        for k in ('sel', 'depthFirst'):
            if src.get(k) is not None:
                q = {kk: v for kk, v in src.items() if kk != k}
                q['ids'] = {kk: v for kk, v in src['ids'].items() if kk != k}
                yield dict(p, src=respell(q, src_names(q)))
    if p.get('conv', 'camel') != 'camel':
        yield dict(p, conv='camel')
    for i, st in enumerate(p['stages']):
        put = lambda q: dict(p, stages=p['stages'][:i] + [q] + p['stages'][i + 1:])
        if st.get('other'):
            for q in sub_pipes(st['other']):
                yield put(dict(st, other=q))
        if st.get('id'):
            yield put({k: v for k, v in st.items() if k != 'id'})
        if st.get('as'):
            yield put({k: v for k, v in st.items() if k != 'as'})
        for k in ('body3', 'body2', 'seed') + (('body',) if st['op'] == 'distinct' else ()):
            if st.get(k) is not None:
                q = {kk: v for kk, v in st.items() if kk != k and not (k == 'seed' and kk == 'id')}
                yield put(respell(q, stage_names(q)))
        if st.get('sp') and st['sp']['kw']:
            sn = stage_names(st)
            # one keyword argument less: the first one written by keyword goes to its slot, if that is the next slot
            names = [n for _, n, _ in sn]
            nxt = st['sp']['npos']
            if nxt < len(names) and names[nxt] in st['sp']['kw']:
                yield put(dict(st, sp=dict(npos=nxt + 1, kw=[n for n in st['sp']['kw'] if n != names[nxt]])))
            if st['sp']['kw'] != [n for n in names if n in st['sp']['kw']]:
                yield put(dict(st, sp=dict(st['sp'], kw=[n for n in names if n in st['sp']['kw']])))


PRED_OPS = ('where', 'takeWhile', 'skipWhile', 'any', 'all', 'indexWhere', 'lastIndexWhere', 'sliceWhere', 'splitWhere')


def simple_bodies(st, key, n):
    """plain one-probe lambdas that could stand in for the body `key` of stage (or generated source) `st`"""
    two = st[key]['vars'] != ['$']
    if st.get('kind') == 'generate' and key == 'prod':
        texts = ['($ + 1) mod 6']
    elif st.get('kind') == 'generateMany' and key == 'prod':
        texts = ['[($ + 1) mod 5]', '[]']
    elif key == 'pred' or key == 'body' and st.get('op') in PRED_OPS:
        texts = ['true', 'false'] + (['$1 < $2', '$2 > 15'] if two else ['$ > 2', '$ mod 2 = 0', '$ < 3'])
    elif key == 'body3':
        texts = ['len($)']
    else:
        texts = ['$1 + $2'] if two else ['$']
    for t in texts:
        yield dict(text='tick(%d, %s)' % (n, t), x=dict(k='tick', id=n, a=dict(k='leaf')), vars=st[key]['vars'])


def sub_bodies(p, counter):
    src = p['src']
    for key in ('pred', 'prod', 'sel'):
        if src.get('kind', 'list') != 'list' and src.get(key) and not src[key]['text'].startswith('tick(9'):
            counter[0] += 1
            for b in simple_bodies(src, key, 900 + counter[0]):
                yield dict(p, src=dict(src, **{key: b}))
    for i, st in enumerate(p['stages']):
        for key in ('body', 'body2', 'body3', 'pred', 'sel'):
            if st.get(key) and not st[key]['text'].startswith('tick(9'):
                counter[0] += 1
                for b in simple_bodies(st, key, 900 + counter[0]):
                    yield dict(p, stages=p['stages'][:i] + [dict(st, **{key: b})] + p['stages'][i + 1:])
        if st.get('other'):
            for q in sub_bodies(st['other'], counter):
                yield dict(p, stages=p['stages'][:i] + [dict(st, other=q)] + p['stages'][i + 1:])


def shrink_pipe(p, ctx, drv, kind, key=None):
    p = shrink_pipe_shape(p, ctx, drv, kind, key)
    counter = [0]
    changed = True
    while changed:
        changed = False
        for q in sub_bodies(p, counter):
            if pipe_fails(q, ctx, drv, kind, key):
                p, changed = q, True
                break
    return shrink_pipe_shape(p, ctx, drv, kind, key)


def shrink_pipe_shape(p, ctx, drv, kind, key=None):
    changed = True
    while changed:
        changed = False
        for q in sub_pipes(p):
            if pipe_fails(q, ctx, drv, kind, key):
                p, changed = q, True
                break
    return p


def lazy_nodes(x):
    """the `lazy` nodes of an X"""
    if isinstance(x, dict):
        return ([x] if x.get('k') == 'lazy' else []) + [n for v in x.values() for n in lazy_nodes(v)]
    if isinstance(x, list):
        return [n for v in x for n in lazy_nodes(v)]
    return []


def probe_ids(x):
    """every probe id that occurs in an X (fired or not)"""
    if isinstance(x, dict):
        return ([x['id']] if x.get('k') == 'tick' else []) + [i for v in x.values() for i in probe_ids(v)]
    if isinstance(x, list):
        return [i for v in x for i in probe_ids(v)]
    return []


def orderby_verdict(p, ctx):
    """orderBy / thenBy: a key selector is needed at most once per element (none for fewer than two elements); the order
    in which the keys are taken is left open, so the oracle is (a) a bound: no probe of a selector fires more often
    than once per element it is evaluated on, none fires that the evaluation on no element fires; (b) the log does not
    depend on how the selector is passed: by keyword, under another naming convention, or in its positional slot"""
    text, conv = pipe_text(p), p.get('conv', 'camel')
    where = '' if conv == 'camel' else ' (in a context of the %s naming convention)' % conv
    _, log, err = real_pipe(text, conv_context(conv))
    ptext = pipe_text(positional(p))
    if ptext != text:
        _, plog, perr = real_pipe(ptext, conv_context('camel'))
        if perr is None and (err is not None or log != plog):
            return ('oracle', 'spelling', '%s%s: %s; the same call with every argument in its positional slot, %s, logs %r: '
                    'an argument of a lazily evaluated parameter must stay lazy when it is passed by keyword' % (
                        text, where, 'raises ' + err if err is not None else 'real log %r' % (log,), ptext, plog)), \
                dict(text=text)
    if err is not None:
        raise Bad(err)
    d = Describe(ctx)
    k = len([st for st in p['stages'] if st['op'] in ORDER_OPS])
    elems = RefEval(ctx).run(dict(p, stages=p['stages'][:-k]))
    bound = {}
    for st in p['stages'][-k:]:
        for i in probe_ids(st['body']['x']):
            bound[i] = 0
        for v in elems:
            for i in py_trace(d.x(st['body'], v)):
                bound[i] += 1
    own = [i for i in log if i in bound]
    over = sorted(i for i in bound if own.count(i) > bound[i])
    if over and not elems:
        return ('oracle', 'orderBy-key-without-element',
                '%s%s: nothing to sort, but the probes %r inside the key selector fired (log %r): a per-element lambda runs '
                'once per element consumed' % (text, where, over, log)), dict(text=text)
    if over:
        return ('oracle', 'orderBy-key-reevaluated',
                '%s%s: %d elements, but the probes %r inside the key selector fired %r times (log %r): the selector runs '
                'more than once per element' % (text, where, len(elems), over, [own.count(i) for i in over], log)), \
            dict(text=text)
    return None, dict(text=text)


HAND = [
    ('(tick(1, false) and tick(2, true))', dict(k='and', t=False, a=dict(k='tick', id=1, a=dict(k='leaf')),
                                                b=dict(k='tick', id=2, a=dict(k='leaf')))),
    ('max(b => tick(1, 4), a => tick(2, 3))', dict(k='eager', ks=[dict(k='tick', id=1, a=dict(k='leaf')),
                                                                  dict(k='tick', id=2, a=dict(k='leaf'))])),
    ('g(tick(1, 5), tick(2, 6))', dict(k='eager', ks=[dict(k='tick', id=1, a=dict(k='leaf')),
                                                      dict(k='tick', id=2, a=dict(k='leaf'))])),
    ('tick(1, null)?.indexOf(tick(2, 1))', dict(k='elvis', r=dict(k='tick', id=1, a=dict(k='leaf')), null=True,
                                                ks=[dict(k='tick', id=2, a=dict(k='leaf'))])),
]

_T = lambda i, a=None: dict(k='tick', id=i, a=a or dict(k='leaf'))      # noqa
_LZ = lambda b, d: dict(k='lazy', b=[_T(i) for i in b], d=[_T(i) for i in d])      # noqa
# error paths (one per class of failure) and lazy values in positions that do not iterate them
HAND += [
    ('[tick(1, 1), nosuch(tick(2, 2)), tick(3, 3)]', dict(k='eager', ks=[_T(1), dict(k='raise', ks=[]), _T(3)])),
    ("g(tick(1, 1), tick(2, 'x').nosuchProp)", dict(k='eager', ks=[_T(1), dict(k='raise', ks=[_T(2)])])),
    ('max(tick(1, 1), tick(2, 2).nosuch(tick(3, 3)))', dict(k='eager', ks=[_T(1), dict(k='raise', ks=[_T(2)])])),
    ('[tick(1, 1), where(tick(2, [1]), tick(3, true))]', dict(k='eager', ks=[_T(1), dict(k='raise', ks=[])])),
    ('{a => tick(1, 1), b => abs(tick(2, 1), tick(3, 1))}', dict(k='eager', ks=[_T(1), dict(k='raise', ks=[])])),
    ('[tick(1, 1), g(tick(2, 1), tick(3, [1]))]', dict(k='eager', ks=[_T(1), dict(k='raise', ks=[_T(2), _T(3)])])),
    ('[tick(1, 1), amb(tick(2, 1), y => tick(3, 1))]', dict(k='eager', ks=[_T(1), dict(k='raise', ks=[_T(2), _T(3)])])),
    ('(tick(1, 1) + boom(tick(2, 1), tick(3, 1)))', dict(k='eager', ks=[_T(1), dict(k='raise', ks=[_T(2), _T(3)])])),
    ('(tick(1, true) and (tick(2, 1) / tick(3, 0)))', dict(k='and', a=_T(1), b=dict(k='raise', ks=[_T(2), _T(3)]), t=True)),
    ('(tick(1, false) and (tick(2, 1) / tick(3, 0)))', dict(k='and', a=_T(1), b=dict(k='raise', ks=[_T(2), _T(3)]), t=False)),
    ('[tick(1, 1), tick(2, 2)].select(nosuch($))', dict(k='eager', ks=[_T(1), _T(2), dict(k='raise', ks=[])])),
    ('[tick(1, 1), tick(2, 2)].where(boom($, tick(3, 1)))', dict(k='eager', ks=[_T(1), _T(2), dict(k='raise', ks=[_T(3)])])),
    ('(def(fz, tick(1, 1).nosuchProp) -> [tick(2, 1), fz(), fz()])',
     dict(k='defCalls', b=dict(k='raise', ks=[_T(1)]), sl=[False, True, True], os=[_T(2)])),
    ('([tick(1, 2), 1].orderBy(tick(2, $)) and tick(3, 5))', dict(k='and', a=_LZ([1], [2]), b=_T(3), t=True)),
    ('(([tick(1, 2), 1].select(tick(2, $)) or tick(3, 5)) and tick(4, 1))',
     dict(k='and', a=dict(k='or', a=_LZ([1], [2]), b=_T(3), t=True), b=_T(4), t=True)),
    ('(not [tick(1, 2), 1].orderBy(tick(2, $)).thenBy(tick(3, $)))', dict(k='eager', ks=[_LZ([1], [2, 3])])),
    ('bool([tick(1, 2), 1].where(tick(2, $)))', dict(k='eager', ks=[_LZ([1], [2])])),
    ('switch([tick(1, 2), 1].orderByDescending(tick(2, $)) => tick(3, 1))',
     dict(k='switch', cs=[_LZ([1], [2])], ts=[True], vs=[_T(3)])),
    ('selectCase([tick(1, 2), 1].orderBy(tick(2, $)), tick(3, true))',
     dict(k='selectCase', ps=[_LZ([1], [2]), _T(3)], ts=[True, True])),
    ('[coalesce([tick(1, 2), 1].orderBy(tick(2, $)), tick(3, 1)), tick(4, 1)][1]',
     dict(k='eager', ks=[dict(k='coalesce', **{'as': [_LZ([1], [2]), _T(3)], 'nulls': [False, True]}), _T(4)])),
    ('(let(zz => [tick(1, 2), 1].memorize().select(tick(2, $))) -> tick(3, 1))', dict(k='eager', ks=[_LZ([1], [2]), _T(3)])),
    ('tick(3, 1).assert([tick(1, 2), 1].orderBy(tick(2, $)))', dict(k='eager', ks=[_T(3), _LZ([1], [2])])),
    ('[tick(1, 2), 1].where([$].orderBy(tick(2, $))).len()', dict(k='eager', ks=[_T(1)])),
]


def bump(hist, key, n=1):
    hist[key] = hist.get(key, 0) + n


def spelling_hist(hist, p, top=True):
    """how the arguments of the lazily evaluated parameters of a pipeline are passed"""
    conv = p.get('conv', 'camel') if top else None
    for d, sn in [(p['src'], src_names(p['src']))] if p['src'].get('sp') else []:
        yield from ((p['src']['kind'], k, n in d['sp']['kw']) for k, n, pr in sn if pr and isinstance(d.get(k), dict))
    for st in p['stages']:
        if st.get('sp') is not None:
            for k, n, pr in stage_names(st):
                if pr and k != 'other' and isinstance(st.get(k), dict):
                    yield (st.get('as') or PE_NAMES.get(st['op'], st['op']), n, n in st['sp']['kw'])
        if st.get('other'):
            yield from spelling_hist(hist, st['other'], False)


def run_pipes(env, res, rng0, ctxs, hist, rp):
    """the per-element part: pipelines of streaming operators with probes inside their lambdas"""
    drv, tier = env['driver'], env['tier']
    rng = common.make_rng(env['seed'], 'C11-pipes')
    ctx = conv_context('camel')
    todo = []            # (spec, precomputed case)
    if rp is not None:
        if not rp.get('pipe'):
            return
        specs_ = [rp['pipe']]
    else:
        specs_ = None
    n = 2600 if tier == 'quick' else 16000
    n_order = 220 if tier == 'quick' else 2000
    tries = 0
    while (specs_ is None and len(todo) < n and tries < 4 * n) or (specs_ and tries < len(specs_)):
        tries += 1
        if specs_:
            p = specs_[tries - 1]
        else:
            pg = PipeGen(rng, ctx, 2 if tier == 'quick' else 3)
            p = pg.pipe(rng.choice([1, 1, 2, 2, 3, 4]), terminal_ok=True, conv='python' if rng.random() < 0.3 else 'camel')
        if p['stages'] and p['stages'][-1]['op'] in ORDER_OPS:
            todo.append((p, None))
            continue
        try:
            c = pipe_case(p, ctx)
        except Bad:
            bump(hist, 'pipe-regenerated')
            continue
        todo.append((p, c))
    if specs_ is None:
        for _ in range(n_order):
            pg = PipeGen(rng, ctx, 1)
            p = pg.order_pipe()
            p['conv'] = 'python' if rng.random() < 0.3 else 'camel'
            todo.append((p, None))
    mlogs = iter(ask_pipes(drv, [c['table'] for _, c in todo if c is not None]))
    for p, c in todo:
        for name, param, kw in spelling_hist(hist, p):
            bump(hist, 'lazy-arg:%s.%s:%s' % (name, param, 'keyword' if kw else 'positional'))
            if kw:
                bump(hist, 'lazy-by-keyword:%s' % p.get('conv', 'camel'))
        if c is None:
            try:
                f, info = orderby_verdict(p, ctx)
            except Bad:
                continue
            for st in p['stages']:
                if st['op'] in ORDER_OPS:
                    bump(hist, 'pipe-op:' + st['op'])
            res.case(info['text'], True)
            if f and len([x for x in res.failures if x.key == f[1]]) < 2:
                res.fail(f[0], f[1], f[2], dict(pipe=p, text=info['text']))
            continue
        ml = next(mlogs)
        f, info = pipe_verdict(p, ctx, ml, c)
        partial = any(st['op'] in ('take', 'any', 'all', 'indexWhere', 'first', 'anyNoPred', 'allNoPred', 'takeWhile', 'zip')
                      for st in p['stages'])
        res.case(c['text'], len(c['ref_log']) >= 2, sample=c['text'] if len(res.samples) < 6 and len(c['ref_log']) > 3 else None)
        if ml is not None:
            res.traces += 1
        if p['src'].get('kind', 'list') != 'list':
            bump(hist, 'pipe-source:' + p['src']['kind'])
        for st in p['stages']:
            bump(hist, 'pipe-op:' + (st.get('as') or st['op']))
            if st.get('other'):
                bump(hist, 'pipe-second-arg-lazy', bool(st['other']['stages']))
        bump(hist, 'pipe-conv:' + p.get('conv', 'camel'))
        if not c['ref_log']:
            bump(hist, 'pipe-nothing-fires')
        bump(hist, 'pipe-partial' if partial else 'pipe-full')
        bump(hist, 'pipe-log-len:%d' % min(len(c['ref_log']) // 4 * 4, 24))
        if f:
            small = shrink_pipe(p, ctx, drv, f[0], f[1])
            g = pipe_fails(small, ctx, drv, f[0], f[1]) or f
            res.fail(g[0], g[1], g[2], dict(pipe=small, text=pipe_text(small)))
            if len([x for x in res.failures if x.key.startswith('per-element') or x.key == 'spelling']) >= 6:
                break
        elif (rp is not None and rp.get('tail')) or (rp is None and p['stages'] and p['stages'][-1]['op'] not in PE_TERMINALS
                                                    and rng.random() < 0.15):
            # error path: the same pipeline with a last lambda that fails on the first result it is applied to
            tail = rp['tail'] if rp is not None else rng.choice(FAIL_TAILS)
            try:
                f2, text2 = failing_tail_verdict(p, ctx, tail)
            except Bad:
                continue
            res.case(text2, True)
            bump(hist, 'pipe-error-path:' + tail.split('(')[0])
            if f2 and len([x for x in res.failures if x.key == f2[1]]) < 2:
                q = p
                for cand in [dict(p, stages=p['stages'][i:j]) for i in range(len(p['stages']) + 1)
                             for j in range(i, len(p['stages']) + 1)][:40]:
                    try:
                        f3, _ = failing_tail_verdict(cand, ctx, tail)
                    except Exception:       # noqa
                        continue
                    if f3 and f3[1] == f2[1] and len(cand['stages']) < len(q['stages']):
                        q, f2 = cand, f3
                res.fail(f2[0], f2[1], f2[2], dict(pipe=q, tail=tail, text=pipe_text(q)))


# ------------------------------------------------------------------ single calls with a lambda per match / per common key
#
# mergeWith (listMerger / itemMerger once per key the two dictionaries share, in the order of the receiver), search
# (selector once if the expression matches), searchAll (once per match), replaceBy in both directions (repl once per
# replaced match).  The reference is a plain-Python transcription of the documented meaning that lists the
# applications; the model side is `Yaql.EvalOrder.trace` of the eager node holding these applications in order.

CALL_KINDS = ['mergeWith', 'search', 'searchAll', 'replaceBy', 'replaceByString']
CALL_SLOTS = {'mergeWith': ['d2', 'lm', 'im', 'maxLevels'], 'search': ['string', 'sel'], 'searchAll': ['string', 'sel'],
              'replaceBy': ['string', 'repl', 'count'], 'replaceByString': ['regexp', 'repl', 'count']}


def call_entry(spec, conv):
    k = spec['kind']
    if k == 'mergeWith':
        return spell().entry(conv, 'mergeWith', method=True)
    if k == 'replaceByString':
        return spell().entry(conv, 'replaceBy', method=True, first='string')
    return spell().entry(conv, k, method=True, first='regexp')


def call_names(spec):
    e = call_entry(spec, 'camel')
    return [(k, n, spec.get(k) is not None) for k, n in zip(CALL_SLOTS[spec['kind']], e.argnames(True))]


class CallGen:
    def __init__(self, rng, ctx, depth):
        self.rng, self.g, self.depth = rng, LamGen(rng, ctx, depth), depth

    def body(self, ty, var, vars_):
        b = self.g.body(ty, var, self.rng.randrange(0, self.depth + 1))
        b['vars'] = vars_
        return b

    def newid(self):
        self.g.n += 1
        return self.g.n

    def make(self, conv):
        r = self.rng
        kind = r.choice(CALL_KINDS)
        spec = dict(kind=kind, conv=conv, ids={})
        if kind == 'mergeWith':
            keys = ['a', 'b', 'c', 'd']
            mk = lambda k: [r.choice([1, 2, 3]) for _ in range(r.choice([0, 1, 2]))] if k in 'bd' else r.choice([1, 2, 5])
            spec['d1'] = [(k, mk(k)) for k in keys if r.random() < 0.6]
            spec['d2'] = [(k, mk(k)) for k in r.sample(keys, 4) if r.random() < 0.6]
            for side in ('d1', 'd2'):
                spec['ids'][side] = [self.newid() if r.random() < 0.25 else None for _ in spec[side]]
            if r.random() < 0.7:
                spec['lm'] = self.body('I', r.choice(['len($1)', 'len($2)']), ['$1', '$2'])
            if r.random() < 0.8:
                spec['im'] = self.body('I', r.choice(['$1', '$2']), ['$1', '$2'])
            if r.random() < 0.4:
                spec['maxLevels'] = r.choice([0, 1, 2])
        else:
            spec['pattern'] = r.choice(['[ab]', 'a', 'b+', 'x', '(a)(b)?', 'c'])
            spec['text'] = r.choice(['abcab', 'bbb', '', 'cab', 'aab'])
            ty, var = ('S', '$.value') if kind.startswith('replaceBy') else r.choice([('I', '$.start'), ('I', '$.end'),
                                                                                      ('S', '$.value')])
            b = self.body(ty, var, ['$'])
            if kind.startswith('replaceBy'):
                spec['repl'] = b
                if r.random() < 0.5:
                    spec['count'] = r.choice([0, 1, 2])
            elif r.random() < 0.85:
                spec['sel'] = b
            spec['string' if kind != 'replaceByString' else 'regexp'] = True
        for k in ('string', 'regexp', 'receiver', 'count', 'maxLevels'):
            if (k == 'receiver' or spec.get(k) is not None) and r.random() < 0.3:
                spec['ids'][k] = self.newid()
        spec['sp'] = c11spell.spelling(r, call_entry(spec, 'camel'), [n for _, n, _ in call_names(spec)],
                                       [pr for _, _, pr in call_names(spec)])
        return spec


def lit(v, i=None):
    t = json.dumps(v).replace('"', "'") if not isinstance(v, str) else "'%s'" % v
    return 'tick(%d, %s)' % (i, t) if i else t


def dict_text(items, ids):
    return '{%s}' % ', '.join('%s => %s' % (k, lit(v, i)) for (k, v), i in zip(items, ids))


def call_text(spec, conv=None):
    conv = conv or spec.get('conv', 'camel')
    e, sn, ids, kind = call_entry(spec, conv), call_names(spec), spec['ids'], spec['kind']
    rx = 'regex(%s)' % lit(spec['pattern'], ids.get('regexp' if kind == 'replaceByString' else 'receiver')) \
        if kind != 'mergeWith' else None
    st = lit(spec['text'], ids.get('receiver' if kind == 'replaceByString' else 'string')) if kind != 'mergeWith' else None
    texts = []
    for k, _, present in sn:
        if not present:
            texts.append(None)
        elif k == 'd2':
            texts.append(dict_text(spec['d2'], ids['d2']))
        elif k in ('lm', 'im', 'sel', 'repl'):
            texts.append(conv_text(spec[k]['text'], conv))
        elif k in ('count', 'maxLevels'):
            texts.append(lit(spec[k], ids.get(k)))
        else:
            texts.append(st if k == 'string' else rx)
    recv = dict_text(spec['d1'], ids['d1']) if kind == 'mergeWith' else st if kind == 'replaceByString' else rx
    return '%s.%s(%s)' % (recv, e.name, c11spell.write_args(e, [n for _, n, _ in sn], texts, sp_of(spec, sn)))


def call_ref(spec, ctx):
    """-> (the probes of the eager arguments in the order they fire, [(body, argument values)..] the applications of
    the lambdas in order, the value)"""
    import re as _re
    ids, kind, sn = spec['ids'], spec['kind'], call_names(spec)
    val = lambda b, *a: freeze(ev(b['text'], ctx, dict(zip(b['vars'], a))))
    apps = []
    if kind == 'mergeWith':
        eager = [i for i in ids['d1'] if i]
        for n in c11spell.eager_order([n for _, n, _ in sn], sp_of(spec, sn)):
            k = [kk for kk, nn, _ in sn if nn == n][0]
            eager += [i for i in ids['d2'] if i] if k == 'd2' else [ids[k]] if ids.get(k) else []
        d2 = dict(spec['d2'])
        out = {}
        for k, v1 in spec['d1']:
            out[k] = freeze(v1)
            if k in d2:
                v2 = d2[k]
                which = 'lm' if spec.get('maxLevels') != 1 and isinstance(v2, list) else 'im'
                if spec.get(which):
                    apps.append((spec[which], (freeze(v1), freeze(v2))))
                    out[k] = val(spec[which], freeze(v1), freeze(v2))
                elif which == 'im':
                    out[k] = freeze(v2)
                else:
                    seen = []
                    for x in list(v1) + list(v2):
                        if x not in seen:
                            seen.append(x)
                    out[k] = tuple(seen)
        for k, v2 in spec['d2']:
            out.setdefault(k, freeze(v2))
        return eager, apps, out
    eager = [ids['receiver']] if ids.get('receiver') else []
    for n in c11spell.eager_order([n for _, n, _ in sn], sp_of(spec, sn)):
        k = [kk for kk, nn, _ in sn if nn == n][0]
        eager += [ids[k]] if ids.get(k) else []
    rx = _re.compile(spec['pattern'])
    rec = lambda m: dict(value=m.group(), start=m.start(0), end=m.end(0))
    if kind == 'search':
        m = rx.search(spec['text'])
        if m is None:
            return eager, apps, None
        if not spec.get('sel'):
            return eager, apps, m.group()
        apps.append((spec['sel'], (rec(m),)))
        return eager, apps, val(spec['sel'], rec(m))
    if kind == 'searchAll':
        out = []
        for m in rx.finditer(spec['text']):
            if spec.get('sel'):
                apps.append((spec['sel'], (rec(m),)))
                out.append(val(spec['sel'], rec(m)))
            else:
                out.append(m.group())
        return eager, apps, tuple(out)

    def repl(m):
        apps.append((spec['repl'], (rec(m),)))
        v = val(spec['repl'], rec(m))
        if not isinstance(v, str):
            raise Bad('replacement %r' % (v,))
        return v
    return eager, apps, rx.sub(repl, spec['text'], spec.get('count') or 0)


def call_case(spec, ctx):
    """-> dict(text, ref_log, ref_value, x): x = the eager node of the probes and applications in order"""
    eager, apps, value = call_ref(spec, ctx)
    ks = [dict(k='tick', id=i, a=LEAF) for i in eager]
    for b, args in apps:
        env = dict(zip(b['vars'], args))
        ks.append(inst(b['x'], lambda fl: flagval(fl, ctx, env)))
    x = dict(k='eager', ks=ks)
    return dict(text=call_text(spec), ref_log=py_trace(x), ref_value=value, x=x, conv=spec.get('conv', 'camel'), napps=len(apps))


def call_plain(spec):
    sn = call_names(spec)
    present = [pr for _, _, pr in sn]
    gap = present.index(False) if False in present else len(present)
    return dict(spec, conv='camel', sp=dict(npos=gap, kw=[n for i, (_, n, pr) in enumerate(sn) if i >= gap and pr]))


def call_verdict(spec, ctx, model_log, c=None):
    c = c or call_case(spec, ctx)
    value, log, err = real_pipe(c['text'], conv_context(c['conv']))
    where = '' if c['conv'] == 'camel' else ' (in a context of the %s naming convention)' % c['conv']
    if err is not None or log != c['ref_log']:
        ptext = call_text(call_plain(spec))
        if ptext != c['text']:
            _, plog, perr = real_pipe(ptext, conv_context('camel'))
            if perr is None and plog == c['ref_log']:
                return ('oracle', 'spelling', '%s%s: %s; the same call with every argument in its positional slot, %s, logs '
                        '%r, which is the lambda once per match / per common key: an argument of a lazily evaluated '
                        'parameter must stay lazy when it is passed by keyword' % (
                            c['text'], where, 'raises ' + err if err is not None else 'real log %r' % (log,), ptext, plog))
    if err is not None:
        return ('oracle', 'call-raises', '%s%s: raises %s; the reference gives %r with log %r' % (
            c['text'], where, err, c['ref_value'], c['ref_log']))
    if log != c['ref_log']:
        return ('oracle', 'per-application', '%s%s: real log %r; the eager arguments once in order, then the lambda once '
                'per match / per common key gives %r' % (c['text'], where, log, c['ref_log']))
    if canon_value(value) != canon_value(c['ref_value']):
        return ('mismatch', 'call-value', '%s: real value %r, transcription %r (the harness applies the lambda to the '
                'wrong things)' % (c['text'], value, c['ref_value']))
    if model_log is not None and model_log != c['ref_log']:
        return ('mismatch', 'model', '%s: Lean trace %r, transcription %r' % (c['text'], model_log, c['ref_log']))
    return None


def sub_calls(spec, counter):
    if spec.get('conv', 'camel') != 'camel':
        yield dict(spec, conv='camel')
    sn = call_names(spec)
    for k in ('count', 'maxLevels', 'sel', 'lm', 'im'):
        if spec.get(k) is not None and (k in ('count', 'maxLevels') or spec['kind'] != 'search' or k != 'sel'):
            q = {kk: v for kk, v in spec.items() if kk != k}
            q['ids'] = {kk: v for kk, v in spec['ids'].items() if kk != k}
            yield respell(q, call_names(q))
    if any(v for v in spec['ids'].values() if not isinstance(v, list)):
        yield dict(spec, ids={k: v for k, v in spec['ids'].items() if isinstance(v, list)})
    for side in ('d1', 'd2'):
        for i in range(len(spec.get(side, []))):
            yield dict(spec, **{side: spec[side][:i] + spec[side][i + 1:]},
                       ids=dict(spec['ids'], **{side: spec['ids'][side][:i] + spec['ids'][side][i + 1:]}))
        if any(spec['ids'].get(side, [])):
            yield dict(spec, ids=dict(spec['ids'], **{side: [None] * len(spec[side])}))
    if spec.get('text'):
        yield dict(spec, text=spec['text'][:-1])
    names = [n for _, n, _ in sn]
    sp = sp_of(spec, sn)
    if sp['kw'] and sp['npos'] < len(names) and names[sp['npos']] in sp['kw']:
        yield dict(spec, sp=dict(npos=sp['npos'] + 1, kw=[n for n in sp['kw'] if n != names[sp['npos']]]))
    for k in ('sel', 'repl', 'lm', 'im'):
        if spec.get(k) and not spec[k]['text'].startswith('tick(9'):
            counter[0] += 1
            t = {'sel': '$.start', 'repl': '$.value', 'lm': 'len($1) + len($2)', 'im': '$1 + $2'}[k]
            n = 900 + counter[0]
            yield dict(spec, **{k: dict(text='tick(%d, %s)' % (n, t), x=dict(k='tick', id=n, a=LEAF), vars=spec[k]['vars'])})


def shrink_call(spec, ctx, drv, f):
    def fails(q):
        try:
            c = call_case(q, ctx)
            ml = drv.ask(dict(p='C11', xs=[c['x']]))['traces'][0] if drv else None
            g = call_verdict(q, ctx, ml, c)
        except Exception:
            return None
        return g if g and g[:2] == f[:2] else None
    counter = [0]
    changed = True
    while changed:
        changed = False
        for q in sub_calls(spec, counter):
            if fails(q):
                spec, changed = q, True
                break
    return spec, fails(spec) or f


def run_calls(env, res, hist, rp):
    drv, tier = env['driver'], env['tier']
    rng = common.make_rng(env['seed'], 'C11-calls')
    ctx = conv_context('camel')
    todo = []
    if rp is not None:
        if not rp.get('call'):
            return
        todo = [(rp['call'], call_case(rp['call'], ctx))]
    n = 700 if tier == 'quick' else 5000
    tries = 0
    while rp is None and len(todo) < n and tries < 4 * n:
        tries += 1
        spec = CallGen(rng, ctx, 2 if tier == 'quick' else 3).make('python' if rng.random() < 0.3 else 'camel')
        try:
            todo.append((spec, call_case(spec, ctx)))
        except Bad:
            bump(hist, 'call-regenerated')
    mlogs = [None] * len(todo)
    if drv:
        mlogs = []
        for i in range(0, len(todo), 300):
            mlogs += drv.ask(dict(p='C11', xs=[c['x'] for _, c in todo[i:i + 300]]))['traces']
    for (spec, c), ml in zip(todo, mlogs):
        res.case(c['text'], len(c['ref_log']) >= 2)
        if ml is not None:
            res.traces += 1
        bump(hist, 'call:' + spec['kind'])
        bump(hist, 'call-conv:' + spec.get('conv', 'camel'))
        bump(hist, 'call-applications:%d' % min(c['napps'], 4))
        sn = call_names(spec)
        for k, nm, pr in sn:
            if pr and isinstance(spec.get(k), dict):
                kw = nm in sp_of(spec, sn)['kw']
                bump(hist, 'lazy-arg:%s.%s:%s' % (call_entry(spec, 'camel').name, nm, 'keyword' if kw else 'positional'))
                if kw:
                    bump(hist, 'lazy-by-keyword:%s' % spec.get('conv', 'camel'))
        f = call_verdict(spec, ctx, ml, c)
        if f:
            small, g = shrink_call(spec, ctx, drv, f)
            res.fail(g[0], g[1], g[2], dict(call=small, text=call_text(small)))
            if len([x for x in res.failures if x.replay and x.replay.get('call')]) >= 4:
                break


def run(env, res):
    drv = env['driver']
    tier = env['tier']
    rng = common.make_rng(env['seed'], 'C11')
    rp = None
    n = 13000 if tier == 'quick' else 80000
    max_depth = 3 if tier == 'quick' else 4
    res.rule = ('typed random expressions of depth <= %d with a numbered probe in every operand position (operators, list/map '
                'literals, indexer, method and keyword calls, library functions, every short-circuit function, def and assert '
                'in every spelling, a user function with 1-6 overloads); distinct = distinct expression text; non-trivial = at '
                'least 3 probes and one lazy operator or a call of the overloaded function. Plus pipelines of 1-4 streaming '
                'operators over a list literal or a generating source (generate / generateMany) with such expressions as '
                'per-element lambdas, lazy pipelines as second collection of join/zip/concat, consumed completely or partly '
                '(non-trivial = at least 2 probe events); plus single calls of mergeWith / search / searchAll / replaceBy. '
                'Every argument is written positionally or by keyword (the alias of the live registry; a shuffled suffix of '
                'the parameters), in a context of the camelCase or of the Python naming convention. ERROR PATHS: in a quarter '
                'of the expressions one call ends in an exception (19 kinds: unknown function / method / property, method-only '
                'function in function form, arity, no matching, ambiguous, host function raises, payload raises, assert), 4 %% '
                'raise lazily while the result is converted, a quarter of the non-terminal pipelines get a failing last lambda: '
                'the log up to the exception is compared. UNCONSUMED LAZY VALUES: pipelines / orderings with probes in their '
                'lambdas in the positions that do not iterate (truth and null tests, conditions and branches of switch / '
                'selectCase / coalesce / assert, dropped list elements and dict values, let bindings never read, arguments '
                'handed on, predicate results)' % max_depth)
    ctxs = {k: conv_context('camel', k) for k in range(1, 7)}
    hist = {}
    cases = []
    if env['replay']:
        rp = json.load(open(env['replay']))['case']
        cases = [(rp['text'], rp['x'], rp.get('overloads', 3), rp.get('conv', 'camel'))] if not (
            rp.get('pipe') or rp.get('call')) else []
    else:
        for text, x in HAND:
            for k in (1, 6):
                cases.append((text, x, k, 'camel'))
        tries = 0
        while len(cases) < n + len(HAND) * 2 and tries < n * 5:
            tries += 1
            k = rng.randrange(1, 7)
            g = Gen(rng, ctxs[k], max_depth)
            # error paths: in a quarter of the expressions one call ends in an exception (if it is reached)
            mode = rng.random()
            g.plant = mode < 0.25
            try:
                if 0.25 <= mode < 0.29:
                    text, x = g.fail_at_output(rng.randrange(0, max_depth))
                else:
                    text, x = g.expr(rng.choice('IBSLNA'), rng.randrange(1, max_depth + 1))
                    text, x = g.finish(text, x)
            except Bad:
                bump(hist, 'regenerated')
                continue
            for f in g.features:
                bump(hist, 'op:' + f)
            cases.append((text, x, k, 'python' if rng.random() < 0.2 else 'camel'))
    model = None
    if drv:
        model, mruns = [], []
        for i in range(0, len(cases), 500):
            rep = drv.ask(dict(p='C11', xs=[c[1] for c in cases[i:i + 500]]))
            model += rep['traces']
            mruns += rep['runs']
    if env['replay'] and (rp.get('pipe') or rp.get('call')):
        cases = []
    run_pipes(env, res, rng, ctxs, hist, rp if env['replay'] else None)
    run_calls(env, res, hist, rp if env['replay'] else None)
    for ci, (text0, x, k, conv) in enumerate(cases):
        exp, exp_failed = py_run(x)
        text = conv_text(text0, conv)
        lazy = any(s in text0 for s in (' and ', ' or ', '?.', 'switch', 'selectCase', 'selectAllCases', 'examine',
                                        'coalesce', 'def(', '.assert('))
        res.case(text, len(exp) >= 3 and (lazy or 'g(' in text) or (exp_failed and len(exp) >= 1),
                 sample=text if ci in (8, 9, 10) or (exp_failed and ci % 500 < 8) else None)
        case = dict(text=text0, x=x, overloads=k, conv=conv)
        where = '' if conv == 'camel' else ', context of the %s naming convention' % conv
        log, err = real_log(text, conv_context(conv, k), keep=True)
        bump(hist, 'overloads:%d' % k)
        bump(hist, 'conv:' + conv)
        dormant = set(i for d in lazy_nodes(x) for i in probe_ids(d['d'])) - set(py_trace(x))
        if dormant:
            bump(hist, 'holds-unconsumed-lazy-value')
        if model is not None:
            res.traces += 1
            if model[ci] != py_trace(x):
                res.fail('mismatch', 'model', '%s: Lean trace %r, transcription %r' % (text, model[ci], py_trace(x)), case)
            if mruns[ci] != dict(log=exp, failed=exp_failed):
                res.fail('mismatch', 'model-run', '%s: Lean run %r, transcription %r' % (text, mruns[ci], (exp, exp_failed)), case)
        if err is not None and not exp_failed:
            bump(hist, 'raised:' + err)
            if conv != 'camel' and real_log(text0, ctxs[k])[1] is None:
                res.fail('oracle', 'convention', '%s%s: raises %s, while %s is evaluated in a context of the default '
                         'convention' % (text, where, err, text0), case)
            continue
        if exp_failed:
            # ---- error path: the log at the point of failure
            bump(hist, 'error-path:' + (err or 'NO-EXCEPTION'))
            bump(hist, 'error-path-log-len:%d' % min(len(exp), 12))
            if err is None:
                res.fail('mismatch', 'model-error-path', '%s%s: the reference expects an exception after the probes %r; the '
                         'evaluation returns (log %r)' % (text, where, exp, log), case)
                continue
            if log != exp:
                twice = sorted(set(i for i in log if log.count(i) > exp.count(i)))
                key = 'error-path-double-evaluation' if twice else 'error-path-order'
                res.fail('oracle', key, '%s (g has %d overloads%s): the evaluation ends in %s; probe log up to the exception '
                         '%r, but the arguments evaluated before the failing call, once each and in order, give %r%s' % (
                             text, k, where, err, log, exp,
                             ' (evaluated more than once: %r)' % twice if twice else ''), case)
        else:
            bump(hist, 'log-len:%d' % min(len(log), 12))
            if log != exp:
                woken = sorted(i for i in set(log) if i in dormant)
                key = 'unconsumed-lazy-evaluated' if woken else 'double-evaluation' if len(set(log)) < len(log) else 'order'
                res.fail('oracle', key, '%s (g has %d overloads%s): real log %r, reference order %r%s' % (
                    text, k, where, log, exp, ' (the probes %r sit inside per-element lambdas of a lazy value that nothing '
                    'iterates: a per-element lambda runs once per element CONSUMED)' % woken if woken else ''), case)
        if 'g(' in text:
            # the log must not depend on the number of overloads of g (neither must the point of failure)
            for k2 in (1, 6):
                if k2 != k:
                    log2, err2 = real_log(text, conv_context(conv, k2), keep=True)
                    if (err2 is None) == (err is None) and log2 != log:
                        res.fail('oracle', 'grows-with-overloads', '%s: log %r with %d overloads of g, %r with %d' % (
                            text, log, k, log2, k2), case)
        if len(res.failures) >= 12:
            break
    res.extra['histogram'] = hist
    return res


LEVEL_TEXT = ('Lean 4: the evaluation log of the resolver model is one left-to-right pass over the eager non-constant '
              'arguments, positional then keyword, under the common laziness signature (eager_once_in_order), and does not '
              'depend on the number of candidates (log_independent_of_candidates); laziness is decided by the parameter an '
              'argument is bound to, not by its spelling: map_args binds the last positional argument and the same argument '
              'passed by keyword under the alias to the same parameter (C11Spell.mapArgs_kw_move), and for a lazy parameter '
              'the two calls have the same outcome - evaluation log and bound vector (C11Spell.lazy_spelling_invariant; '
              'side conditions from the registry table: lazy_spelling_invariant_of_table; for a whole family of overloads '
              'that own the slot with a lazy parameter of that name: lazy_spelling_invariant_family); over the '
              'evaluation-order model: '
              'eager_fragment_trace and the short_circuit_* theorems; C11Gen.lazy_params / lazy_functions re-prove on the '
              'regenerated registry that the lazy parameters are where the model assumes, C11Gen.lazy_keyword_spelling that '
              'every lazy parameter has an unambiguous keyword spelling under every naming convention; over the per-element '
              'model (Yaql.PerElem: streams of probe deltas, stages with reactions): conservation of the log for every stage '
              '(runOn_log), per_element_total / per_element (an operator that applies its lambda fires, for each input element '
              'consumed and in input order, the probes of pulling it and of the lambda body on it, once - for the whole result '
              'and for its first k+1 results; nothing of the elements behind), take_log (a consumer of k results consumes '
              'exactly k), instances for select/where/distinct/takeWhile/skipWhile/selectMany/any/all/indexWhere/first/'
              'accumulate/zip/concat/join (join_pass_events, join_empty_outer). Error paths (Props/C11Err over EvalOrder.run, '
              'the evaluation that stops at the first failing call): run_prefix - the log of an evaluation that ends in an '
              'exception is a prefix of the log of the same expression with the failing call succeeding (everything in front '
              'once, in order, nothing behind, nothing twice), run_complete / run_of_noRaise, calls_prefix_of_probes / '
              'calls_nodup, evalPassE_prefix / evalPassE_first_raise for the pass of choose_overload over arguments that may '
              'raise. Lazy values nothing consumes: unconsumed_never_fires (the probes inside the per-element lambdas of a '
              'lazy value in a position that does not iterate it are not in the log), not_consumed_no_application (a pipeline '
              'of any stages over any source of which no result is asked for fires nothing), consumed_prefix_only. Tie: generated probe expressions, pipelines '
              'and single calls, every argument written positionally or by keyword, in contexts of the camelCase and of the '
              'Python convention, evaluated by the real engine, log compared with the predicted trace; C05/C06 tie the '
              'resolver model.')
LEVEL_NOTE = ('trusted: Lean kernel; Model/EvalOrder.lean, Resolve.lean; the generator\'s bookkeeping (operand truthiness '
              'taken from separate real evaluations); Model/PerElem.lean and the harness\'s eager table of per-element facts; '
              'the lazy transcription RefEval as the reference for the per-element clause; harness/c11spell.py (aliases read '
              'from live contexts). lazy_spelling_invariant_family asks every visible candidate to own the moved slot with a '
              'lazy parameter of the keyword\'s name (without that, map_args - which does not type-check keywords of named '
              'parameters - can keep a candidate in one spelling that it drops in the other: example in C11Spell, notes/C12.md); '
              'the last positional argument is moved (a suffix of arguments is the iteration).')
TECHNIQUE = 'Lean 4 proof + generated registry facts + differential trace comparison with numbered probes'
DESIGN_REF = 'DESIGN.md section 5, C11'
