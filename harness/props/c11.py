"""C11 - arguments are evaluated once, in order; lazy ones only on demand.

A probe function `tick(id, value)` (logs `id`, returns `value`) is registered next to the standard
library.  The generator builds typed expressions of bounded depth with a uniquely numbered probe in
every operand position of operators, literal constructors, indexers, method calls, keyword calls and
a representative set of library functions, including every short-circuit function
(and/or/?./switch/switchCase/selectCase/selectAllCases/examine/coalesce) and user functions with 1-6
overloads.  The real evaluation log is compared with the trace predicted by the evaluation-order
reference (`Yaql.EvalOrder.trace`, and its plain-Python transcription `py_trace` kept here)."""
import json

import common
import pyfacts
import yaql
from yaql.language import factory, specs, yaqltypes

ID = 'C11'
LEAN_MODULES = ['Yaql.Props.C11', 'Yaql.Props.C11Gen']
P = 'Yaql.Props.C11.'
REQUIRED_THEOREMS = [P + n for n in (
    'eager_once_in_order', 'log_independent_of_candidates', 'eager_fragment_trace', 'short_circuit_and',
    'short_circuit_or', 'short_circuit_elvis', 'short_circuit_switch', 'short_circuit_switch_none',
    'short_circuit_selectCase', 'short_circuit_coalesce', 'short_circuit_switchCase', 'all_cases_trace')] + [
    'Yaql.Props.C11Gen.lazy_params', 'Yaql.Props.C11Gen.lazy_functions']
TRUSTED = ['the expression generator and its bookkeeping of operand values (taken from separate real evaluations of the '
           'sub-expressions)', 'harness/gens/registry.py']
ASSUMPTIONS = ['selectAllCases / examine return lazy iterators (documented); the generator consumes them on the spot with '
               '.toList(), which is the point at which the model places their operands',
               'probes cannot raise; expressions whose evaluation raises are regenerated',
               'per-element lambdas of the query functions (select/where/..) are covered by C14, not here']


def generate():
    return pyfacts.run(['Registry'])['Registry']


ENGINE = factory.YaqlFactory().create()
LOG = []


def tick(id, value):
    LOG.append(id)
    return value


def make_context(noverloads):
    ctx = yaql.create_context().create_child_context()
    ctx.register_function(tick, name='tick')
    # `g`: 1-6 overloads of one name; the generated calls always hit the (int, int) one
    sigs = [(int, int), (str, int), (int, str), (str, str), (bool, bool), (type(None), int)][:noverloads]
    for i, (ta, tb) in enumerate(sigs):
        def g(x, y, i=i):
            return 7 + i
        f = specs.parameter('y', yaqltypes.PythonType(tb, False, [lambda t: type(t) is not bool] if tb is int else None))(g)
        f = specs.parameter('x', yaqltypes.PythonType(ta, False, [lambda t: type(t) is not bool] if ta is int else None))(f)
        ctx.register_function(f, name='g')
    return ctx


class Bad(Exception):
    pass


class Gen:
    def __init__(self, rng, ctx, max_depth):
        self.rng, self.ctx, self.max_depth = rng, ctx, max_depth
        self.n = 0
        self.features = set()

    def value(self, text):
        try:
            v = ENGINE(text).evaluate(context=self.ctx)
        except Exception as e:
            raise Bad('%s: %r' % (text, e))
        finally:
            del LOG[:]
        return v

    def tick(self, text, x):
        self.n += 1
        return 'tick(%d, %s)' % (self.n, text), dict(k='tick', id=self.n, a=x)

    def leaf(self, ty):
        r = self.rng
        c = {'I': lambda: str(r.choice([0, 1, 2, 3, 5])), 'B': lambda: r.choice(['true', 'false']),
             'S': lambda: r.choice(["'a'", "''", "'bc'"]), 'L': lambda: r.choice(['[1, 2]', '[]', '[3]']),
             'N': lambda: r.choice(['null', 'null', '1', "'x'"]),
             'A': lambda: r.choice(['0', '1', 'true', 'false', 'null', "'a'", "''", '[1]', '[]'])}[ty]()
        return self.tick(c, dict(k='leaf'))

    def expr(self, ty, depth):
        """-> (text, X) of an expression of type ty with a probe around every operand"""
        if depth <= 0 or self.rng.random() < 0.15:
            return self.leaf(ty)
        prods = getattr(self, 'p_' + ty)()
        name, fn = self.rng.choice(prods)
        self.features.add(name)
        t, x = fn(depth - 1)
        if self.rng.random() < 0.5:
            return self.tick(t, x)       # the operator node itself sits in an operand position of its parent
        return t, x

    # ---- helpers
    def eager(self, fmt, tys, depth):
        parts = [self.expr(t, depth) for t in tys]
        return fmt.format(*[p[0] for p in parts]), dict(k='eager', ks=[p[1] for p in parts])

    def truthy(self, text):
        return bool(self.value(text))

    def p_I(self):
        e = self.eager
        return [
            ('+', lambda d: e('({} + {})', 'II', d)), ('*', lambda d: e('({} * {})', 'II', d)),
            ('-', lambda d: e('({} - {})', 'II', d)), ('unary-', lambda d: e('(-{})', 'I', d)),
            ('max', lambda d: e('max({}, {})', 'II', d)), ('min', lambda d: e('min({}, {})', 'II', d)),
            ('max-kw', lambda d: e('max({}, b => {})', 'II', d)),
            ('max-kw2', lambda d: e('max(b => {}, a => {})', 'II', d)),
            ('abs', lambda d: e('abs({})', 'I', d)), ('len', lambda d: e('len({})', 'L', d)),
            ('len-method', lambda d: e('{}.len()', 'S', d)),
            ('g', lambda d: e('g({}, {})', 'II', d)), ('g-kw', lambda d: e('g({}, y => {})', 'II', d)),
            ('indexer', lambda d: e('[{}, {}][{}]', 'II', d, ) if False else self.indexer(d)),
            ('selectCase', self.select_case), ('switchCase', self.switch_case),
            ('coalesce-int', lambda d: self.coalesce(d, 'I')),
            ('indexOf', lambda d: e('{}.indexOf({})', 'LI', d)),
        ]

    def indexer(self, d):
        a, xa = self.expr('I', d)
        b, xb = self.expr('I', d)
        i, xi = self.tick(self.rng.choice(['0', '1']), dict(k='leaf'))
        return '[%s, %s][%s]' % (a, b, i), dict(k='eager', ks=[dict(k='eager', ks=[xa, xb]), xi])

    def p_B(self):
        e = self.eager
        return [
            ('and', lambda d: self.andor('and', d)), ('or', lambda d: self.andor('or', d)),
            ('not', lambda d: e('(not {})', 'B', d)), ('<', lambda d: e('({} < {})', 'II', d)),
            ('=', lambda d: e('({} = {})', 'AA', d)), ('!=', lambda d: e('({} != {})', 'II', d)),
            ('in', lambda d: e('({} in {})', 'IL', d)), ('isInteger', lambda d: e('isInteger({})', 'A', d)),
            ('bool', lambda d: e('bool({})', 'A', d)),
        ]

    def p_S(self):
        e = self.eager
        return [
            ('str+', lambda d: e('({} + {})', 'SS', d)), ('str', lambda d: e('str({})', 'I', d)),
            ('toUpper', lambda d: e('{}.toUpper()', 'S', d)),
            ('replace', lambda d: e('{}.replace({}, {})', 'SSS', d)),
            ('format', lambda d: e("'{{0}}{{1}}'.format({}, {})", 'AA', d)),
            ('concat', lambda d: e('concat({}, {})', 'SS', d)),
        ]

    def p_L(self):
        e = self.eager
        return [
            ('list-literal', lambda d: e('[{}, {}, {}]', 'AAA', d)), ('list()', lambda d: e('list({}, {})', 'AA', d)),
            ('list+', lambda d: e('({} + {})', 'LL', d)),
            ('examine', self.examine), ('selectAllCases', self.select_all),
            ('map-literal-keys', self.map_literal),
        ]

    def p_N(self):
        return [('switch', self.switch), ('coalesce', lambda d: self.coalesce(d, 'N')), ('elvis', self.elvis),
                ('and-any', lambda d: self.andor('and', d, 'A')), ('or-any', lambda d: self.andor('or', d, 'A'))]

    def p_A(self):
        ty = self.rng.choice('IBSLN')
        return getattr(self, 'p_' + ty)()

    def andor(self, op, d, ty='B'):
        a, xa = self.expr(ty, d)
        b, xb = self.expr(ty, d)
        return '(%s %s %s)' % (a, op, b), dict(k=op, a=xa, b=xb, t=self.truthy(a))

    def elvis(self, d):
        r, xr = self.expr(self.rng.choice(['N', 'L']), d)
        v = self.value(r)
        if v is not None and not isinstance(v, (tuple, list, str)):
            r, xr = self.tick('null', dict(k='leaf'))
            v = None
        if self.rng.random() < 0.5 or isinstance(v, str):
            return '%s?.len()' % r, dict(k='elvis', r=xr, null=v is None, ks=[])
        a, xa = self.expr('I', d)
        return '%s?.indexOf(%s)' % (r, a), dict(k='elvis', r=xr, null=v is None, ks=[xa])

    def switch(self, d):
        n = self.rng.choice([1, 2, 3])
        cs = [self.expr('B', d) for _ in range(n)]
        vs = [self.expr('A', d) for _ in range(n)]
        text = 'switch(%s)' % ', '.join('%s => %s' % (c[0], v[0]) for c, v in zip(cs, vs))
        return text, dict(k='switch', cs=[c[1] for c in cs], ts=[self.truthy(c[0]) for c in cs], vs=[v[1] for v in vs])

    def select_case(self, d):
        ps = [self.expr('B', d) for _ in range(self.rng.choice([1, 2, 3]))]
        return 'selectCase(%s)' % ', '.join(p[0] for p in ps), dict(
            k='selectCase', ps=[p[1] for p in ps], ts=[self.truthy(p[0]) for p in ps])

    def select_all(self, d):
        ps = [self.expr('B', d) for _ in range(self.rng.choice([1, 2, 3]))]
        return 'selectAllCases(%s).toList()' % ', '.join(p[0] for p in ps), dict(k='allCases', ps=[p[1] for p in ps])

    def examine(self, d):
        ps = [self.expr('A', d) for _ in range(self.rng.choice([1, 2, 3]))]
        return 'examine(%s).toList()' % ', '.join(p[0] for p in ps), dict(k='allCases', ps=[p[1] for p in ps])

    def switch_case(self, d):
        c, xc = self.expr('I', d)
        args = [self.expr('I', d) for _ in range(self.rng.choice([1, 2, 3]))]
        v = self.value(c)
        if not isinstance(v, int) or isinstance(v, bool):
            raise Bad('switchCase on %r' % (v,))
        sel = v if 0 <= v < len(args) else len(args) - 1
        return '%s.switchCase(%s)' % (c, ', '.join(a[0] for a in args)), dict(
            k='switchCase', c=xc, sel=sel, **{'as': [a[1] for a in args]})

    def coalesce(self, d, last):
        if last == 'I':     # keep the result an integer: the possibly-null operands are null or integers
            args = [self.tick(self.rng.choice(['null', 'null', '4']), dict(k='leaf'))
                    for _ in range(self.rng.choice([1, 2]))] + [self.expr(last, d)]
        else:
            args = [self.expr('N', d) for _ in range(self.rng.choice([1, 2]))] + [self.expr(last, d)]
        return 'coalesce(%s)' % ', '.join(a[0] for a in args), dict(
            k='coalesce', nulls=[self.value(a[0]) is None for a in args], **{'as': [a[1] for a in args]})

    def map_literal(self, d):
        ks = [self.tick("'k%d'" % i, dict(k='leaf')) for i in range(2)]
        vs = [self.expr('A', d) for _ in range(2)]
        text = '{%s}.keys().toList()' % ', '.join('%s => %s' % (k[0], v[0]) for k, v in zip(ks, vs))
        return text, dict(k='eager', ks=[ks[0][1], vs[0][1], ks[1][1], vs[1][1]])


def py_trace(x):
    """plain-Python transcription of the reference evaluation order (the statement of C11)"""
    k = x['k']
    if k == 'leaf':
        return []
    if k == 'tick':
        return py_trace(x['a']) + [x['id']]
    if k == 'eager':
        return [i for c in x['ks'] for i in py_trace(c)]
    if k == 'and':
        return py_trace(x['a']) + (py_trace(x['b']) if x['t'] else [])
    if k == 'or':
        return py_trace(x['a']) + ([] if x['t'] else py_trace(x['b']))
    if k == 'elvis':
        return py_trace(x['r']) + ([] if x['null'] else [i for c in x['ks'] for i in py_trace(c)])
    if k == 'switch':
        out = []
        for c, t, v in zip(x['cs'], x['ts'], x['vs']):
            out += py_trace(c)
            if t:
                return out + py_trace(v)
        return out
    if k == 'selectCase':
        out = []
        for p, t in zip(x['ps'], x['ts']):
            out += py_trace(p)
            if t:
                break
        return out
    if k == 'allCases':
        return [i for c in x['ps'] for i in py_trace(c)]
    if k == 'switchCase':
        return py_trace(x['c']) + (py_trace(x['as'][x['sel']]) if x['as'] else [])
    if k == 'coalesce':
        out = []
        for a, nul in zip(x['as'], x['nulls']):
            out += py_trace(a)
            if not nul:
                break
        return out
    raise ValueError(k)


def real_log(text, ctx):
    del LOG[:]
    try:
        ENGINE(text).evaluate(context=ctx)
    except Exception as e:
        return None, type(e).__name__
    return list(LOG), None


HAND = [
    ('(tick(1, false) and tick(2, true))', dict(k='and', t=False, a=dict(k='tick', id=1, a=dict(k='leaf')),
                                                b=dict(k='tick', id=2, a=dict(k='leaf')))),
    ('max(b => tick(1, 4), a => tick(2, 3))', dict(k='eager', ks=[dict(k='tick', id=1, a=dict(k='leaf')),
                                                                  dict(k='tick', id=2, a=dict(k='leaf'))])),
    ('g(tick(1, 5), tick(2, 6))', dict(k='eager', ks=[dict(k='tick', id=1, a=dict(k='leaf')),
                                                      dict(k='tick', id=2, a=dict(k='leaf'))])),
    ('tick(1, null)?.indexOf(tick(2, 1))', dict(k='elvis', r=dict(k='tick', id=1, a=dict(k='leaf')), null=True,
                                                ks=[dict(k='tick', id=2, a=dict(k='leaf'))])),
]


def run(env, res):
    drv = env['driver']
    tier = env['tier']
    rng = common.make_rng(env['seed'], 'C11')
    n = 15000 if tier == 'quick' else 150000
    max_depth = 3 if tier == 'quick' else 4
    res.rule = ('typed random expressions of depth <= %d with a numbered probe in every operand position (operators, list/map '
                'literals, indexer, method and keyword calls, library functions, every short-circuit function, a user '
                'function with 1-6 overloads); distinct = distinct expression text; non-trivial = at least 3 probes and one '
                'lazy operator or a call of the overloaded function' % max_depth)
    ctxs = {k: make_context(k) for k in range(1, 7)}
    hist = {}
    cases = []
    if env['replay']:
        rp = json.load(open(env['replay']))['case']
        cases = [(rp['text'], rp['x'], rp.get('overloads', 3))]
    else:
        for text, x in HAND:
            for k in (1, 6):
                cases.append((text, x, k))
        tries = 0
        while len(cases) < n + len(HAND) * 2 and tries < n * 5:
            tries += 1
            k = rng.randrange(1, 7)
            g = Gen(rng, ctxs[k], max_depth)
            try:
                text, x = g.expr(rng.choice('IBSLNA'), rng.randrange(1, max_depth + 1))
            except Bad:
                hist['regenerated'] = hist.get('regenerated', 0) + 1
                continue
            for f in g.features:
                hist['op:' + f] = hist.get('op:' + f, 0) + 1
            cases.append((text, x, k))
    model = None
    if drv:
        model = []
        for i in range(0, len(cases), 500):
            model += drv.ask(dict(p='C11', xs=[c[1] for c in cases[i:i + 500]]))['traces']
    for ci, (text, x, k) in enumerate(cases):
        exp = py_trace(x)
        lazy = any(s in text for s in (' and ', ' or ', '?.', 'switch', 'selectCase', 'selectAllCases', 'examine',
                                       'coalesce'))
        res.case(text, len(exp) >= 3 and (lazy or 'g(' in text), sample=text if ci in (8, 9, 10) else None)
        case = dict(text=text, x=x, overloads=k)
        log, err = real_log(text, ctxs[k])
        hist['overloads:%d' % k] = hist.get('overloads:%d' % k, 0) + 1
        if err is not None:
            hist['raised:' + err] = hist.get('raised:' + err, 0) + 1
            continue
        hist['log-len:%d' % min(len(log), 12)] = hist.get('log-len:%d' % min(len(log), 12), 0) + 1
        if log != exp:
            key = 'double-evaluation' if len(set(log)) < len(log) else 'order'
            res.fail('oracle', key, '%s (g has %d overloads): real log %r, reference order %r' % (text, k, log, exp), case)
        if 'g(' in text:
            # the log must not depend on the number of overloads of g
            for k2 in (1, 6):
                if k2 != k:
                    log2, err2 = real_log(text, ctxs[k2])
                    if err2 is None and log2 != log:
                        res.fail('oracle', 'grows-with-overloads', '%s: log %r with %d overloads of g, %r with %d' % (
                            text, log, k, log2, k2), case)
        if model is not None:
            res.traces += 1
            if model[ci] != exp:
                res.fail('mismatch', 'model', '%s: Lean trace %r, transcription %r' % (text, model[ci], exp), case)
        if len(res.failures) >= 10:
            break
    res.extra['histogram'] = hist
    return res


LEVEL_TEXT = ('Lean 4: the evaluation log of the resolver model is one left-to-right pass over the eager non-constant '
              'arguments, positional then keyword, under the common laziness signature (eager_once_in_order), and does not '
              'depend on the number of candidates (log_independent_of_candidates); over the evaluation-order model: '
              'eager_fragment_trace and the short_circuit_* theorems; C11Gen.lazy_params / lazy_functions re-prove on the '
              'regenerated registry that the lazy parameters are where the model assumes. Tie: generated probe expressions '
              'evaluated by the real engine, log compared with the predicted trace; C05/C06 tie the resolver model.')
LEVEL_NOTE = ('trusted: Lean kernel; Model/EvalOrder.lean, Resolve.lean; the generator\'s bookkeeping (operand truthiness '
              'taken from separate real evaluations). per-element lambdas are left to C14.')
TECHNIQUE = 'Lean 4 proof + generated registry facts + differential trace comparison with numbered probes'
DESIGN_REF = 'DESIGN.md section 5, C11'
