"""C01 - a shared engine parses every text as if it were alone.

(a) histories: multisets of texts parsed in many orders on ONE engine vs a fresh engine per text;
(b) schedules: real threads parse on one engine, blocked at every `ply.lex.Lexer.token` call
    (class-level patch, so cloned lexers are covered) and released one token fetch at a time;
    exhaustive interleavings for short texts, seeded random ones for long texts;
(c) free-running threads under a microsecond switch interval (supporting only).
Oracle (real code alone): every outcome equals the fresh-engine outcome of the same text.
Tie of the model to the code: Gen.Engine.lexerMode is re-observed on every run and
`Props/C01Gen.engine_mode` re-proved; in model terms the prediction for the observed mode is
`perCall_isolated` (= the oracle)."""
import itertools
import json
import re
import sys
import threading

import common
import pyfacts
import sched
import treeutil

ID = 'C01'
LEAN_MODULES = ['Yaql.Props.C01', 'Yaql.Props.C01Gen', 'Yaql.Props.C01Rules']
REQUIRED_THEOREMS = ['Yaql.Props.C01.perCall_isolated', 'Yaql.Props.C01.sequential_reuse',
                     'Yaql.Props.C01.shared_not_isolated', 'Yaql.Props.C01.done_absorbing',
                     'Yaql.Props.C01Gen.engine_mode', 'Yaql.Props.C01Gen.current_engine_isolated',
                     'Yaql.Props.C01Gen.all_entry_points_perCall',
                     'Yaql.Props.C01Rules.rules_blind_isolated', 'Yaql.Props.C01Rules.rules_reset_sequential',
                     'Yaql.Props.C01Rules.lookbehind_not_isolated', 'Yaql.Props.C01Rules.lookbehind_sandwich']
TRUSTED = ['ply.lex.Lexer.token reads nothing but the lexer object it is called on (lexdata, lexpos) and the '
           'immutable compiled rule tables shared by clones',
           'ply LRParser.parse keeps its stacks in locals',
           'CPython threads switched only at the instrumented token-fetch points in the systematic part']
ASSUMPTIONS = ['granularity of interleaving = one token fetch (as the property states); preemption inside one '
               'Lexer.token call is covered only by the free-running stress']

SHORT = ['1', '$', 'a b', '1 +', '$.a', 'f(1)', "'x'", '1 ~', '[1]', '-1', 'a => 1', '(1', '1 + 2', 'not $']
LONG = ['$.where($ > 1).select($ * 2).take(3)', 'let(x => 1, y => [1, 2, 3]) -> $x + $y.len() * 2',
        "dict(a => 1, b => 'two').items().orderBy($[0])", '1 + + + 2 * (3 - -4) mod 5 >= 6 and not true or false',
        'f(1,, 2, a => 3)', "'unterminated + 1", '$.a.b.c.d.e.f.g[0][1][2]', '[1, 2, 3].select($ +) ', '{a => [1, {b => 2}]}',
        '$x.y?.z(1, 2).q =~ "a+" and $1 !~ \'b\'', '1 2 3 4 5 6 7 8', '((((((1))))))', '((((((1)))))']


def generate():
    return pyfacts.run(['Engine'])['Engine']


def make_engine():
    import yaql
    return yaql.YaqlFactory().create()


_fresh_cache = {}
_ref = dict(engine=None, history=[])
STRICT = set(SHORT + LONG)


def fresh_strict(text):
    """the outcome of `text` on an engine created for this one parse"""
    return treeutil.parse_outcome(make_engine(), text)


def fresh(text):
    """what `text` gives when parsed alone.  For the fixed texts: on an engine created for this one parse.  For the
    thousands of generated texts an engine costs too much each: they go one after another through a reference engine that
    nothing else uses and that is replaced every 200 texts; whenever an outcome under test differs from this reference the
    verdict is taken against a really fresh engine (`confirm`), so a failure is always 'differs from a fresh engine'."""
    if text not in _fresh_cache:
        if text in STRICT:
            _fresh_cache[text] = fresh_strict(text)
        else:
            if _ref['engine'] is None or len(_ref['history']) >= 200:
                _ref['engine'], _ref['history'] = make_engine(), []
            _ref['history'].append(text)
            _fresh_cache[text] = treeutil.parse_outcome(_ref['engine'], text)
    return _fresh_cache[text]


def confirm(text, res):
    """called when an outcome under test differs from fresh(text): make sure fresh(text) is what a really fresh engine
    gives (else the REFERENCE engine depended on its history: that is a failure of its own, reported here)"""
    strict = fresh_strict(text)
    if strict != _fresh_cache.get(text, strict):
        hist = list(_ref['history'])
        k = hist.index(text) if text in hist else len(hist) - 1
        hist = hist[:k + 1]
        small = hist
        for n in (1, 2, 4, 8, 16, 32, 64, 128):       # the shortest recent history that still shows it
            e = make_engine()
            outs = [treeutil.parse_outcome(e, t) for t in hist[-n - 1:]]
            if outs[-1] != strict:
                small = hist[-n - 1:]
                break
        res.fail('oracle', 'history-dependence', 'parse of %r on an engine that parsed %d other texts before gave %r, a '
                 'fresh engine gives %r' % (text, len(small) - 1, _fresh_cache[text], strict), dict(kind='history', texts=small))
        _fresh_cache[text] = strict
    return strict


def install_points(get_sched):
    from ply import lex
    orig = lex.Lexer.token

    def token(self):
        s = get_sched()
        if s is not None:
            s.point()
        return orig(self)
    lex.Lexer.token = token
    return lambda: setattr(lex.Lexer, 'token', orig)


def count_steps(engine, text):
    """number of scheduling points a parse of `text` passes (1 initial + token fetches)"""
    from ply import lex
    n = [0]
    orig = lex.Lexer.token

    def token(self):
        n[0] += 1
        return orig(self)
    lex.Lexer.token = token
    try:
        treeutil.parse_outcome(engine, text)
    finally:
        lex.Lexer.token = orig
    return n[0] + 1


def token_class(tok, data):
    """the class of one fetched token, as fine as the lexer's own vocabulary: one class per operator symbol / bracket /
    comma, one per literal kind (integer and decimal numerals, the three quote styles, bare and named `$`, words, calls,
    each keyword constant), end of input, and 'a lexical error was raised by this fetch'"""
    if tok is None:
        return 'EOF'
    ty = tok.type
    if ty == 'NUMBER':
        return 'NUMBER:' + type(tok.value).__name__
    if ty == 'QUOTED_STRING':
        return 'STRING:' + data[tok.lexpos:tok.lexpos + 1]
    if ty == 'DOLLAR':
        return 'DOLLAR:' + ('bare' if tok.value == '$' else 'named')
    if ty in ('KEYWORD_STRING', 'FUNC', 'TRUE', 'FALSE', 'NULL'):
        return ty
    return 'OP:' + str(tok.value)


_stream_cache = {}
_stream_engine = []


def fetch_stream(text):
    """classes of the tokens a parse of `text` fetches, in order, when nothing else runs (on an engine kept for this
    purpose); the parse passes len(stream) + 1 scheduling points.  Only used to aim schedules and to account coverage."""
    if text in _stream_cache:
        return _stream_cache[text]
    from ply import lex
    out = []
    orig = lex.Lexer.token

    def token(self):
        try:
            t = orig(self)
        except Exception:       # noqa - the fetch itself raised (a lexical error)
            out.append('LEXERR')
            raise
        out.append(token_class(t, self.lexdata))
        return t
    if not _stream_engine:
        _stream_engine.append(make_engine())      # used for nothing else, one text after another
    lex.Lexer.token = token
    try:
        treeutil.parse_outcome(_stream_engine[0], text)
    finally:
        lex.Lexer.token = orig
    _stream_cache[text] = out
    return out


def vocabulary():
    """spellings of every token class of the live default grammar: every operator symbol of the factory's operator list,
    brackets and comma, and one spelling per literal kind; -> (atoms, classes spelled, ply token types never produced)"""
    import yaql
    fac = yaql.YaqlFactory()
    atoms = []
    for r in fac.operators:
        if len(r) > 1:
            atoms.append({'[]': '[', '{}': '{'}.get(r[0], r[0]))
    atoms += [']', '}', '(', ')', ',', '1', '1.5', 'a', 'true', 'false', 'null', '$', '$x', "'s'", '"d"', '`v`', 'f(',
              '#', '__x']
    atoms = list(dict.fromkeys(atoms))
    lx = fac.create().lexer
    classes, types = [], set()
    for a in atoms:
        c = lx.clone()
        c.input(a)
        try:
            t = c.token()
        except Exception:       # noqa
            classes.append('LEXERR')
            continue
        types.add(t.type)
        classes.append(token_class(t, a))
    classes = list(dict.fromkeys(classes + ['EOF']))
    declared = set(getattr(lx, 'lextokens_all', None) or lx.lextokens) | set(lx.lexliterals or ())
    return atoms, classes, sorted(declared - types)


VALUE_ATOMS = ['1', '1.5', 'a', 'true', 'false', 'null', '$', '$x', "'s'", '"d"', '`v`']
TWIN_ATOMS = ['2', '2.5', 'b', 'false', 'true', 'null', '$y', '$', "'t'", '"e"', '`w`']      # the same classes, other values
FORMS = ['%s', '%s %s', '%s %s %s', 'f(%s)', 'f(%s, %s)', '[%s, %s]', '{%s => %s}', '$.%s', '$?.%s', '%s.%s', '%s.f(%s)',
         '(%s)', '%s[%s]', 'f(a => %s)', '- %s', 'not %s']


def text_pool(rng, atoms, n_random):
    """short texts over the whole vocabulary: every atom alone, every ordered pair of atoms, and random fillings of
    small grammatical forms with atoms (so that every token class is also fetched deep inside valid texts)"""
    texts = list(atoms)
    texts += [a + ' ' + b for a in atoms for b in atoms]
    for _ in range(n_random):
        f = rng.choice(FORMS)
        k = f.count('%s')
        fill = tuple(rng.choice(atoms) if rng.random() < 0.5 else rng.choice(VALUE_ATOMS) for _ in range(k))
        texts.append(f % fill)
    for a in atoms:
        for f in FORMS:
            k = f.count('%s')
            for slot in range(k):
                fill = [rng.choice(VALUE_ATOMS) for _ in range(k)]
                fill[slot] = a
                texts.append(f % tuple(fill))
    return list(dict.fromkeys(texts))


class PairCoverage:
    """which token classes met at a thread switch: `cross[X][Y]` = Y was fetched by one parse directly after ANOTHER parse
    of the same engine fetched X; `sandwich[(X, Y)]` = one parse fetched X and then Y with fetches of another parse in between"""

    def __init__(self, classes):
        self.classes = list(classes)
        self.cross = set()
        self.sandwich = set()

    def note(self, texts, trace):
        seen = [0] * len(texts)
        last = None                 # (thread, class) of the globally previous fetch
        own_prev = [None] * len(texts)      # (class, foreign fetch since?)
        for i in trace:
            r = seen[i]
            seen[i] += 1
            if r == 0:
                continue            # the release that starts the parse (runs up to its first fetch)
            st = fetch_stream(texts[i])
            if r - 1 >= len(st):
                continue
            c = st[r - 1]
            if last is not None and last[0] != i:
                self.cross.add((last[1], c))
            if own_prev[i] is not None and own_prev[i][1]:
                self.sandwich.add((own_prev[i][0], c))
            own_prev[i] = [c, False]
            for j in range(len(texts)):
                if j != i and own_prev[j] is not None:
                    own_prev[j][1] = True
            last = (i, c)

    def report(self, reachable):
        cl = self.classes
        want = [(x, y) for x in cl for y in cl if x in reachable and y in reachable and x != 'LEXERR']
        missing = [p for p in want if p not in self.cross]
        return dict(classes=cl, cross_pairs_wanted=len(want), cross_pairs_hit=len(want) - len(missing),
                    cross_pairs_missing=['%s -> %s' % p for p in missing[:20]],
                    sandwiched_bigrams=len(self.sandwich),
                    matrix={x: ''.join('#' if (x, y) in self.cross else '.' for y in cl) for x in cl})


STYLES = ['plain', 'options', 'copy']
# pairs of entry points for two concurrent parses: every combination (6 x 6), those through the same kind of object first
STYLE_PAIRS = [(a, b) for a in STYLES + ['iface', 'iface-on', 'iface-on-early'] for b in STYLES + ['iface', 'iface-on', 'iface-on-early']]


def styled(engine, style):
    """the ways a host reaches one engine's parser: engine(text), engine(text, options=...) and a
    copy() of the engine - all of them share the engine's lexer and parser objects"""
    if style == 'options':
        return lambda text: engine(text, options={'yaql.limitIterators': 1000})
    if style == 'copy':
        return engine.copy({'yaql.memoryQuota': 100000})
    return engine


# ---- how a parse is requested: every public entry point that parses a text with (a lexer / parser of) one engine
IFACE_STYLES = ['iface', 'iface-on', 'iface-on-early']
ALL_STYLES = STYLES + IFACE_STYLES
DATA = {'a': 1, 'b': [1, 2, 3], 'c': {'d': 'x'}, 'true': 5}
_HEX = re.compile(r'0x[0-9a-fA-F]+')
_entries = {}


def eval_outcome(call, text):
    """what a caller of an evaluating entry point observes: the value, the parsing error, or any other exception"""
    from yaql.language import exceptions
    try:
        return ['val', repr(call(text))]
    except exceptions.YaqlParsingException as e:
        return ['err', type(e).__name__, e.position, str(e)]
    except Exception as e:      # noqa
        return ['exc', type(e).__name__, _HEX.sub('0x?', str(e))[:200]]


class Entries:
    """`YaqlInterface` objects on one engine: the root interface, interfaces derived with on(receiver) BEFORE the root
    evaluated anything, and interfaces derived AFTER its first evaluation"""

    def __init__(self, engine):
        import yaql
        from yaql import yaql_interface
        self.root = yaql_interface.YaqlInterface(yaql.create_context(), engine)
        self.early = [self.root.on(i) for i in range(3)]
        self.root('1 + 1')
        self.late = [self.root.on(i) for i in range(3)]

    def interface(self, style, i):
        return self.root if style == 'iface' else (self.late if style == 'iface-on' else self.early)[i % 3]


def entries(engine):
    if id(engine) not in _entries:
        _entries[id(engine)] = (engine, Entries(engine))
    return _entries[id(engine)][1]


def request(engine, style, i, text):
    """have `engine` parse `text` the way `style` says (thread / position i); -> the observable outcome"""
    if style in IFACE_STYLES:
        iface = entries(engine).interface(style, i)
        return eval_outcome(lambda t: iface(t, DATA), text)
    if style == 'yaql.eval':
        import yaql
        return eval_outcome(lambda t: yaql.eval(t, DATA), text)
    return treeutil.parse_outcome(styled(engine, style), text)


_ref_iface = {}
_ref_eval_cache = {}


def expected(style, text):
    """the outcome of the same request when nothing else happens: on a fresh engine (trees), through a reference
    interface used strictly sequentially (evaluating entry points; re-judged against a fresh engine by `confirm_eval`)"""
    if style in IFACE_STYLES or style == 'yaql.eval':
        if text not in _ref_eval_cache:
            if not _ref_iface or _ref_iface['n'] >= 200:
                _ref_iface.update(e=Entries(make_engine()), n=0)
            _ref_iface['n'] += 1
            _ref_eval_cache[text] = eval_outcome(lambda t: _ref_iface['e'].root(t, DATA), text)
        return _ref_eval_cache[text]
    return fresh(text)


def confirm_expected(style, text, res):
    if style in IFACE_STYLES or style == 'yaql.eval':
        strict = eval_outcome(lambda t: Entries(make_engine()).root(t, DATA), text)
        if strict != _ref_eval_cache.get(text, strict):
            res.fail('oracle', 'history-dependence', 'YaqlInterface(..)(%r) on an interface that evaluated other texts before '
                     'gave %r, a fresh engine and interface give %r' % (text, _ref_eval_cache[text], strict),
                     dict(kind='history', texts=[text]))
            _ref_eval_cache[text] = strict
        return strict
    return confirm(text, res)


def run_schedule(engine, texts, schedule, cur, styles=None):
    styles = styles or ['plain'] * len(texts)
    for st in styles:
        if st in IFACE_STYLES:
            entries(engine)             # interfaces are made before the threads start
    s = sched.Scheduler([(lambda t=t, st=st, i=i: request(engine, st, i, t))
                         for i, (t, st) in enumerate(zip(texts, styles))])
    cur[0] = s
    try:
        results = s.run(schedule)
    finally:
        cur[0] = None
    return s, results


def run(env, res):
    tier = env['tier']
    rng = common.make_rng(env['seed'], 'C01')
    res.rule = ('(a) orders of text multisets on one engine vs fresh engines; (b) token-fetch interleavings of 2-3 '
                'real threads on one engine (exhaustive for short texts, random for long); distinct = distinct '
                '(texts, order/schedule); non-trivial = at least two different texts, one of them invalid or the '
                'schedule switches threads at least twice')
    stats = dict(histories=0, schedules_exhaustive=0, schedules_random=0, stress_parses=0, invalid_texts=0,
                 eval_cache_parses=0)

    if env['replay']:
        rp = json.load(open(env['replay']))['case']
        cases = [rp]
    else:
        cases = None

    def report(kind, key, what, case):
        res.fail(kind, key, what, case)

    # ---------------------------------------------------------------- (a) histories
    engine = make_engine()
    n_hist = 150 if tier == 'quick' else 3000
    pool = SHORT + LONG
    if cases is None:
        hist_cases = []
        # every order of small multisets, then random longer histories
        for combo in itertools.islice(itertools.combinations(range(len(SHORT)), 3), 40 if tier == 'quick' else 364):
            for perm in itertools.permutations(combo):
                hist_cases.append([SHORT[i] for i in perm])
        for _ in range(n_hist):
            hist_cases.append([rng.choice(pool) for _ in range(rng.randrange(2, 13))])
    else:
        hist_cases = [c['texts'] for c in cases if c.get('kind') == 'history']
    hist_styles = [c.get('style', 'plain') for c in cases if c.get('kind') == 'history'] if cases is not None else None
    for k_hist, texts in enumerate(hist_cases):
        # the history goes through one of the entry points (a third of them through the engine itself)
        sty = hist_styles[k_hist] if hist_styles else (['plain', 'plain'] + ALL_STYLES)[k_hist % 8]
        stats['entry:' + sty] = stats.get('entry:' + sty, 0) + 1
        outs = [request(engine, sty, j, t) for j, t in enumerate(texts)]
        stats['histories'] += 1
        stats['invalid_texts'] += sum(1 for t in texts if fresh(t)[0] != 'ok')
        res.case(('h', tuple(texts)), nontrivial=len(set(texts)) > 1 and any(fresh(t)[0] != 'ok' for t in texts),
                 sample=dict(kind='history', texts=texts) if stats['histories'] <= 2 else None)
        for i, (t, o) in enumerate(zip(texts, outs)):
            if o != expected(sty, t) and o != confirm_expected(sty, t, res):
                report('oracle', 'history-dependence',
                       'parse #%d of %r on a reused engine (entry point %s) gave %r, a fresh engine gives %r (history %r)' % (
                           i, t, sty, o, expected(sty, t), texts[:i]), dict(kind='history', texts=texts[:i + 1], style=sty))
                break
        if res.failures:
            break

    # ---------------------------------------------------------------- (b) schedules
    cur = [None]
    uninstall = install_points(lambda: cur[0])
    try:
        engine = make_engine()
        atoms, classes, unspelled = vocabulary()
        cover = PairCoverage(classes)
        gen_texts = text_pool(common.make_rng(env['seed'], 'C01-pool'), atoms, 400 if tier == 'quick' else 3000)

        class Steps(dict):
            def __missing__(self, t):
                self[t] = len(fetch_stream(t)) + 1
                return self[t]
        steps = Steps()

        def check_case(texts, schedule, exhaustive, styles=None, family=None):
            s, results = run_schedule(engine, texts, schedule, cur, styles)
            if hasattr(s, 'trace'):
                cover.note(texts, s.trace)
            if family:
                stats[family] = stats.get(family, 0) + 1
            for sty_ in styles or ():
                stats['entry:' + sty_] = stats.get('entry:' + sty_, 0) + 1
            switches = sum(1 for a, b in zip(s.trace, s.trace[1:]) if a != b) if hasattr(s, 'trace') else 0
            res.case(('s', tuple(texts), tuple(schedule), tuple(styles or ())), nontrivial=len(set(texts)) > 1 and switches >= 2,
                     sample=dict(kind='schedule', texts=texts, schedule=schedule, styles=styles)
                     if (stats['schedules_exhaustive'] + stats['schedules_random']) < 2 else None)
            stats['schedules_exhaustive' if exhaustive else 'schedules_random'] += 1
            if s.hung:
                report('oracle', 'hang', 'threads did not finish under schedule %r for texts %r' % (schedule, texts),
                       dict(kind='schedule', texts=texts, schedule=schedule, styles=styles))
                return False
            for i, t in enumerate(texts):
                sty = (styles or ['plain'] * len(texts))[i]
                want = ('ret', expected(sty, t))
                if results[i] != want:
                    want = ('ret', confirm_expected(sty, t, res))
                if results[i] != want:
                    report('oracle', 'interference',
                           'thread %d parsing %r under schedule %r (other texts %r) got %r; alone on a fresh engine: %r'
                           % (i, t, s.trace, texts, results[i], want[1]) + (' call styles %r' % (styles,) if styles else ''),
                           dict(kind='schedule', texts=texts, schedule=s.trace, styles=styles))
                    return False
            return True

        if cases is not None:
            for c in cases:
                if c.get('kind') == 'schedule':
                    check_case(c['texts'], c['schedule'], False, c.get('styles'))
        elif not res.failures:
            # (b1) DIRECTED: every ordered pair (X, Y) of token classes of the vocabulary meets at a switch point - one parse
            # fetches X, the very next fetch on the engine is Y by another parse (each class carried by a text drawn from
            # the generated pool, at whatever depth of the text it occurs), the remainder of both parses interleaved at
            # random.  So whatever one token fetch leaves behind for the next one - for whichever pair of token kinds - is
            # seen by a parse it does not belong to.
            carriers = {}
            for t in gen_texts:
                for idx, c in enumerate(fetch_stream(t)):
                    lst = carriers.setdefault(c, [])
                    if len(lst) < 60 or rng.random() < 0.05:
                        lst.append((t, idx))
            reachable = set(carriers)
            rounds = 1 if tier == 'quick' else 4
            order = [(x, y) for x in classes for y in classes if x in reachable and y in reachable and x != 'LEXERR']
            for rnd in range(rounds):
                rng.shuffle(order)
                for n_pair, (x, y) in enumerate(order):
                    if res.failures:
                        break
                    ta, p_ = rng.choice(carriers[x])
                    tb, q_ = rng.choice(carriers[y])
                    head = [0] * (p_ + 1) + [1] * (q_ + 1) + [0, 1]
                    rest = [0] * max(0, steps[ta] - p_ - 2) + [1] * max(0, steps[tb] - q_ - 2)
                    texts = [ta, tb]
                    if rnd % 2 == 1 and n_pair % 3 == 0:       # a third parse running along once X and Y have met
                        tc = rng.choice(gen_texts)
                        texts.append(tc)
                        rest += [2] * steps[tc]
                    rng.shuffle(rest)
                    schedule = head + rest
                    check_case(texts, schedule, False, list(STYLE_PAIRS[n_pair % len(STYLE_PAIRS)]) + ['plain'] * (len(texts) - 2),
                               family='schedules_directed_pairs')
            # (b1') VALUE TWINS: pairs of short texts that are fillings of the small grammatical forms, most of them valid (so
            # that every kind of reduction runs, and more than one per text), where the second text spells the same token
            # classes with OTHER values (`2` for `1`, `$y` for `$x`, `g(` for `f(` ...): whatever one parse leaves behind between
            # two of its reductions - not only between two fetches - shows in the other's tree.  Random interleavings.
            def form_text(values, rename):
                for _ in range(6):
                    f = rng.choice(FORMS)
                    t = (f.replace('f(', 'g(').replace('a =>', 'b =>') if rename else f) % tuple(
                        rng.choice(values) for _ in range(f.count('%s')))
                    if fresh(t)[0] == 'ok' or rng.random() < 0.15:
                        return t
                return t
            for n_tw in range(4000 if tier == 'quick' else 12000):
                if res.failures:
                    break
                if n_tw % 2 == 0:
                    ta, tb = form_text(VALUE_ATOMS, False), form_text(TWIN_ATOMS, True)
                    texts = [ta, tb] if n_tw % 4 else [tb, ta]
                    # the second parse runs from start to end between two steps of the first (a random cut) ...
                    cut = rng.randrange(1, max(2, steps[texts[0]]))
                    schedule = [0] * cut + [1] * steps[texts[1]] + [0] * (steps[texts[0]] - cut)
                else:
                    # ... and the same pair freely interleaved
                    schedule = [i for i, t in enumerate(texts) for _ in range(steps[t])]
                    rng.shuffle(schedule)
                check_case(texts, schedule, False, list(STYLE_PAIRS[(n_tw // 2) % len(STYLE_PAIRS)]), family='schedules_value_twins')
            # (b2) exhaustive: 2 threads x short texts (the fixed ones and generated ones that together spell every class)
            short_gen = []
            uncovered = set(reachable)
            for t in sorted(gen_texts, key=lambda t: (steps[t], t)):
                st = set(fetch_stream(t))
                if steps[t] <= 5 and st & uncovered:
                    short_gen.append(t)
                    uncovered -= st
            short_all = list(dict.fromkeys(SHORT + short_gen))
            pairs = list(itertools.product(short_all, short_all))
            rng.shuffle(pairs)
            budget = 2500 if tier == 'quick' else 80000
            done = 0
            for a, b in pairs:
                if done >= budget or res.failures:
                    break
                if steps[a] + steps[b] > (10 if tier == 'quick' else 12):
                    continue
                # all call-style pairs rotate over the text pairs (every style pair is hit many times)
                st = list(STYLE_PAIRS[(done // 7) % len(STYLE_PAIRS)])
                for schedule in sched.interleavings([steps[a], steps[b]]):
                    done += 1
                    if not check_case([a, b], schedule, True, st):
                        break
            # exhaustive: 3 threads x very short texts
            triples = [t for t in itertools.product(SHORT, repeat=3) if sum(steps[x] for x in t) <= (8 if tier == 'quick' else 9)]
            rng.shuffle(triples)
            for tr in triples[:6 if tier == 'quick' else 45]:
                if res.failures:
                    break
                for schedule in sched.interleavings([steps[x] for x in tr]):
                    if not check_case(list(tr), schedule, True):
                        break
            # random schedules over long texts, 2-3 threads; half of the texts are drawn from the whole vocabulary (token
            # soups and fillings of grammatical forms), the other half from the fixed pool
            def long_text():
                if rng.random() < 0.5:
                    return ' '.join(rng.choice(atoms) for _ in range(rng.randrange(3, 12)))
                parts = []
                for _ in range(rng.randrange(2, 5)):
                    f = rng.choice(FORMS)
                    parts.append(f % tuple(rng.choice(VALUE_ATOMS + atoms[:6]) for _ in range(f.count('%s'))))
                return (' %s ' % rng.choice(['+', 'and', '.', '?.', '->', '=', 'in', ','])).join(parts)
            for _ in range(300 if tier == 'quick' else 5000):
                if res.failures:
                    break
                k = rng.choice([2, 2, 3])
                texts = [rng.choice(pool) if rng.random() < 0.5 else long_text() for _ in range(k)]
                schedule = [i for i, t in enumerate(texts) for _ in range(steps[t])]
                rng.shuffle(schedule)
                check_case(texts, schedule, False, [rng.choice(ALL_STYLES + ['yaql.eval']) for _ in texts])
    finally:
        uninstall()

    # ---------------------------------------------------------------- (a') histories through the module-level yaql.eval cache
    if cases is None and not res.failures:
        import yaql
        ctx0 = yaql.create_context()
        want_cache = {}
        lits = ["'a b'", "'a  b'", "'a\tb'", '"a b"', "'A b'", "' a b'", "`a  b`", "'a b '", "'ab'"]
        forms = ['%s', '%s + %s', '[%s, %s]', '%s = %s', '  %s', '%s  ', 'len(%s)', '(%s)', '%s+%s', '[ %s,%s ]']
        variants = []
        for f in forms:
            k = f.count('%s')
            for _ in range(4):
                variants.append(f % tuple(rng.choice(lits) for _ in range(k)))
        variants += ['1 + 2', '1  +  2', '1+2', '$', ' $ ', '$.a', '$ .a', '1 + ', '1  + ', "'x", "'x '"]
        for _ in range(30 if tier == 'quick' else 600):
            seq = [rng.choice(variants) for _ in range(rng.randrange(2, 10))]
            stats['histories'] += 1
            res.case(('e', tuple(seq)), nontrivial=len(set(seq)) > 1)
            for i, t in enumerate(seq):
                def ev(f):
                    try:
                        return ['val', repr(f())]
                    except Exception as e:  # noqa
                        return ['err', type(e).__name__, str(e)]
                got = ev(lambda: yaql.eval(t, data={'a': 1}))
                if t not in want_cache:         # an engine of its own for every distinct text
                    want_cache[t] = ev(lambda: make_engine()(t).evaluate(data={'a': 1}, context=ctx0.create_child_context()))
                want = want_cache[t]
                stats['eval_cache_parses'] += 1
                if got != want:
                    report('oracle', 'history-dependence',
                           'yaql.eval(%r) after %r returned %r; a fresh engine gives %r' % (t, seq[:i], got, want),
                           dict(kind='eval-history', texts=seq[:i + 1]))
                    break
            if res.failures:
                break
        # one LONG history: many distinct texts through the same cache, every earlier text revisited at growing
        # distances (whatever bound a cache has, a text parsed long ago must still be read as itself)
        if not res.failures:
            meaning = {}
            for i in range(700):
                meaning['%d + %d' % (i, i * 7 % 13)] = i + i * 7 % 13
            for i in range(300):
                meaning["'s%d'" % i] = 's%d' % i
            many = list(meaning)
            rng.shuffle(many)
            seen_texts = []
            for step, t in enumerate(many[:400 if tier == 'quick' else 1000]):
                seen_texts.append(t)
                todo = [t]
                for back in (1, 2, 63, 64, 65, 127, 128, 129, 255, 256, 257, 511, 512, 513):
                    if step % 7 == 0 and back <= len(seen_texts) - 1:
                        todo.append(seen_texts[-1 - back])
                for u in todo:
                    try:
                        got = ['val', repr(yaql.eval(u))]
                    except Exception as e:  # noqa
                        got = ['err', type(e).__name__]
                    want = ['val', repr(meaning[u])]        # what the text spells (an integer sum / a string literal)
                    stats['eval_cache_parses'] += 1
                    if got != want:
                        report('oracle', 'history-dependence',
                               'yaql.eval(%r) after %d other texts went through the same cache returned %r; the text '
                               'spells %r' % (u, step, got, want), dict(kind='eval-long-history', step=step, text=u))
                        break
                if res.failures:
                    break
            stats['histories'] += 1

    # ---------------------------------------------------------------- (c) free-running stress (supporting)
    if cases is None and not res.failures:
        import yaql
        old = sys.getswitchinterval()
        sys.setswitchinterval(1e-6)
        try:
            engine = make_engine()
            bad = []
            nthreads, loops = (4, 150) if tier == 'quick' else (8, 1500)

            def worker(seed):
                r = common.make_rng(env['seed'], 'C01-stress-%d' % seed)
                for _ in range(loops):
                    t = r.choice(pool)
                    o = treeutil.parse_outcome(engine, t)
                    if o != fresh(t):
                        bad.append((t, o))
                        return
                    # the module-level yaql.eval() shares one cached engine between all callers
                    t2 = r.choice(['1 + 1', '[1, 2].len()', "'a' + 'b'", '2 * 3 + 1'])
                    try:
                        v = yaql.eval(t2)
                    except Exception as e:  # noqa
                        v = repr(e)
                    if v != {'1 + 1': 2, '[1, 2].len()': 2, "'a' + 'b'": 'ab', '2 * 3 + 1': 7}[t2]:
                        bad.append((t2, v))
                        return
            ths = [threading.Thread(target=worker, args=(i,)) for i in range(nthreads)]
            for t in ths:
                t.start()
            for t in ths:
                t.join()
            stats['stress_parses'] = nthreads * loops
            stats['eval_cache_parses'] += nthreads * loops
            if bad:
                t, o = bad[0]
                report('oracle', 'interference', 'free-running threads: parse of %r returned %r, fresh engine %r' % (
                    t, o, fresh(t) if t in _fresh_cache else None), dict(kind='stress', text=t))
        finally:
            sys.setswitchinterval(old)

    res.traces = stats['histories'] + stats['schedules_exhaustive'] + stats['schedules_random']
    res.extra['distribution'] = stats
    if 'cover' in dir():
        res.extra['histogram'] = dict(token_class_pairs_at_switch_points=cover.report(reachable if 'reachable' in dir() else set()),
                                      token_types_of_the_grammar_never_spelled=unspelled,
                                      generated_texts=len(gen_texts))
    res.extra['exhaustive'] = False
    res.extra['steps_per_text'] = {t: steps[t] for t in SHORT} if 'steps' in dir() else {}
    return res


LEVEL_TEXT = ('Lean 4 theorems, generic in the tokeniser and the LR automaton: with a per-parse lexer EVERY schedule of '
              'ANY number of concurrent parses leaves each parse exactly where it would be alone (perCall_isolated); on a '
              'shared lexer any parse whose steps are contiguous is unaffected by whatever was parsed before, including '
              'parses abandoned by an error (sequential_reuse); a shared lexer is not isolated (witness). The mode of the '
              'live engine is re-observed and re-proved per run (C01Gen.engine_mode, current_engine_isolated). The real '
              'code is run under a deterministic scheduler at token-fetch granularity (all interleavings for short texts, '
              'random for long, 2-3 threads), on histories in all orders, and free-running under a 1 us switch interval; '
              'every outcome is compared with a fresh engine. Round 5: state parked on the engine-wide rules objects is modelled '
              '(MachineR): harmless for every schedule iff no fetch reads it (rules_blind_isolated), invisible to sequential use when '
              'input() resets it (rules_reset_sequential), breaking isolation otherwise (lookbehind witnesses); schedules put every '
              'ordered pair of token classes of the live grammar at a switch point (coverage matrix in the evidence), pair texts that '
              'spell the same classes with other values, and request parses through every public entry point (engine, options=, copy, '
              'YaqlInterface root / on() early / on() late, yaql.eval); the lexer object per entry point is re-observed per run '
              '(C01Gen.all_entry_points_perCall).')
LEVEL_NOTE = ('partial: the atomic step is one Lexer.token call (the property\'s own granularity); that ply\'s token() and '
              'parse() touch no other shared mutable state is trusted and covered only by the schedule exploration and the '
              'stress run. Trusted: Lean kernel, harness/sched.py, the lexer-identity observation in harness/gens/engine.py.')
TECHNIQUE = 'Lean 4 proof (schedule induction, generic machine) + per-run generated mode theorem + systematic thread schedules'
DESIGN_REF = 'DESIGN.md section 5, C01'
