"""C10 - data round-trips and every result is finalised into plain data.

Correspondence (model: lean/Yaql/Model/Convert.lean, driver Drv/C10.lean):
 A. random Python-constructible values of every container kind the library handles (tuple, list,
    dict, FrozenDict, set, frozenset, generators, dict views, ordering objects - nested, as set
    elements and as dict keys) handed to `$` with yaql.convertInputData off, under the 4
    combinations of convertTuplesToLists x convertSetsToLists and several yaql.limitIterators;
 B. random host documents (JSON-like, and tuples / sets / generators / frozensets / views of such)
    through `$` with input conversion on (the round trip) - entering by `evaluate(data=doc)`, by
    `yaql.create_context(data=doc)` + `evaluate(context=..)`, by `YaqlInterface(ctx, engine)('$1', doc)`;
    half of the iterators, and 300 documents of their own (`gen_lazy_doc`), are LAZILY BUILT: generators that
    build a sub-document per item, zip / enumerate / map(list, ..) / dict.items() of a temporary - one-shot
    iterables, at the root and nested, whose items die as soon as the converter drops them;
 C. a pool of yaql expressions producing every kind of value the library returns, nested in each
    other; the unfinalised value is snapshotted with yaql.convertOutputData off and the model is
    asked what the finaliser makes of it.
Oracle (on the real code alone): a recursive type census of the result (only dict / list / tuple
iff tuple conversion is off / set iff set conversion is off / scalars), the result equals the
source with container kinds renamed (plain-Python transcription `py_rename`, `py_in` below), and
finalisation does not fail - except known finding K1 (TypeError unhashable raised inside
convert_output_data while a set / dict key is built from a container element).  The set-like dict views
(keys() / items(), of a builtin dict or a FrozenDict) are finalised into LISTS in iteration order under
every option combination (theorem views_finalise); a failure there is a violation, not K1.
 H. host histories (model: Model/HostHistory.lean, theorems Props/C10Hist.lean): one document object that the host changes
    in place (append, set key, nested, a sub-document replaced by an equal copy / by a different one, delete) or replaces,
    `$` evaluated on it with the SAME Statement object per engine, with fresh parses and through the provenances of
    harness/paths.py, under all option sets; contexts bound once (`yaql.create_context(data=doc)`,
    `ctx['$'] = convert_input_data(doc)`) and frozen copies kept by the host, evaluated later under several option sets;
    every result is changed by the host afterwards.  Oracle: each evaluation returns the canonical form of the document AS
    IT IS NOW - through a binding: as it was at bind time (doc-silent, modelled as implemented: a result that shows the
    current document instead is reported as a model mismatch, not as a violation)."""
import collections.abc
import copy
import itertools
import json
import sys
import time
import traceback
import zlib

import common
import paths
import values
from values import Host

import yaql
from yaql.language import exceptions as yexc
from yaql.language import utils as yutils
from yaql.standard_library import queries as yqueries

ID = 'C10'
LEAN_MODULES = ['Yaql.Props.C10', 'Yaql.Props.C10Hist', 'Yaql.Props.C10Ident', 'Yaql.Props.C10Opts']
REQUIRED_THEOREMS = ['Yaql.Props.C10.' + n for n in (
    'convOut_spec', 'plain', 'plain_root', 'plain_no_frozen_dict', 'succeeds_iff', 'succeeds_iff_lim',
    'outHashable_eq', 'fails_only_unhashable', 'total_partial', 'roundtrip', 'roundtrip_ext', 'roundtrip_only',
    'roundtrip_json', 'roundtrip_default', 'convIn_wf', 'current_fails', 'current_fails_full',
    'current_fails_unsatisfiable', 'k1_other_options', 'k1_roundtrip', 'views_finalise', 'views_finalise_of_dict',
    'views_documented', 'history_spec', 'roundtrip_history', 'roundtrip_history_default', 'memo_breaks_roundtrip',
    'convIn_identity_free', 'memo_sound', 'memo_sound_empty', 'memo_breaks_transient_items', 'engine_options_fixed',
    'later_updates_invisible', 'view_follows_the_host')]
TRUSTED = ['Python hashing modelled by the predicate `hashable` (list/dict/set/dict_keys/dict_items unhashable; '
           'tuples and FrozenDicts hash their content; iterators, values views and ordering objects hash by identity)',
           'set / dict de-duplication is not modelled: on every successful path the conversion of hash-position '
           'elements is injective (scalars and tuples of scalars), so no two elements can merge']
ASSUMPTIONS = ['host leaves are None/bool/int/float/str/opaque hashable objects',
               'lazy sequences are finite and their iteration raises nothing (errors raised by lambdas while the '
               'finaliser iterates are evaluation errors, not finalisation errors)',
               'a host frozenset is a generic iterable for convert_input_data (doc-silent, modelled as implemented)',
               'host histories: in-place mutation is a new content of the same document cell; `Statement`, `YaqlEngine` and '
               'contexts hold no conversion state (the model has none to hold; Memo is the contrasting design); '
               'yaql.create_context(data=doc) converts at bind time - a context bound earlier shows the OLD document '
               '(doc-silent, modelled as implemented)']

SETLIKE = ('set', 'fset', 'kview', 'iview')        # collections.abc.Set
VIEWS = ('kview', 'iview')                         # collections.abc.KeysView / ItemsView: finalised into lists
BUILDS_SET = ('set', 'fset')                       # finalised by building a set (unless sets become lists)
SEQ = ('tuple', 'list')
ALL_OPTS = [(True, False), (False, False), (True, True), (False, True)]     # (t2l, s2l); first = defaults


class Unknown(Exception):
    pass


# ----------------------------------------------------------------------------- codec

SRC = {}      # id(lazy object built by `build`) -> (kind, [element objects]); keeps the objects alive


def is_scalar_j(j):
    return j is None or isinstance(j, bool) or ('q' not in j and 'm' not in j)


def enc_scalar(v):
    if v is None or isinstance(v, bool):
        return v
    if isinstance(v, int):
        return {'i': str(v)}
    if isinstance(v, float):
        return {'f': values.fbits(v)}
    if isinstance(v, str):
        return {'s': [ord(c) for c in v]}
    if isinstance(v, Host):
        return {'h': v.n}
    raise Unknown(type(v).__name__)


def penc(v):
    """typed encoding of a Python object as the converters see it (exact types).  One-shot iterators
    are consumed unless they were made by `build` (then their recorded content is used)."""
    if v is None or isinstance(v, (bool, int, float, str, Host)):
        return enc_scalar(v)
    t = type(v)
    if id(v) in SRC:
        kind, items = SRC[id(v)][:2]
        if items is None:           # items that exist only while the host iterable is consumed: their recorded encoding
            return {'q': kind, 'l': SRC[id(v)][3]}
        return {'q': kind, 'l': [penc(x) for x in items]}
    if t is tuple:
        return {'q': 'tuple', 'l': [penc(x) for x in v]}
    if t is list:
        return {'q': 'list', 'l': [penc(x) for x in v]}
    if t is set:
        return {'q': 'set', 'l': [penc(x) for x in v]}
    if t is frozenset:
        return {'q': 'fset', 'l': [penc(x) for x in v]}
    if t is dict:
        return {'m': 'dict', 'l': [[penc(k), penc(x)] for k, x in v.items()]}
    if t is yutils.FrozenDict:
        return {'m': 'fdict', 'l': [[penc(k), penc(x)] for k, x in v.items()]}
    if t in (collections.abc.KeysView, type({}.keys())):
        return {'q': 'kview', 'l': [penc(x) for x in v]}
    if t in (collections.abc.ItemsView, type({}.items())):
        return {'q': 'iview', 'l': [penc(x) for x in v]}
    if t in (collections.abc.ValuesView, type({}.values())):
        return {'q': 'vview', 'l': [penc(x) for x in v]}
    if t is yqueries.OrderingIterable:
        return {'q': 'ordering', 'l': [penc(x) for x in v]}
    if isinstance(v, collections.abc.Iterator):
        return {'q': 'iter', 'l': [penc(x) for x in itertools.islice(v, 10000)]}
    raise Unknown(t.__module__ + '.' + t.__name__)


def dec_scalar(j):
    if j is None or isinstance(j, bool):
        return j
    (k, x), = j.items()
    if k == 'i':
        return int(x)
    if k == 'f':
        return values.bits2f(x)
    if k == 's':
        return ''.join(chr(c) for c in x)
    if k == 'h':
        return Host(x)
    raise ValueError(j)


def build(j, rng=None, memo=None):
    """JSON -> real Python object of exactly that kind (lazy kinds are registered in SRC).  Equal mutable
    sub-documents (list, dict) are sometimes one shared object: results and host data are DAGs, not only trees."""
    if is_scalar_j(j):
        return dec_scalar(j)
    pick = (lambda n: rng.randrange(n)) if rng else (lambda n: 0)
    memo = {} if memo is None else memo
    shareable = rng is not None and (j.get('m') == 'dict' or j.get('q') == 'list')
    if shareable:
        key = json.dumps(j, sort_keys=True)
        if key in memo and rng.random() < 0.5:
            return memo[key]
    if 'm' in j:
        pairs = [(build(k, rng, memo), build(v, rng, memo)) for k, v in j['l']]
        o = dict(pairs) if j['m'] == 'dict' else yutils.FrozenDict(pairs)
        if shareable:
            memo[key] = o
        return o
    k = j['q']
    if k == 'iter' and j.get('how') in FRESH_HOWS:
        return build_fresh(j)
    items = [build(x, rng, memo) for x in j['l']]
    if k == 'tuple':
        return tuple(items)
    if k == 'list':
        if shareable:
            memo[key] = items
        return items
    if k == 'set':
        return set(items)
    if k == 'fset':
        return frozenset(items)
    if k == 'iter':
        c = pick(4)
        o = ((x for x in items) if c == 0 else iter(list(items)) if c == 1 else
             map(lambda x: x, items) if c == 2 else itertools.chain(items))
        SRC[id(o)] = ('iter', items, o)
        return o
    if k == 'ordering':
        o = yqueries.OrderingIterable(list(items), None, None)      # no sort fields: the order is kept
        SRC[id(o)] = ('ordering', items, o)
        return o
    mk = (dict, yutils.FrozenDict)[pick(2)]
    if k == 'kview':
        return mk((x, None) for x in items).keys()
    if k == 'iview':
        return mk(items).items()
    if k == 'vview':
        o = mk(enumerate(items)).values()
        SRC[id(o)] = ('vview', items, o)
        return o
    raise ValueError(j)


# A host document need not be a finished object graph.  Hosts hand over generators that BUILD a sub-document per item, `zip` /
# `enumerate` / `map` objects, `dict.items()` of a temporary: one-shot iterables whose items come into being when they are
# pulled and DIE as soon as the consumer drops them (the next item is then often allocated at the same address).  `how`
# on an 'iter' node says how the host makes it; the content is the same as for an iterator over a finished list.
FRESH_HOWS = ('fresh-gen', 'fresh-map', 'zip', 'enumerate', 'items', 'map-list')


def _pairs_shape(items):
    return all((not is_scalar_j(x)) and x.get('q') == 'tuple' and len(x['l']) == 2 for x in items)


def fresh_how_ok(how, items):
    """does the content have the shape this kind of host iterable yields"""
    if how in ('zip', 'items'):
        if not _pairs_shape(items):
            return False
        if how == 'items':
            if not all(is_scalar_j(x['l'][0]) for x in items):
                return False
            try:
                return len({dec_scalar(x['l'][0]): 0 for x in items}) == len(items)      # distinct as dictionary keys
            except TypeError:
                return False
        return True
    if how == 'enumerate':
        return _pairs_shape(items) and all(x['l'][0] == {'i': str(i)} for i, x in enumerate(items))
    if how == 'map-list':
        return all((not is_scalar_j(x)) and x.get('q') == 'list' for x in items)
    return True


def build_fresh(j):
    """a host iterable that creates its items WHILE it is consumed; nothing keeps an item alive once the consumer has
    dropped it.  The recorded encoding of the content (`SRC`) comes from a copy built separately."""
    how, parts = j['how'], j['l']
    if not fresh_how_ok(how, parts):
        how = 'fresh-gen'
    enc_items = [penc(build(x)) for x in parts]
    if how == 'fresh-gen':
        o = (build(x) for x in parts)
    elif how == 'fresh-map':
        o = map(build, parts)
    elif how == 'zip':
        o = zip([build(x['l'][0]) for x in parts], [build(x['l'][1]) for x in parts])
    elif how == 'enumerate':
        o = enumerate([build(x['l'][1]) for x in parts])
    elif how == 'items':
        o = iter({build(x['l'][0]): build(x['l'][1]) for x in parts}.items())
    else:       # map-list
        o = map(list, [tuple(build(y) for y in x['l']) for x in parts])
    SRC[id(o)] = ('iter', None, o, enc_items)
    return o


def with_fresh(rng, j, p=0.5):
    """the same content, with the one-shot iterables in it made the way a host makes them (items built on the fly)"""
    if is_scalar_j(j):
        return j
    if 'm' in j:
        return dict(j, l=[[with_fresh(rng, k, p), with_fresh(rng, v, p)] for k, v in j['l']])
    out = dict(j, l=[with_fresh(rng, x, p) for x in j['l']])
    if j['q'] == 'iter' and rng.random() < p:
        hows = [h for h in FRESH_HOWS if fresh_how_ok(h, out['l'])]
        shaped = [h for h in hows if h not in ('fresh-gen', 'fresh-map')]
        out['how'] = rng.choice(shaped) if shaped and rng.random() < 0.7 else rng.choice(hows)
    return out


def gen_lazy_doc(rng, depth, top=True):
    """a host document that is - or contains - lazily built iterables of freshly made containers: a generator of
    records, zip / enumerate / dict.items() / map(list, ..) of sub-documents, at the root and nested"""
    def sub(d):
        return gen_doc(rng, d, False) if rng.random() < 0.6 else gen_lazy_doc(rng, d, False)
    n = rng.choice([2, 3, 3, 4, 6, 9])
    if depth <= 0:
        return enc_scalar(rng.choice(SCALARS))
    how = rng.choice(FRESH_HOWS) if (top or rng.random() < 0.6) else None
    if how is None:
        k = rng.choice(['list', 'dict', 'tuple'])
        if k == 'dict':
            return {'m': 'dict', 'l': [[enc_scalar('k%d' % i), sub(depth - 1)] for i in range(n)]}
        return {'q': k, 'l': [sub(depth - 1) for _ in range(n)]}

    def container(d):
        c = rng.choice(['list', 'dict', 'list', 'tuple'])
        m = rng.choice([0, 1, 1, 2, 3])
        if c == 'dict':
            return {'m': 'dict', 'l': [[enc_scalar(rng.choice(['a', 'b', 'id', 'n'])), sub(d - 1) if d > 1 else enc_scalar(rng.choice(SCALARS))]
                                       for _ in range(m)][:1 + rng.randrange(2)]}
        return {'q': c, 'l': [sub(d - 1) if d > 1 else enc_scalar(rng.choice(SCALARS)) for _ in range(m)]}
    if how in ('fresh-gen', 'fresh-map'):
        items = [container(depth) for _ in range(n)]
    elif how == 'zip':
        items = [{'q': 'tuple', 'l': [enc_scalar(rng.choice(SCALARS)) if rng.random() < 0.5 else container(depth), container(depth)]}
                 for _ in range(n)]
    elif how == 'enumerate':
        items = [{'q': 'tuple', 'l': [enc_scalar(i), container(depth) if rng.random() < 0.7 else enc_scalar(rng.choice(SCALARS))]}
                 for i in range(n)]
    elif how == 'items':
        keys = rng.sample(['a', 'b', 'c', 'key', '', 'id', 'n', 1, 2, 7, None], min(n, 8))
        items = [{'q': 'tuple', 'l': [enc_scalar(k), container(depth) if rng.random() < 0.7 else enc_scalar(rng.choice(SCALARS))]}
                 for k in keys]
    else:
        items = [{'q': 'list', 'l': [enc_scalar(rng.choice(SCALARS)) for _ in range(rng.choice([0, 1, 2, 2]))]} for _ in range(n)]
    return {'q': 'iter', 'how': how, 'l': items}


# ----------------------------------------------------- plain-Python transcription of the documented meaning

def py_out_kind(k, t2l, s2l):
    if k in VIEWS:
        return 'list'           # documented: {a=>1, b=>2}.keys() -> ["a", "b"], .items() -> [["a", 1], ["b", 2]]
    if k in SETLIKE:
        return 'list' if s2l else 'set'
    if k in SEQ:
        return 'list' if t2l else k
    return 'list'


def py_rename(j, t2l, s2l):
    if is_scalar_j(j):
        return j
    if 'm' in j:
        return {'m': 'dict', 'l': [[py_rename(k, t2l, s2l), py_rename(v, t2l, s2l)] for k, v in j['l']]}
    return {'q': py_out_kind(j['q'], t2l, s2l), 'l': [py_rename(x, t2l, s2l) for x in j['l']]}


def py_hashshape(j, t2l):
    """converts to something hashable: a scalar, or (tuples kept) a tuple of such"""
    if is_scalar_j(j):
        return True
    return 'q' in j and j['q'] == 'tuple' and not t2l and all(py_hashshape(x, t2l) for x in j['l'])


def py_clean(j, t2l, s2l):
    if is_scalar_j(j):
        return True
    if 'm' in j:
        return all(py_clean(k, t2l, s2l) and py_clean(v, t2l, s2l) and py_hashshape(k, t2l) for k, v in j['l'])
    nh = j['q'] in BUILDS_SET and not s2l
    return all(py_clean(x, t2l, s2l) and (not nh or py_hashshape(x, t2l)) for x in j['l'])


def py_bounded(j, lim):
    if lim is None or is_scalar_j(j):
        return True
    if 'm' in j:
        return len(j['l']) <= lim and all(py_bounded(k, lim) and py_bounded(v, lim) for k, v in j['l'])
    return len(j['l']) <= lim and all(py_bounded(x, lim) for x in j['l'])


def py_in(j):
    """convert_input_data: Sequence -> tuple, Mapping -> FrozenDict, MutableSet -> frozenset, other iterables lazy"""
    if is_scalar_j(j):
        return j
    if 'm' in j:
        return {'m': 'fdict', 'l': [[py_in(k), py_in(v)] for k, v in j['l']]}
    k = j['q']
    return {'q': 'tuple' if k in SEQ else 'fset' if k == 'set' else 'iter', 'l': [py_in(x) for x in j['l']]}


def census(v, t2l, s2l, path='$'):
    """None if `v` is plain data, else a description of the first offending node (real object walk)"""
    if v is None or isinstance(v, (bool, int, float, str, Host)):
        return None
    t = type(v)
    if t is dict:
        for k, x in v.items():
            r = census(k, t2l, s2l, path + '.key') or census(x, t2l, s2l, path + '[%r]' % (k,))
            if r:
                return r
        return None
    if t is list or (t is tuple and not t2l) or (t is set and not s2l):
        for x in v:
            r = census(x, t2l, s2l, path + '[]')
            if r:
                return r
        return None
    return '%s at %s' % (t.__name__, path)


def max_len(v):
    if isinstance(v, dict):
        return max([len(v)] + [max(max_len(k), max_len(x)) for k, x in v.items()])
    if isinstance(v, (list, tuple, set, frozenset)):
        return max([len(v)] + [max_len(x) for x in v])
    return 0


def canon_sets(j):
    """sets sorted (set equality)"""
    if is_scalar_j(j):
        return j
    if 'm' in j:
        return {'m': j['m'], 'l': [[canon_sets(k), canon_sets(v)] for k, v in j['l']]}
    items = [canon_sets(x) for x in j['l']]
    if j['q'] in SETLIKE:
        items.sort(key=lambda t: json.dumps(t, sort_keys=True))
    return {'q': j['q'], 'l': items}


def py_rename_marked(j, t2l, s2l):
    """py_rename, with the lists that come from a Set marked: their order is the set's, i.e. unspecified"""
    if is_scalar_j(j):
        return j
    if 'm' in j:
        return {'m': 'dict', 'l': [[py_rename_marked(k, t2l, s2l), py_rename_marked(v, t2l, s2l)] for k, v in j['l']]}
    r = {'q': py_out_kind(j['q'], t2l, s2l), 'l': [py_rename_marked(x, t2l, s2l) for x in j['l']]}
    if j['q'] in BUILDS_SET:
        r['unordered'] = True     # (a list made from a dict view keeps the dictionary's order)
    return r


def matches(exp, got):
    """typed deep equality of an expected (marked) and an observed encoding; set-derived nodes unordered"""
    if is_scalar_j(exp) or is_scalar_j(got):
        return is_scalar_j(exp) and is_scalar_j(got) and exp == got
    if 'm' in exp:
        return 'm' in got and exp['m'] == got['m'] and len(exp['l']) == len(got['l']) and all(
            matches(a[0], b[0]) and matches(a[1], b[1]) for a, b in zip(exp['l'], got['l']))
    if 'q' not in got or exp['q'] != got['q'] or len(exp['l']) != len(got['l']):
        return False
    if not (exp.get('unordered') or exp['q'] == 'set'):
        return all(matches(a, b) for a, b in zip(exp['l'], got['l']))
    rest = list(got['l'])
    for a in exp['l']:
        for i, b in enumerate(rest):
            if matches(a, b):
                del rest[i]
                break
        else:
            return False
    return True


def show(j, depth=0):
    """compact rendering for samples / messages"""
    if is_scalar_j(j):
        return repr(dec_scalar(j))
    if 'm' in j:
        return '%s{%s}' % ('F' if j['m'] == 'fdict' else '', ', '.join('%s: %s' % (show(k), show(v)) for k, v in j['l']))
    return '%s(%s)' % (j['q'], ', '.join(show(x) for x in j['l']))


# ----------------------------------------------------------------------------- generators

SCALARS = [None, True, False, 0, 1, 2, -3, 7, 10 ** 20, 1.5, -0.0, float('inf'), '', 'a', 'bc', 'é', '\U0001d11e',
           Host(0), Host(1)]
HASH_KINDS = ['tuple', 'tuple', 'tuple', 'fset', 'iter', 'ordering', 'vview', 'fdict']
ANY_KINDS = ['tuple', 'tuple', 'list', 'list', 'set', 'fset', 'iter', 'iter', 'ordering', 'kview', 'iview', 'vview',
             'dict', 'dict', 'fdict', 'fdict']
DOC_KINDS = ['list', 'list', 'list', 'dict', 'dict']


def gen_value(rng, depth, hashable=False, p_scalar=0.3, key_scalar=0.6):
    """random Python-constructible value (JSON form).  `hashable`: usable as set element / dict key."""
    if depth <= 0 or rng.random() < p_scalar:
        return enc_scalar(rng.choice(SCALARS))
    k = rng.choice(HASH_KINDS if hashable else ANY_KINDS)
    n = rng.choice([0, 1, 1, 2, 2, 3, 4])

    def key():
        if rng.random() < key_scalar:
            return enc_scalar(rng.choice(SCALARS))
        return gen_value(rng, depth - 1, True, p_scalar)

    if k in ('dict', 'fdict'):
        return {'m': k, 'l': [[key(), gen_value(rng, depth - 1, hashable, p_scalar)] for _ in range(n)]}
    if k in ('set', 'fset', 'kview'):
        return {'q': k, 'l': [key() for _ in range(n)]}
    if k == 'iview':
        return {'q': k, 'l': [{'q': 'tuple', 'l': [key(), gen_value(rng, depth - 1, False, p_scalar)]} for _ in range(n)]}
    return {'q': k, 'l': [gen_value(rng, depth - 1, hashable and k == 'tuple', p_scalar) for _ in range(n)]}


def gen_doc(rng, depth, ext):
    """JSON-like document; ext: also tuples, sets, generators, frozensets, views of such"""
    if depth <= 0 or rng.random() < 0.3:
        return enc_scalar(rng.choice(SCALARS))
    kinds = DOC_KINDS + (['tuple', 'set', 'iter', 'fset', 'set', 'kview', 'vview'] if ext else [])
    k = rng.choice(kinds)
    n = rng.choice([0, 1, 2, 2, 3, 4])
    if k == 'dict':
        return {'m': 'dict', 'l': [[enc_scalar(rng.choice(['a', 'b', 'c', 'key', '', 1, 2] if ext else ['a', 'b', 'c', 'key', ''])),
                                    gen_doc(rng, depth - 1, ext)] for _ in range(n)]}
    if k in ('set', 'fset', 'kview'):
        def el():
            if rng.random() < 0.75:
                return enc_scalar(rng.choice(SCALARS))
            return {'q': 'tuple', 'l': [enc_scalar(rng.choice(SCALARS)) for _ in range(rng.randrange(3))]}
        return {'q': k, 'l': [el() for _ in range(n)]}
    return {'q': k, 'l': [gen_doc(rng, depth - 1, ext) for _ in range(n)]}


ENTRIES_B = ('evaluate', 'evaluate', 'create_context', 'iface')

# expression pool: (expression template, number of holes).  A hole is filled by another pool expression.
ATOMS = ['1', "'a'", 'null', 'true', '2.5',
         '[1, 2]', '[]', "list(1, 'a')",                                  # tuples
         '{a => 1}', '{}', 'dict(a => [1, 2], b => null)',                # frozen dicts
         'set(1, 2)', 'set()', '[1, 2, 1].toSet()',                       # frozensets
         '{a => 1}.keys()', '{a => 1, b => 2}.values()', '{a => 1}.items()',      # views of a FrozenDict
         '[1, 2].toDict($, $ + 1).keys()', '[1, 2].toDict($).values()', '[1, 2].toDict($).items()',   # of a builtin dict
         '[1, 2].toDict($)', '{a => 1}.mergeWith({b => 2})',              # builtin dicts
         '[1, 2, 3].splitAt(1)',                                          # a builtin list
         '[1, 2].select($ + 1)', '[1, 2, 3].where($ > 1)', 'range(3)', '[1, 2].skip(1)', '[3, 1].limit(1)',
         '[1, 2].zip([3, 4])', '[1, 1, 2].distinct()', '[1, 2].accumulate($1 + $2)', '[1, 2].reverse()',
         '[1].concat([2])', '[1].append(2)', '[[1], [2, [3]]].flatten()', '[1, 2].selectMany([$, $])',
         '[1, 2, 3].slice(2)', '[1, 2, 3].splitWhere($ = 2)', '[1, 2].cycle().limit(3)', '1.repeat(2)',
         'generate(1, $ < 4, $ + 1)', 'range(3).memorize()', '[1, 2].enumerate()', '[1,2,3].sliceWhere($ > 1)',
         '[1, 2].zipLongest([3])', '[1, 2].takeWhile($ < 2)', '[1, 2].skipWhile($ < 2)',
         'generateMany(1, [$ + 1].where($ < 4))', '[1, 2].defaultIfEmpty([3])', 'range(2).defaultIfEmpty([3])',
         '[2, 1].orderBy($)', '[2, 1, 3].orderByDescending($).thenBy($)',     # ordering objects
         '[1, 2, 1].groupBy($)', '[1, 2, 1].groupBy($, $ + 1, $.sum())',     # groupBy results
         "'a b'.split(' ')", "{a => {b => [1, {c => set(1)}]}}",
         # plain mutable lists / dicts made by the library, many of them in one lazy result
         '[1, 2].insert(0, 3)', '[1, 2, 3].delete(1)', '[[1], [2]].select($.insert(0, 0))',
         "['a b', 'c d', 'e f', 'g h'].select($.split(' '))", '[1, 2, 3, 4].select([$].toDict($))',
         "['a b', 'c d', 'e f'].toDict($, $.split(' '))"]
TEMPLATES = [('[H, H]', 2), ('[H]', 1), ('{k => H}', 1), ('{k => H, j => H}', 2), ('[H].toSet()', 1), ('set(H, 1)', 1),
             ('dict([[H, 1]])', 1), ('dict([[H, H]])', 2), ('[1, 2].select(H)', 1), ('{a => H}.values()', 1),
             ('{a => H}.items()', 1), ('dict([[H, 1]]).keys()', 1), ('dict([[H, 1]]).items()', 1),
             ('[H].orderBy(1)', 1), ('[1].toDict(H, $)', 1), ('[1].toDict($, H)', 1), ('[H, H].zip([1, 2])', 2),
             ('[H, 1].groupBy(1)', 1), ('[H].where(true)', 1), ('[H].toDict(1).values()', 1), ('[H, [H]]', 2),
             ('list(H, [H])', 2), ('[H].splitAt(0)', 1), ('[H].enumerate()', 1), ('[[H].toSet()].toSet()', 1),
             ('{a => [H].toSet()}', 1), ('[H].selectMany([$])', 1), ('[H].reverse()', 1),
             # one value in several places of the result (results are DAGs, not only trees)
             ('let(x => H) -> [$x, $x]', 1), ('let(x => H) -> {p => $x, q => [$x]}', 1), ('let(x => H) -> [[$x], {k => $x}, $x]', 1),
             ('let(x => H, y => H) -> [$x, $y, $x]', 2), ('[1, 2, 3, 4, 5].select(H)', 1)]


# examples of the docstrings of dict_keys / dict_values / dict_items (standard_library/collections.py) and the
# former K1 witnesses among the dict views: (expression, documented value under the default options)
DOCUMENTED = [('{"a" => 1, "b" => 2}.items()', [['a', 1], ['b', 2]]),
              ('{"a" => 1, "b" => 2}.keys()', ['a', 'b']),
              ('{"a" => 1, "b" => 2}.values()', [1, 2]),
              ('{a=>1}.items()', [['a', 1]]),
              ('{a=>1}.keys()', ['a']),
              ('[1, 2].toDict($, [$]).items()', [[1, [1]], [2, [2]]]),        # views of a builtin dict
              ('[1, 2].toDict($).keys()', [1, 2]),
              ('dict([[[1, 2], 3]]).keys()', [[1, 2]]),                       # the dict itself is K1, its views are not
              ('dict([[[1, 2], 3]]).items()', [[[1, 2], 3]])]


def gen_expr(rng, depth):
    if depth <= 0 or rng.random() < 0.35:
        return rng.choice(ATOMS)
    t, n = rng.choice(TEMPLATES)
    parts = t.split('H')
    out = parts[0]
    for i in range(n):
        out += '(' + gen_expr(rng, depth - 1) + ')' + parts[i + 1]
    return out


# ----------------------------------------------------------------------------- the real side

class Real:
    def __init__(self):
        self.factory = yaql.YaqlFactory()
        self.root = yaql.create_context()
        self.engines = {}
        self.host_opts = {}

    def engine(self, t2l, s2l, lim, conv_in, conv_out=True):
        key = (t2l, s2l, lim, conv_in, conv_out)
        if key not in self.engines:
            opts = {'yaql.convertTuplesToLists': t2l, 'yaql.convertSetsToLists': s2l,
                    'yaql.convertInputData': conv_in, 'yaql.convertOutputData': conv_out}
            if key[:2] == (True, False) and lim is None and conv_out:
                # the library defaults, left unset (so a flipped default shows)
                opts = {'yaql.convertInputData': conv_in}
            if lim is not None:
                opts['yaql.limitIterators'] = lim
            # the host builds all its engines from ONE option dict of its own, which it fills anew for every engine and goes
            # on changing afterwards ("options cannot be changed after the engine is created": the engine has its own copy)
            self.host_opts.clear()
            self.host_opts.update(opts)
            eng = self.factory.create(options=self.host_opts)
            self.host_opts.update({'yaql.convertTuplesToLists': not t2l, 'yaql.convertSetsToLists': not s2l,
                                   'yaql.convertInputData': not conv_in, 'yaql.convertOutputData': not conv_out})
            self.host_opts.pop('yaql.limitIterators', None)
            self.engines[key] = (eng, {})
        return self.engines[key]

    def evaluate(self, expr, data, t2l, s2l, lim, conv_in, conv_out=True, entry='evaluate'):
        eng, cache = self.engine(t2l, s2l, lim, conv_in, conv_out)
        if entry == 'create_context':
            # the host binds the document itself: `yaql.create_context(data=doc)` converts it at bind time
            ctx = yaql.create_context(data=data)
            return eng(expr).evaluate(context=ctx if zlib.crc32(expr.encode('utf8')) % 2 else ctx.create_child_context())
        if entry == 'iface':
            from yaql import yaql_interface
            return yaql_interface.YaqlInterface(self.root.create_child_context(), eng)(paths.iface_text(expr), data)
        # how the engine with these options came to be: built by the factory (half of the texts), or derived from a
        # base engine WITHOUT them that has parsed the same text before - engine.copy(options) / engine(text, options)
        via = zlib.crc32(expr.encode('utf8')) % 4
        if via in (2, 3) and conv_out:
            base, _ = self.engine(True, False, None, conv_in, True)     # the library defaults
            try:
                base(expr)
            except Exception:       # noqa
                pass
            opts = dict(eng.options)
            st = base.copy(opts)(expr) if via == 2 else base(expr, options=opts)
            opts.clear()            # (the host's dict again: emptied once the statement exists)
            return st.evaluate(data=data, context=self.root.create_child_context())
        st = cache.get(expr)
        if st is None:
            st = cache[expr] = eng(expr)
        return st.evaluate(data=data, context=self.root.create_child_context())


def classify_exc(e, tb):
    """('unhashable-finalize' | 'tooLarge' | 'other', description)"""
    frames = traceback.extract_tb(tb)
    inner = frames[-1] if frames else None
    where = '%s:%s' % (inner.filename.rsplit('/', 1)[-1], inner.name) if inner else '?'
    if isinstance(e, TypeError) and 'unhashable type' in str(e) and inner is not None \
            and inner.filename.endswith('language/utils.py') \
            and any(f.name == 'convert_output_data' for f in frames) \
            and any(f.name in ('finalize', 'stub') or (f.name == '__call__' and f.filename.endswith('yaql_interface.py'))
                    for f in frames):
        return 'unhashable-finalize', '%s: %s [%s]' % (type(e).__name__, e, where)
    if isinstance(e, yexc.CollectionTooLargeException):
        return 'tooLarge', '%s [%s]' % (type(e).__name__, where)
    return 'other', '%s: %s [%s]' % (type(e).__name__, e, where)


def run_real(real, expr, data, t2l, s2l, lim, conv_in, entry='evaluate'):
    try:
        r = real.evaluate(expr, data, t2l, s2l, lim, conv_in, entry=entry)
    except Exception as e:      # noqa
        return ('exc',) + classify_exc(e, sys.exc_info()[2])
    return ('ok', r)


def judge(res, case, raw_j, out, model, t2l, s2l, lim, hist):
    """raw_j: typed encoding of the value handed to the finaliser; out: run_real result; model: driver reply or None.
    Returns True when the case is fine (or a known finding)."""
    clean = py_clean(raw_j, t2l, s2l)
    bounded = py_bounded(raw_j, lim)
    tag = 'opts=%s lim=%s' % ((t2l, s2l), lim)
    if out[0] == 'exc':
        kind, desc = out[1], out[2]
        hist['real:' + kind] = hist.get('real:' + kind, 0) + 1
        if kind == 'unhashable-finalize' and not clean:
            hist['known:K1'] = hist.get('known:K1', 0) + 1
            if hist['known:K1'] <= 3:
                res.fail('oracle', 'unhashable-in-hash-position',
                         'finalisation of %s fails under %s: %s' % (show(raw_j), tag, desc), case)
        elif kind == 'tooLarge' and not bounded:
            pass            # refusing an oversized collection is what C08 asks for
        else:
            res.fail('oracle', 'finalize-failed', 'evaluation succeeded but finalisation of %s failed under %s: %s' % (
                show(raw_j), tag, desc), case)
            return False
        if model is not None:
            exp = 'unhashable' if kind == 'unhashable-finalize' else 'tooLarge'
            both = not clean and not bounded     # two faults: which is hit first depends on a set's iteration order
            if model.get('err') != exp and not (both and model.get('err') in ('unhashable', 'tooLarge')):
                res.fail('mismatch', 'model-error-class', 'finalising %s under %s: real %s, model %s' % (
                    show(raw_j), tag, desc, json.dumps(model)), case)
                return False
        return True
    r = out[1]
    hist['real:ok'] = hist.get('real:ok', 0) + 1
    bad = census(r, t2l, s2l)
    if bad:
        res.fail('oracle', 'leftover', 'result of finalising %s under %s is not plain data: %s (result %r)' % (
            show(raw_j), tag, bad, r), case)
        return False
    if lim is not None and max_len(r) > lim:
        res.fail('oracle', 'oversized-result', 'result of finalising %s under %s holds a collection of %d elements' % (
            show(raw_j), tag, max_len(r)), case)
        return False
    try:
        rj = penc(r)
    except Unknown as u:
        res.fail('oracle', 'leftover', 'result of finalising %s under %s holds a %s' % (show(raw_j), tag, u), case)
        return False
    exp = py_rename(raw_j, t2l, s2l)
    if not matches(py_rename_marked(raw_j, t2l, s2l), rj):
        case = dict(case, prio=0 if clean else 1)       # report first a case whose expectation is satisfiable
        res.fail('oracle', 'wrong-result', 'finalising %s under %s gave %s, expected the same content in canonical '
                 'container types %s' % (show(raw_j), tag, show(rj), show(exp)), case)
        return False
    if model is not None:
        if 'ok' not in model or model['ok'] != exp:
            res.fail('mismatch', 'model-result', 'finalising %s under %s: real %s, model %s' % (
                show(raw_j), tag, show(rj), json.dumps(model)), case)
            return False
    return True


def run_case(real, drv, res, case, hist):
    """one replayable case: mode A (value through `$`, input conversion off), B (document through `$`),
    C (expression).  Runs all option/limit combinations named in the case."""
    mode = case['mode']
    combos = case.get('combos') or [(o, l) for o in ALL_OPTS for l in case.get('lims', [None])]
    combos = [(tuple(o), l) for o, l in combos]
    ok = True
    reqs, runs = [], []
    for (t2l, s2l), lim in combos:
        if mode in ('A', 'B'):
            SRC.clear()
            obj = build(case['v'], common.make_rng(case.get('bseed', 0), 'build'))
            src_j = penc(obj)                      # what Python made of it (sets de-duplicated)
            raw_j = py_in(src_j) if mode == 'B' else src_j
            # how the document enters (mode B; all of these convert the input): `evaluate(data=doc)`, a context bound with
            # `yaql.create_context(data=doc)`, `YaqlInterface(ctx, engine)('$1', doc)`
            entry = case.get('entry', 'evaluate') if mode == 'B' else 'evaluate'
            hist['entry:' + entry] = hist.get('entry:' + entry, 0) + 1
            out = run_real(real, '$', obj, t2l, s2l, lim, conv_in=(mode == 'B'), entry=entry)
            reqs.append({'op': 'rt' if mode == 'B' else 'out', 't2l': t2l, 's2l': s2l, 'lim': lim, 'v': src_j})
        else:
            try:
                raw = real.evaluate(case['expr'], None, t2l, s2l, lim, True, conv_out=False)
                raw_j = penc(raw)
            except Unknown as u:
                res.fail('mismatch', 'unknown-kind', 'expression %s returns a %s, which the model does not know' % (
                    case['expr'], u), case)
                return False
            except Exception as e:     # evaluation itself fails: nothing to finalise
                hist['expr:eval-error'] = hist.get('expr:eval-error', 0) + 1
                hist.setdefault('expr_errors', {})
                hist['expr_errors'][type(e).__name__] = hist['expr_errors'].get(type(e).__name__, 0) + 1
                if isinstance(e, (yexc.NoFunctionRegisteredException, yexc.NoMatchingFunctionException,
                                  yexc.NoMatchingMethodException, yexc.NoMethodRegisteredException)):
                    hist.setdefault('expr_unresolved', [])
                    if len(hist['expr_unresolved']) < 5:
                        hist['expr_unresolved'].append('%s: %s' % (case['expr'], e))
                return None
            out = run_real(real, case['expr'], None, t2l, s2l, lim, True)
            reqs.append({'op': 'out', 't2l': t2l, 's2l': s2l, 'lim': lim, 'v': raw_j})
        runs.append((raw_j, out, t2l, s2l, lim))
    models = drv.ask({'p': 'C10', 'cases': reqs})['res'] if drv else [None] * len(reqs)
    for (raw_j, out, t2l, s2l, lim), m in zip(runs, models):
        one = dict(case, combos=[((t2l, s2l), lim)])
        one.pop('lims', None)
        if not judge(res, one, raw_j, out, m, t2l, s2l, lim, hist):
            ok = False
        elif 'expect' in case and ((t2l, s2l), lim) == (ALL_OPTS[0], None):
            # an example of the documentation: the value it states, under the default options
            exp = penc(case['expect'])
            got = penc(out[1]) if out[0] == 'ok' else None
            hist['documented-examples'] = hist.get('documented-examples', 0) + 1
            if got is None or not matches(exp, got):
                res.fail('oracle', 'documented-example', 'the documented example `%s` -> %r gives %s under the default options' % (
                    case['expr'], case['expect'], show(got) if got is not None else out[2]), one)
                ok = False
        res.traces += 1 if m is not None else 0
    if mode == 'B':
        # convert_input_data itself against the model and the transcription
        SRC.clear()
        obj = build(case['v'], common.make_rng(case.get('bseed', 0), 'build'))
        src_j = penc(obj)
        try:
            cj = penc(yutils.convert_input_data(obj))
        except Exception as e:      # noqa
            res.fail('oracle', 'input-failed', 'convert_input_data(%s) raised %r' % (show(src_j), e), case)
            return False
        if canon_sets(cj) != canon_sets(py_in(src_j)):
            res.fail('oracle', 'wrong-input-conversion', 'convert_input_data(%s) = %s, expected %s' % (
                show(src_j), show(cj), show(py_in(src_j))), case)
            return False
        if drv:
            mj = drv.ask({'p': 'C10', 'cases': [{'op': 'in', 'v': src_j}]})['res'][0].get('ok')
            if canon_sets(mj) != canon_sets(cj):
                res.fail('mismatch', 'model-input', 'convert_input_data(%s): real %s, model %s' % (
                    show(src_j), show(cj), show(mj)), case)
                return False
    return ok


def shrink_value(real, drv, case, key):
    """greedy structural shrinking of case['v'] keeping a failure with the same key"""
    def fails(c):
        r = common.Result()
        try:
            run_case(real, drv, r, dict(c), {})
        except Exception:
            return False
        return any(f.key == key for f in r.failures)

    def subterms(j):
        if is_scalar_j(j):
            return
        for i, x in enumerate(j['l']):
            if 'm' in j:
                yield x[0]
                yield x[1]
                yield {'m': j['m'], 'l': j['l'][:i] + j['l'][i + 1:]}
                for s in subterms(x[1]):
                    yield {'m': j['m'], 'l': j['l'][:i] + [[x[0], s]] + j['l'][i + 1:]}
                for s in subterms(x[0]):
                    yield {'m': j['m'], 'l': j['l'][:i] + [[s, x[1]]] + j['l'][i + 1:]}
            else:
                yield x
                yield {'q': j['q'], 'l': j['l'][:i] + j['l'][i + 1:]}
                for s in subterms(x):
                    yield {'q': j['q'], 'l': j['l'][:i] + [s] + j['l'][i + 1:]}

    cur = dict(case)
    steps = 0
    progress = True
    while progress and steps < 200:
        progress = False
        for cand in subterms(cur['v']):
            steps += 1
            c = dict(cur, v=cand)
            try:
                if fails(c):
                    cur = c
                    progress = True
                    break
            except Exception:
                pass
            if steps > 400:
                break
    return cur


# ------------------------------------------------------------------ D: one parsed statement, several kinds of context

REUSE_EXPRS = ['[1, 2].select($ + 1)', '{a => [1, 2]}', '{a => 1}.keys()', '{a => 1}.values()', '[2, 1].orderBy($)', 'set(1, 2)',
               '[1, 2, 1].groupBy($)', '[1, 2].zip([3, 4])', '$', 'dict([[[1, 2], 3]])', "'a'", '[[1, [2]]]', 'range(3)']


def bare_context():
    """a context with the whole standard library but without '#finalize' (the case Statement's fallback exists for)"""
    def no_finalizer_here(x):
        return x
    return yaql.create_context(finalizer=no_finalizer_here)


def observe(fn):
    try:
        r = fn()
    except Exception as e:      # noqa
        return ['exc', type(e).__name__]
    try:
        return ['ok', canon_sets(penc(r))]
    except Unknown as u:
        return ['ok', {'unknown': str(u)}]


def run_reuse(real, res, rng, tier, hist):
    std, bare = real.root, bare_context()
    patterns = ['FS', 'SF', 'FSF', 'SFS', 'FFS', 'SSF', 'FS' * 3]
    n = 0
    for (t2l, s2l) in ALL_OPTS:
        eng, _ = real.engine(t2l, s2l, None, True)
        for e in REUSE_EXPRS:
            for pat in (patterns if tier != 'quick' else rng.sample(patterns, 3)):
                data = {'k': [1, (2, 3), {4}]}
                st = eng(e)                         # parsed ONCE, evaluated against contexts of both kinds
                case = dict(mode='D', expr=e, pattern=pat, opts=[t2l, s2l])
                res.case('D' + common.digest(case), True, sample=case if n == 0 else None)
                n += 1
                for i, kind in enumerate(pat):
                    root = std if kind == 'S' else bare
                    got = observe(lambda: st.evaluate(data=data, context=root.create_child_context()))
                    fresh = observe(lambda: eng(e).evaluate(data=data, context=root.create_child_context()))
                    hist['D:' + got[0]] = hist.get('D:' + got[0], 0) + 1
                    if got != fresh:
                        res.fail('oracle', 'history-dependent-finalisation',
                                 'statement `%s` parsed once and evaluated against contexts %s (S = standard, F = without '
                                 '#finalize), options %s: evaluation %d gives %s, a freshly parsed statement gives %s' % (
                                     e, pat, (t2l, s2l), i + 1, json.dumps(got)[:200], json.dumps(fresh)[:200]), case)
                        break
                    if kind == 'S' and got[0] == 'ok':
                        r = st.evaluate(data=data, context=root.create_child_context())
                        bad = census(r, t2l, s2l)
                        if bad:
                            res.fail('oracle', 'leftover', 'statement `%s` evaluated against contexts %s: result of evaluation %d '
                                     'is not plain data: %s' % (e, pat, i + 1, bad), case)
                            break


# ------------------------------------------------------------------ H: the round trip along a host history

H_SCALARS = [None, True, 0, 2, 7, -3, 1.5, '', 'a', 'bc', 'é', 10 ** 20]
H_KEYS = ['a', 'b', 'c', 'k', 'id', 2, 5]
H_SET_ITEMS = ['x', 'y', 3, 4, 'zz']
H_PATHS = ('plain', 'reuse', 'copy', 'percall', 'ctxdata', 'iface')


def h_doc(rng, depth, top=False, ext=True):
    """a JSON-like document (lists, dicts with scalar keys, scalars; `ext`: now and then a tuple or a set of scalars);
    `top`: a non-empty list or dict, so that the host can change it in place"""
    r = rng.random()
    if not top and (depth <= 0 or r < 0.3):
        return rng.choice(H_SCALARS)
    if ext and not top and r < 0.38:
        return set(rng.sample(H_SET_ITEMS, rng.randrange(0, 3)))
    if ext and not top and r < 0.46:
        return tuple(h_doc(rng, depth - 1, ext=ext) for _ in range(rng.randrange(0, 3)))
    n = rng.randrange(1 if top else 0, 4)
    if r < 0.73:
        return [h_doc(rng, depth - 1, ext=ext) for _ in range(n)]
    return {k: h_doc(rng, depth - 1, ext=ext) for k in rng.sample(H_KEYS, n)}


def h_nodes(v, path='doc', out=None):
    """(python path, container) of every list / dict of the document, outermost first"""
    out = [] if out is None else out
    if type(v) is list:
        out.append((path, v))
        for i, x in enumerate(v):
            h_nodes(x, '%s[%d]' % (path, i), out)
    elif type(v) is dict:
        out.append((path, v))
        for k, x in v.items():
            h_nodes(x, '%s[%r]' % (path, k), out)
    return out


def h_mutate(doc, how, a, b, v):
    """one in-place change by the host (`a`, `b`: which container / which slot, taken modulo what there is; `v`: a new
    value); returns the line of Python it amounts to"""
    nodes = h_nodes(doc)
    if how == 'nested':
        path, node = nodes[len(nodes) // 2:][a % len(nodes[len(nodes) // 2:])]
        how = 'append'
    else:
        path, node = nodes[a % len(nodes)]
    slots = list(range(len(node))) if type(node) is list else list(node)
    if how in ('equal-copy', 'different', 'delete') and not slots:
        how = 'append'
    if how == 'equal-copy':
        sub = [k for k in slots if type(node[k]) in (list, dict, set, tuple)] or slots
        k = sub[b % len(sub)]
        node[k] = copy.deepcopy(node[k])
        return '%s[%r] = copy.deepcopy(%s[%r])' % (path, k, path, k)
    if how == 'different':
        k = slots[b % len(slots)]
        node[k] = v
        return '%s[%r] = %r' % (path, k, v)
    if how == 'delete':
        k = slots[b % len(slots)]
        del node[k]
        return 'del %s[%r]' % (path, k)
    if type(node) is list:
        if how == 'setkey' and slots:
            k = slots[b % len(slots)]
            node[k] = v
            return '%s[%d] = %r' % (path, k, v)
        node.append(v)
        return '%s.append(%r)' % (path, v)
    k = H_KEYS[b % len(H_KEYS)]
    node[k] = v
    return '%s[%r] = %r' % (path, k, v)


def h_scramble(r, depth=0):
    """the host changes a result it was handed (every mutable container of it)"""
    if depth > 30:
        return
    if type(r) is list:
        for x in r:
            h_scramble(x, depth + 1)
        del r[:]
        r.append('scrambled')
    elif type(r) is dict:
        for x in r.values():
            h_scramble(x, depth + 1)
        r.clear()
        r['scrambled'] = True
    elif type(r) is set:
        r.clear()
        r.add('scrambled')
    elif type(r) is tuple:
        for x in r:
            h_scramble(x, depth + 1)


def gen_history(rng, n):
    """a replayable host history: the initial document and operation descriptors (values as Python literals)"""
    ops = []
    for _ in range(n):
        r = rng.random()
        t2l, s2l = rng.choice(ALL_OPTS)
        if r < 0.28:
            how = rng.choice(['append', 'setkey', 'nested', 'equal-copy', 'different', 'delete', 'grow'])
            ops.append(['mutate', how, rng.randrange(1000), rng.randrange(1000), repr(h_doc(rng, 2 if how in ('grow', 'different') else 1))])
        elif r < 0.33:
            ops.append(['replace', 'copy'] if rng.random() < 0.5 else ['replace', 'new', repr(h_doc(rng, 3, top=True))])
        elif r < 0.45:
            ops.append(['bind', rng.choice(['create_context', 'ctxset', 'frozen', 'ctxset', 'frozen'])])
        elif r < 0.67:
            ops.append(['evalBound', rng.randrange(1000), t2l, s2l, rng.random() < 0.7, rng.random() < 0.5, rng.random() < 0.5])
        else:
            how = rng.choice(['same', 'same', 'same', 'fresh', 'paths', 'paths'])
            if how == 'paths':
                how = 'paths-' + rng.choice(H_PATHS)
            ops.append(['evaluate', t2l, s2l, rng.random() < 0.85, how])
    return dict(mode='H', d0=repr(h_doc(rng, 3, top=True)), ops=ops)


def run_history_case(real, drv, res, case, hist):
    """One host history: one document object that the host changes in place or replaces; `$` evaluated on it with the SAME
    Statement object per engine, with freshly parsed ones and through the provenances of harness/paths.py, under all
    option sets; contexts bound once (`yaql.create_context(data=doc)`, `ctx['$'] = convert_input_data(doc)`) or a frozen
    copy kept by the host, evaluated later under several option sets.  Oracle: every evaluation returns the canonical
    form of the document AS IT IS NOW (through a binding: as it was when bound), in plain types per the evaluating
    engine's options; every result is changed by the host afterwards, which must not show anywhere.  Returns True when
    nothing failed."""
    doc = eval(case['d0'], {'inf': float('inf')})       # noqa: S307 - our own literals
    lines = ['doc = %r' % (doc,)]
    d0 = penc(doc)
    ops, evals = [], []         # ops: for the model; evals: (index into ops, raw_j, out, t2l, s2l, what)
    stmts, pcache = {}, {}
    bound = []                  # (kind, object, encoding of the document at bind time)
    for step, op in enumerate(case['ops']):
        o = op[0]
        if o == 'mutate':
            lines.append(h_mutate(doc, op[1], op[2], op[3], eval(op[4], {'inf': float('inf')})))     # noqa: S307
            ops.append({'o': 'mutate', 'v': penc(doc)})
        elif o == 'replace':
            if op[1] == 'copy':
                doc = copy.deepcopy(doc)
                lines.append('doc = copy.deepcopy(doc)')
            else:
                doc = eval(op[2], {'inf': float('inf')})     # noqa: S307
                lines.append('doc = %r' % (doc,))
            ops.append({'o': 'replace', 'v': penc(doc)})
        elif o == 'bind':
            kind = op[1]
            if kind == 'create_context' and sum(1 for b in bound if b[0] == kind) >= 2:
                kind = 'ctxset'         # building a library context costs ~10 ms
            if kind == 'create_context':
                obj = yaql.create_context(data=doc)
                lines.append('b%d = yaql.create_context(data=doc)' % len(bound))
            elif kind == 'ctxset':
                obj = real.root.create_child_context()
                obj['$'] = yutils.convert_input_data(doc)
                lines.append("b%d = root.create_child_context(); b%d['$'] = utils.convert_input_data(doc)" % (len(bound), len(bound)))
            else:
                obj = yutils.convert_input_data(doc)
                lines.append('b%d = utils.convert_input_data(doc)' % len(bound))
            bound.append((kind, obj, penc(doc)))
            ops.append({'o': 'bind'})
            o = 'bind-' + kind
        elif o == 'evalBound':
            if not bound:
                continue
            i = op[1] % len(bound)
            t2l, s2l, ci, same, child = op[2:7]
            kind, obj, enc = bound[i]
            ci = ci and kind != 'frozen'        # a frozen copy goes through engines without input conversion
            eng, _ = real.engine(t2l, s2l, None, ci)
            st = stmts.setdefault((t2l, s2l, ci), eng('$')) if same else eng('$')
            tag = 'engine(t2l=%s, s2l=%s, convertInputData=%s)' % (t2l, s2l, ci)
            try:
                if kind == 'frozen':
                    lines.append("%s('$').evaluate(data=b%d)%s" % (tag, i, '  # the statement used before' if same else ''))
                    out = ('ok', st.evaluate(data=obj, context=real.root.create_child_context()))
                else:
                    lines.append("%s('$').evaluate(context=b%d%s)%s" % (tag, i, '.create_child_context()' if child else '',
                                                                      '  # the statement used before' if same else ''))
                    out = ('ok', st.evaluate(context=obj.create_child_context() if child else obj))
            except Exception as e:      # noqa
                out = ('exc',) + classify_exc(e, sys.exc_info()[2])
            ops.append({'o': 'evalBound', 'i': i, 't2l': t2l, 's2l': s2l})
            evals.append((len(ops) - 1, py_in(enc), out, t2l, s2l, 'the document as it was when b%d was bound' % i))
            o = 'evalBound-' + kind
        else:
            t2l, s2l, ci, how = op[1:5]
            eng, _ = real.engine(t2l, s2l, None, ci)
            tag = 'engine(t2l=%s, s2l=%s, convertInputData=%s)' % (t2l, s2l, ci)
            try:
                if how == 'same':
                    st = stmts.setdefault((t2l, s2l, ci), eng('$'))
                    lines.append("%s: the one statement `$` of this engine .evaluate(data=doc)" % tag)
                    out = ('ok', st.evaluate(data=doc, context=real.root.create_child_context()))
                elif how == 'fresh':
                    lines.append("%s('$').evaluate(data=doc)" % tag)
                    out = ('ok', eng('$').evaluate(data=doc, context=real.root.create_child_context()))
                else:
                    lines.append("%s: `$` on doc through host path %r (harness/paths.py)" % (tag, how[6:]))
                    out = ('ok', paths.evaluate(eng, real.root, '$', doc, allow=(how[6:],), statement_cache=pcache))
            except Exception as e:      # noqa
                out = ('exc',) + classify_exc(e, sys.exc_info()[2])
            ops.append({'o': 'evaluate', 'ci': ci, 't2l': t2l, 's2l': s2l})
            src = penc(doc)
            evals.append((len(ops) - 1, py_in(src) if ci else src, out, t2l, s2l, 'the document as it is now'))
            o = 'evaluate-' + how
        hist['H:' + o] = hist.get('H:' + o, 0) + 1
        if evals and evals[-1][0] == len(ops) - 1 and o.startswith('eval'):
            # judged now (the result is about to be changed by the host)
            idx, raw_j, out, t2l, s2l, what = evals[-1]
            r0 = common.Result()
            short = dict(case, ops=case['ops'][:step + 1])
            ok = judge(r0, short, raw_j, out, None, t2l, s2l, None, hist)
            for f in r0.failures:
                if f.key == 'unhashable-in-hash-position':
                    res.failures.append(f)
                    continue
                if f.key == 'wrong-result' and o.startswith('evalBound') and out[0] == 'ok':
                    now = penc(doc)
                    try:
                        live = matches(py_rename_marked(py_in(now), t2l, s2l), penc(out[1]))
                    except Unknown:
                        live = False
                    if live:
                        # plain data, equal to the document as it is NOW: the property text does not say which of the two a
                        # binding made earlier shows (doc-silent; the code and the model convert at bind time)
                        res.fail('mismatch', 'model-bind-time', 'host history: an evaluation through a binding made earlier returns the '
                                 'document as it is now, the model (as the code did) the document as it was at bind time\n    %s' %
                                 '\n    '.join(lines), short)
                        continue
                res.fail('oracle', 'roundtrip-history' if f.key == 'wrong-result' else f.key,
                         'host history, last line: %s (expected: %s in canonical types)\n    %s' % (f.what, what, '\n    '.join(lines)), short)
            if not ok:
                return False
            if out[0] == 'ok':
                evals[-1] = (idx, raw_j, ('ok', penc(out[1])), t2l, s2l, what)
                h_scramble(out[1])
                lines.append('<the host changes the result it got>')
    if drv is not None and ops:
        model = drv.ask({'p': 'C10', 'hist': [{'d0': d0, 'ops': ops}]})['res'][0]
        for idx, raw_j, out, t2l, s2l, what in evals:
            m = model[idx]
            res.traces += 1
            if out[0] == 'ok':
                # (both sides against the expectation with set-derived lists unordered: a frozen copy of a set need not
                # iterate in the order of the set it was made from)
                if not m or 'ok' not in m or not matches(py_rename_marked(raw_j, t2l, s2l), m['ok']) \
                        or not matches(py_rename_marked(raw_j, t2l, s2l), out[1]):
                    res.fail('mismatch', 'model-history', 'host history: operation %d returns %s, the model %s\n    %s' % (
                        idx, show(out[1]), json.dumps(m)[:300], '\n    '.join(lines)), case)
                    return False
            elif not m or 'err' not in m:
                res.fail('mismatch', 'model-history', 'host history: operation %d fails (%s), the model gives %s\n    %s' % (
                    idx, out[2], json.dumps(m)[:300], '\n    '.join(lines)), case)
                return False
    return True


def shrink_history(real, drv, case, key):
    """drop operations (and shrink nothing else) while a failure with the same key remains"""
    def fails(c):
        r = common.Result()
        try:
            return (not run_history_case(real, drv, r, c, {})) and any(f.key == key for f in r.failures)
        except Exception:       # noqa
            return False
    cur = dict(case)
    progress = True
    while progress:
        progress = False
        for i in range(len(cur['ops']) - 1, -1, -1):
            c = dict(cur, ops=cur['ops'][:i] + cur['ops'][i + 1:])
            if fails(c):
                cur, progress = c, True
    return cur


def run_history(real, drv, res, rng, tier, hist):
    n = 220 if tier == 'quick' else 3000
    for i in range(n):
        case = gen_history(rng, rng.randrange(4, 16))
        res.case('H' + common.digest(case), True, sample=case if i == 0 else None)
        if not run_history_case(real, drv, res, case, hist):
            f = res.failures[-1]
            if f.key not in ('unhashable-in-hash-position',):
                small = shrink_history(real, drv, f.replay, f.key)
                r2 = common.Result()
                run_history_case(real, drv, r2, small, {})
                g = next((x for x in r2.failures if x.key == f.key), None)
                if g:
                    res.failures[-1] = g
            return


# ------------------------------------------------------------------ E: YaqlInterface applies the same conversion

IFACE_CALLS = [
    # (receiver or NO, function, args)
    ({'a': 1}, 'set', ('b', [1, (2, 3)])), ({'a': 1}, 'keys', ()), ({'a': [1]}, 'values', ()), ({'a': 1}, 'items', ()),
    ([1, [2, [3]]], 'flatten', ()), ([1, 2, 1], 'toSet', ()), (None, 'list', (1, [2, 3])), (None, 'set', (1, 2)),
    ({'a': {'b': (1, 2)}}, 'get', ('a',)), ([3, 1], 'toList', ()), ({'a': 1}, 'mergeWith', ({'b': [2]},)),
    ([1, 2], 'zip', ([3, 4],)), ([1, 2], 'enumerate', ()), (None, 'range', (3,)), ([1, 2], 'len', ()),
    ({'a': 1}, 'delete', ('a',)), ({'a': (1, 2)}, 'containsKey', ('a',)), ([[1, 2]], 'first', ()),
    ({(1, 2): 3}, 'keys', ()), ([1, 2, 3], 'splitAt', (1,)), ([1, 2], 'reverse', ()), ({'a': 1}, 'len', ()),
]
IFACE_EXPRS = [('$1.set(b, $2)', ({'a': 1}, [1, 2])), ('{a => [1, 2]}', ()), ('[1, 2].select($)', ()), ('$1.keys()', ({'a': 1},)),
               ('$1', ({'a': (1, {2})},)), ('set($1)', ((1, 2),)), ('$1.items()', ({'a': 1},))]


def run_interface(real, drv, res, hist):
    from yaql import yaql_interface
    for (t2l, s2l) in ALL_OPTS:
        eng, _ = real.engine(t2l, s2l, None, True)
        for path, calls in (('stub', IFACE_CALLS), ('call', IFACE_EXPRS)):
            for call in calls:
                ctx = real.root.create_child_context()
                yi = yaql_interface.YaqlInterface(ctx, eng)
                case = dict(mode='E', path=path, call=repr(call), opts=[t2l, s2l])
                res.case('E' + common.digest(case), True, sample=case if (t2l, s2l) == ALL_OPTS[0] and call is calls[0] else None)
                try:
                    if path == 'stub':
                        recv, fn, args = call
                        cargs = yutils.convert_input_data(args)
                        if recv is None:
                            raw = ctx(fn, eng)(*cargs)
                            go = lambda: getattr(yi, fn)(*args)                       # noqa
                        else:
                            raw = ctx(fn, eng, yutils.convert_input_data(recv))(*cargs)
                            go = lambda: getattr(yi.on(yutils.convert_input_data(recv)), fn)(*args)   # noqa
                    else:
                        expr, args = call
                        c2 = ctx.create_child_context()
                        for i, a in enumerate(yutils.convert_input_data(args)):
                            c2['$' + str(i + 1)] = a
                        e0, _ = real.engine(t2l, s2l, None, True, conv_out=False)
                        raw = e0(expr).evaluate(context=c2)
                        go = lambda: yi(expr, *args)                                  # noqa
                    raw_j = penc(raw)
                except Exception as e:      # noqa: the call itself does not work: nothing to convert
                    hist['E:call-error'] = hist.get('E:call-error', 0) + 1
                    hist.setdefault('E_errors', []).append('%s: %r' % (call, e)) if len(hist.get('E_errors', [])) < 5 else None
                    continue
                try:
                    out = ('ok', go())
                except Exception as e:      # noqa
                    out = ('exc',) + classify_exc(e, sys.exc_info()[2])
                m = drv.ask({'p': 'C10', 'cases': [{'op': 'out', 't2l': t2l, 's2l': s2l, 'lim': None, 'v': raw_j}]})['res'][0] if drv else None
                res.traces += 1 if m is not None else 0
                judge(res, dict(case), raw_j, out, m, t2l, s2l, None, hist)


def run(env, res):
    drv = env['driver']
    tier = env['tier']
    rng = common.make_rng(env['seed'], 'C10')
    real = Real()
    hist = {}
    kinds = {}
    res.rule = ('A: random Python-constructible values (depth <= 4, all 11 container kinds, containers in hash positions) '
                'x 4 option combinations x iterator limits; B: random host documents through `$`; C: random compositions '
                'of a pool of %d expressions and %d templates x 4 option combinations. distinct = distinct value / '
                'expression; non-trivial = the value holds a container inside a container (A, B) or the expression '
                'evaluates (C); H: random host histories of 4-15 operations (mutate in place / replace / evaluate `$` '
                'with the same, a fresh or a derived statement / bind a context or a frozen copy / evaluate through a '
                'binding) over a random JSON-like document, distinct = distinct history' % (len(ATOMS), len(TEMPLATES)))
    if env['replay']:
        rp = json.load(open(env['replay']))
        if rp['case'].get('mode') == 'D':
            run_reuse(real, res, rng, 'thorough', hist)
        elif rp['case'].get('mode') == 'H':
            run_history_case(real, drv, res, rp['case'], hist)
        elif rp['case'].get('mode') == 'E':
            run_interface(real, drv, res, hist)
        else:
            run_case(real, drv, res, rp['case'], hist)
        res.case(common.digest(rp['case']), True, sample=rp['case'])
        res.extra['histogram'] = hist
        return res
    nA, nB, nC = (900, 500, 500) if tier == 'quick' else (20000, 10000, 8000)
    nL = 300 if tier == 'quick' else 6000

    def count_kinds(j):
        if is_scalar_j(j):
            kinds['scalar'] = kinds.get('scalar', 0) + 1
            return 0
        k = j.get('q') or j['m']
        kinds[k] = kinds.get(k, 0) + 1
        subs = [x for p in j['l'] for x in (p if 'm' in j else [p])]
        return 1 + max([count_kinds(x) for x in subs] + [0])

    def after(case, mode, nontrivial, sample):
        res.case(mode + common.digest(case.get('v') or case.get('expr')), nontrivial, sample=sample)

    nfail0 = 0
    # fixed cases first: the K1 witnesses and the examples of the statement
    fixed = [dict(mode='C', expr=e) for e in ('set([1,2])', 'dict([[[1,2], 3]])', '[[1,2]].toDict($)',
                                              '[2,1].orderBy($)', '[1,2,1].groupBy($)', '{a=>1}.values()')]
    fixed += [dict(mode='C', expr=e, expect=x) for e, x in DOCUMENTED]
    fixed += [dict(mode='B', v=penc(d)) for d in ({'a': [1, {'b': None}], 'c': 'x'}, [(1, 2), {3}], {(1, 2)}, [frozenset([1])])]
    for how, content in (('zip', [('a', [1]), ('b', [2]), ('c', [3])]), ('enumerate', [(0, {'k': 1}), (1, {'k': 2}), (2, {'k': 3})]),
                         ('items', [('a', [1]), ('b', [2, 3]), ('c', [])]), ('fresh-gen', [{'id': i} for i in range(8)]),
                         ('map-list', [[1, 2], [3, 4], [5]])):
        v = dict(penc(iter(content)), how=how)
        for entry in ('evaluate', 'create_context', 'iface'):
            fixed.append(dict(mode='B', v=v, entry=entry))
        fixed.append(dict(mode='B', v={'m': 'dict', 'l': [[enc_scalar('rows'), v], [enc_scalar('n'), enc_scalar(3)]]}))
    for case in fixed:
        run_case(real, drv, res, case, hist)
        after(case, case['mode'], True, show(case['v']) if 'v' in case else case['expr'])
    for i in range(nA):
        v = gen_value(rng, rng.choice([2, 3, 3, 4]), False, rng.choice([0.2, 0.3, 0.45]), rng.choice([0.3, 0.6, 0.9]))
        lims = [None, rng.choice([0, 1, 2, 3, 5])] if i % 2 == 0 else [None]
        case = dict(mode='A', v=v, lims=lims, bseed=rng.randrange(1 << 30))
        d = count_kinds(v)
        run_case(real, drv, res, case, hist)
        after(case, 'A', d >= 2, show(v) if i < 2 else None)
        if len(res.failures) - nfail0 > 40:
            break
    for i in range(nB):
        ext = i % 2 == 1
        v = gen_doc(rng, rng.choice([2, 3, 4]), ext)
        if ext:
            v = with_fresh(rng, v)
        lims = [None] if i % 4 else [None, rng.choice([0, 1, 2, 3])]
        case = dict(mode='B', v=v, lims=lims, bseed=rng.randrange(1 << 30), entry=rng.choice(ENTRIES_B))
        d = count_kinds(v)
        run_case(real, drv, res, case, hist)
        after(case, 'B', d >= 2, show(v) if i < 2 else None)
    # lazily built host documents: one-shot iterables (at the root and nested) whose items - freshly made containers -
    # exist only while the converter looks at them
    for i in range(nL):
        v = gen_lazy_doc(rng, rng.choice([2, 2, 3]))
        mode = 'A' if i % 5 == 4 else 'B'
        case = dict(mode=mode, v=v, lims=[None] if i % 4 else [None, rng.choice([1, 2, 3, 10])], bseed=rng.randrange(1 << 30),
                    entry=rng.choice(ENTRIES_B))
        d = count_kinds(v)
        hist['lazily-built:' + v.get('how', 'nested')] = hist.get('lazily-built:' + v.get('how', 'nested'), 0) + 1
        run_case(real, drv, res, case, hist)
        after(case, mode, d >= 2, show(v) if i < 2 else None)
    evaluated = 0
    for i in range(nC):
        e = gen_expr(rng, rng.choice([1, 2, 2, 3]))
        case = dict(mode='C', expr=e)
        r = run_case(real, drv, res, case, hist)
        evaluated += r is not None
        after(case, 'C', r is not None, e if i < 2 else None)
    run_reuse(real, res, rng, tier, hist)
    run_interface(real, drv, res, hist)
    t0 = time.time()
    run_history(real, drv, res, common.make_rng(env['seed'], 'C10H'), tier, hist)
    hist['seconds-history'] = round(time.time() - t0, 1)
    hist['host_paths'] = dict(paths.HIST)
    # shrink the first failure of every non-known key (values only)
    known = {k['key'] for k in common.known_findings() if k['property'] == ID and k.get('status') == 'known'}
    seen = set()
    for f in list(res.failures):
        if f.key in known or f.key in seen or f.replay.get('mode') in ('C', 'D', 'E', 'H'):
            continue
        seen.add(f.key)
        try:
            small = shrink_value(real, drv, f.replay, f.key)
            r2 = common.Result()
            run_case(real, drv, r2, dict(small), {})
            g = next((x for x in r2.failures if x.key == f.key), None)
            if g:
                f.what, f.replay = g.what, g.replay
        except Exception:
            common.log(traceback.format_exc())
    # a known finding must not hide other failures: order so that violations come first
    res.failures.sort(key=lambda f: (f.key in known, f.replay.get('prio', 0)))
    res.extra['histogram'] = hist
    res.extra['container_kinds_generated'] = kinds
    res.extra['expressions_evaluated'] = evaluated
    return res


LEVEL_TEXT = ('Lean 4 theorems over a code-shaped model of utils.convert_input_data / convert_output_data on Python '
              'objects of every container kind the library handles (tuple, list, dict, FrozenDict, set, frozenset, '
              'iterators, dict views, ordering objects), with the option record and the #iter limiter: convOut_spec '
              '(exact characterisation: success iff no set element / dict key converts to an unhashable container and '
              'no collection exceeds the limit; the result is the source with container kinds renamed), plain (every '
              'result is plain data, all options, all limits), succeeds_iff, fails_only_unhashable, total_partial, '
              'roundtrip (JSON-like documents and tuples / sets / generators of such; `= d` under the defaults), '
              'convIn_wf (input conversion never raises), views_finalise (keys() / items() of any dict whose keys and '
              'values are finalised become the list of keys / of [key, value] pairs, all options). The full claim "finalisation succeeds for every value under '
              'every option combination" is false of the code and unsatisfiable: current_fails / current_fails_full / '
              'current_fails_unsatisfiable (known finding K1). Tie: the compiled model and the real code are run on the '
              'same random values, documents and expression results under the 4 option combinations and several limits.  '
              'Under host reuse (Model/HostHistory.lean: one document object mutated in place / replaced, `$` evaluated by '
              'engines of any options, contexts bound by create_context(data=doc)): history_spec - for every history every '
              'evaluation returns the finalised conversion of the document as it is at that time, every evaluation through a '
              'bound context that of the document at bind time, under the options of the evaluating engine -, '
              'roundtrip_history (= canon o of that document), memo_breaks_roundtrip (a statement remembering its last input '
              'does not satisfy it); the harness runs generated host histories on the real code (same Statement object, fresh '
              'parses, engine.copy / per-call options / YaqlInterface paths) against that model.')
LEVEL_NOTE = ('(round 5: host documents that are, or contain, LAZILY BUILT iterables - generators / zip / enumerate / map / '
              'dict.items() whose items exist only while the converter looks at them - go through `$` by evaluate(data), '
              'create_context(data) and YaqlInterface; convIn_identity_free: the converted content does not depend on the '
              'addresses of the host\'s objects; memo_sound / memo_breaks_transient_items: an id()-keyed memo is right exactly for '
              'documents whose objects are all alive at once.)  trusted: Lean kernel; hand-written model Yaql/Model/Convert.lean; Python hashing as the predicate '
              '`hashable`; set/dict de-duplication not modelled (injective on success paths); the differential harness '
              'and its plain-Python transcription of the renaming. Known finding K1 (unhashable-in-hash-position) is '
              'reported as KNOWN-FINDING; every other finalisation failure or leftover lazy/frozen container is a violation.')
TECHNIQUE = 'Lean 4 proof (mutual structural induction over Python values) + differential runs through `$` and an expression pool'
DESIGN_REF = 'DESIGN.md section 5, C10'
