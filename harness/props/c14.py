"""C14 - streaming operators consume only what they need from their source.

A pipeline of <= 4 streaming operators is put on an instrumented ENDLESS source (a pull
counter in __next__) with a registered `tick()` inside every lambda, and asked for its
first k results (k <= 6).  Three measurements of (results, pulls, lambda applications):
  real    the yaql under test,
  ref     the plain-Python transcription of harness/seqref.py on its own counting source,
  model   Yaql.Model.Stream (the cost model the causal_* / cost_tight_* theorems are about).
Oracle (failing input, real code alone + transcription): no result within the watchdog, wrong
results, or pulls > ref + 1 / applications > ref + 1.
Mismatch: the model's cost is undercut / its results differ although the oracle holds."""
import itertools
import json
import signal
import time

import common
import values
import seqref
import seqgen
from seqref import OOD

import pyfacts
import props.c13 as c13

ID = 'C14'
LEAN_MODULES = ['Yaql.Props.C14', 'Yaql.Props.C14Gen']
REQUIRED_THEOREMS = ['Yaql.Props.C14.' + n for n in (
    'causal causal_pipeline runOn_ext runPipe_ext prefix_stable pulls_le firstK_causal endless_total compose compose_cost '
    'causal_select causal_where causal_selectMany causal_skip causal_take causal_takeWhile causal_skipWhile causal_append '
    'causal_concat causal_distinct causal_enumerate causal_zip causal_accumulate causal_insert causal_delete causal_replace '
    'causal_slice causal_memorize causal_member causal_first causal_any causal_all causal_indexOf causal_indexWhere '
    'causal_join cost_tight_select cost_tight_memorize cost_tight_enumerate cost_tight_take take_never_beyond '
    'cost_tight_skip cost_tight_where cost_where_kth cost_tight_distinct cost_tight_delete cost_tight_skipWhile '
    'cost_tight_takeWhile cost_tight_indexWhere cost_tight_indexOf cost_tight_first cost_tight_any cost_tight_all '
    'cost_tight_zip cost_tight_accumulate cost_tight_accumulate_seed cost_tight_slice linSlice_pulls cost_tight_append '
    'cost_tight_member cost_tight_selectMany cost_tight_join linJoin_pulls cost_tight_insert cost_tight_replace '
    'cost_delete_le keptSt_pulls').split()] + ['Yaql.Props.C14Gen.' + n for n in (
        'streaming_ops_lazy streaming_ops_all_found streaming_ops_use_source').split()]
TRUSTED = ['instrumentation: pulls are counted in __next__ of the host iterator handed to evaluate(data=...), lambda '
           'applications by a registered tick() evaluated first in every lambda (`tick() and (<lambda>)`)',
           'harness/gens/streamfacts.py (AST classification of how each streaming payload uses its source parameter)']
ASSUMPTIONS = ['endless sources are arithmetic-periodic integer sequences (or dicts {a: int}); k <= 6; <= 4 stages',
               'a case is only run when the model produces the k results within the first 150 source elements']

N_PREFIX = 150
OPTIONS = dict(c13.OPTIONS)

STREAM_OPS = ['select', 'where', 'selectMany', 'skip', 'take', 'takeWhile', 'skipWhile', 'append', 'concat', 'distinct',
              'enumerate', 'zip', 'accumulate', 'insert', 'insertMany', 'delete', 'replace', 'replaceMany', 'slice',
              'memorize', 'attr', 'join']
TERMINAL_OPS = ['first', 'any', 'all', 'indexOf', 'indexWhere']


def generate():
    return pyfacts.run(['StreamFacts'])


# ------------------------------------------------------------------ sources

def source_value(base, delta, as_dict, i):
    p = len(base)
    v = i if p == 0 else base[i % p] + (i // p) * delta
    return {'a': v} if as_dict else v


class Source:
    """endless host iterator with a pull counter"""
    def __init__(self, base, delta, as_dict, frozen=False):
        self.base, self.delta, self.as_dict, self.frozen = base, delta, as_dict, frozen
        self.pulls = 0

    def __iter__(self):
        return self

    def __next__(self):
        v = source_value(self.base, self.delta, self.as_dict, self.pulls)
        self.pulls += 1
        if self.as_dict and self.frozen:
            return seqref.FD(v)
        return v


# ------------------------------------------------------------------ generation

ARG = ['arg']


def gen_lam(rng, shape, role):
    if shape == 'int':
        base = ARG
    elif shape == 'dict':
        base = ['member', ARG, 'a']
    elif shape == 'pair':
        base = ['index', ARG, rng.choice([0, 1])]
    elif shape == 'list':
        base = ['index', ARG, 0]
    else:                                   # bool / other: only shape-agnostic lambdas
        if role == 'pred':
            return rng.choice([['const', True], ['not', ['eq', ARG, None]], ['eq', ARG, None]])
        return rng.choice([ARG, ['pair', ARG, ['const', 1]], ['const', 0]])
    if role == 'pred':
        r = rng.random()
        if r < 0.35:
            return ['gt', base, rng.choice([0, 1, 2, 3, 5, 8])]
        if r < 0.70:
            m = rng.choice([2, 3, 4])
            return ['eq', ['mod', base, m], rng.randrange(m)]
        if r < 0.85:
            return ['not', ['gt', base, rng.choice([1, 4, 9, 20])]]
        if r < 0.93:
            return ['not', ['eq', ['mod', base, 3], 0]]
        return ['const', rng.choice([True, False])]
    if role == 'key':
        return rng.choice([['mod', base, rng.choice([2, 3, 5])], base, ['gt', base, 3], ['mul', base, 2]])
    r = rng.random()
    if r < 0.3:
        return ['add', base, rng.choice([-1, 1, 2, 10])]
    if r < 0.5:
        return ['mul', base, rng.choice([2, 3, -1])]
    if r < 0.65:
        return ['mod', base, rng.choice([2, 3, 7])]
    if r < 0.8:
        return ['pair', base, ['mod', base, 2]]
    if r < 0.9:
        return base
    return ['gt', base, 2]


def sel_shape(l, shape):
    t = l[0]
    if t in ('add', 'mul', 'mod'):
        return 'int'
    if t in ('gt', 'eq', 'not'):
        return 'bool'
    if t == 'pair':
        return 'pair' if l[1][0] != 'pair' and (l[2][0] in ('mod', 'const', 'add', 'gt')) and shape_of_base(l[1], shape) == 'int' else 'other'
    if t == 'arg':
        return shape
    if t == 'member':
        return 'int'
    if t == 'index':
        return 'int' if shape in ('pair', 'list') else 'other'
    if t == 'const':
        return 'int' if isinstance(l[1], int) and not isinstance(l[1], bool) else 'other'
    return 'other'


def shape_of_base(l, shape):
    if l[0] == 'arg':
        return shape
    if l[0] in ('member',):
        return 'int'
    if l[0] == 'index':
        return 'int' if shape in ('pair', 'list') else 'other'
    return sel_shape(l, shape)


def small_ints(rng, lo=0, hi=4):
    return tuple(rng.choice([0, 1, 2, 3, 5, 7]) for _ in range(rng.randrange(lo, hi + 1)))


def gen_stage(rng, name, shape):
    """-> (op dict, new shape)"""
    a = {'op': name}
    if name == 'select':
        a['l'] = gen_lam(rng, shape, 'sel')
        return a, sel_shape(a['l'], shape)
    if name in ('where', 'takeWhile', 'skipWhile'):
        a['l'] = gen_lam(rng, shape, 'pred')
        return a, shape
    if name == 'selectMany':
        a['l'] = gen_lam(rng, shape, 'sel')
        s = sel_shape(a['l'], shape)
        return a, ('int' if s == 'pair' else s if s != 'list' else 'int')
    if name in ('skip', 'take'):
        a['n'] = rng.choice([0, 1, 2, 3, 5, 8])
        return a, shape
    if name in ('append', 'concat'):
        if name == 'append':
            a['vs'] = small_ints(rng)
        else:
            a['vss'] = (small_ints(rng),) + ((small_ints(rng),) if rng.random() < 0.3 else ())
        return a, shape
    if name == 'distinct':
        a['l'] = gen_lam(rng, shape, 'key') if rng.random() < 0.6 else None
        return a, shape
    if name == 'enumerate':
        a['n'] = rng.choice([None, 0, 1, 10])
        return a, ('pair' if shape == 'int' else 'other')
    if name == 'zip':
        a['vss'] = (small_ints(rng, 2, 7),) + ((small_ints(rng, 3, 7),) if rng.random() < 0.25 else ())
        return a, ('pair' if shape == 'int' and len(a['vss']) == 1 else 'other')
    if name == 'accumulate':
        if shape == 'int':
            a['f2'] = rng.choice([['plus'], ['plus'], ['max'], ['snd'], ['fst'], ['pair']])
            if rng.random() < 0.4:
                a['v'] = rng.choice([0, 100])
            new = 'int' if a['f2'][0] != 'pair' else 'other'
        else:
            a['f2'] = rng.choice([['snd'], ['fst'], ['pair']])
            new = shape if a['f2'][0] != 'pair' else 'other'
        return a, new
    if name in ('insert', 'insertMany'):
        a['n'] = rng.choice([-1, 0, 1, 2, 4, 7])
        v = source_like(rng, shape)
        if name == 'insert':
            a['v'] = v
        else:
            a['vs'] = tuple(source_like(rng, shape) for _ in range(rng.randrange(0, 3)))
        return a, shape
    if name == 'delete':
        a['vs'] = (rng.choice([0, 1, 2, 4]),) if rng.random() < 0.4 else (rng.choice([-1, 0, 1, 3]), rng.choice([0, 1, 2, 3, -1]))
        return a, shape
    if name in ('replace', 'replaceMany'):
        a['n'] = rng.choice([-1, 0, 1, 3])
        a['m'] = rng.choice([None, 0, 1, 2, 3, -1])
        if name == 'replace':
            a['v'] = source_like(rng, shape)
        else:
            a['vs'] = tuple(source_like(rng, shape) for _ in range(rng.randrange(0, 3)))
        return a, shape
    if name == 'slice':
        a['n'] = rng.choice([1, 2, 2, 3, 4])
        return a, ('list' if shape == 'int' else 'other')
    if name == 'memorize':
        return a, shape
    if name == 'attr':
        a['name'] = 'a'
        return a, 'int'
    if name == 'join':
        a['vs'] = small_ints(rng, 0, 3)
        if shape == 'int':
            a['f2'] = rng.choice([['gt'], ['eq'], ['const', True], ['on1', ['eq', ['mod', ARG, 2], 0]], ['on2', ['gt', ARG, 1]]])
            a['g2'] = rng.choice([['pair'], ['plus'], ['fst'], ['snd'], ['max']])
            new = 'pair' if a['g2'][0] == 'pair' else 'int'
        else:
            a['f2'] = rng.choice([['const', True], ['on2', ['gt', ARG, 1]]])
            a['g2'] = rng.choice([['pair'], ['fst'], ['snd']])
            new = shape if a['g2'][0] == 'fst' else 'int' if a['g2'][0] == 'snd' else 'other'
        return a, new
    if name == 'first':
        return a, 'scalar'
    if name in ('any', 'all'):
        a['l'] = gen_lam(rng, shape, 'pred') if rng.random() < 0.8 else None
        return a, 'scalar'
    if name == 'indexOf':
        a['v'] = source_like(rng, shape)
        return a, 'scalar'
    if name == 'indexWhere':
        a['l'] = gen_lam(rng, shape, 'pred')
        return a, 'scalar'
    raise ValueError(name)


def source_like(rng, shape):
    if shape == 'dict':
        return seqref.FD({'a': rng.choice([0, 1, 2, 3, 5])})
    if shape == 'pair':
        return (rng.choice([0, 1, 2]), rng.choice([0, 1, 2]))
    if shape == 'list':
        return (rng.choice([0, 1, 2]),)
    if shape == 'bool':
        return rng.choice([True, False])
    return rng.choice([0, 1, 2, 3, 5, 8])


def gen_case(rng, focus):
    as_dict = rng.random() < 0.2 or focus == 'attr'
    base = [rng.choice([0, 1, 2, 3, 4, 5, 7]) for _ in range(rng.choice([1, 2, 3, 3, 4, 5]))]
    if rng.random() < 0.15:
        base = []
    delta = rng.choice([0, 1, 1, 2, 3, len(base) or 1])
    shape = 'dict' if as_dict else 'int'
    n_stages = rng.choice([1, 1, 2, 2, 3, 4])
    names = [rng.choice(STREAM_OPS) for _ in range(n_stages)]
    names[rng.randrange(n_stages)] = focus
    if focus in TERMINAL_OPS:
        names = [n for n in names if n != focus][:3] + [focus]
    elif rng.random() < 0.12:
        names = names[:3] + [rng.choice(TERMINAL_OPS)]
    ops = []
    for n in names:
        if n == 'attr' and shape != 'dict':
            n = 'select'
        if shape == 'scalar':
            break
        a, shape = gen_stage(rng, n, shape)
        ops.append(a)
    terminal = ops[-1]['op'] in TERMINAL_OPS
    k = 1 if terminal else rng.randrange(0, 7)
    return dict(base=base, delta=delta, dict=as_dict, k=k, ops=ops, terminal=terminal)


# ------------------------------------------------------------------ the three measurements

_STATE = {}


def setup_engine():
    if 'eng' not in _STATE:
        import yaql
        from yaql.language import specs
        eng = yaql.YaqlFactory().create(options=OPTIONS)
        ctx = yaql.create_context()
        counter = [0]

        @specs.name('tick')
        def tick():
            counter[0] += 1
            return True
        ctx.register_function(tick)
        _STATE.update(eng=eng, ctx=ctx, counter=counter)
    return _STATE['eng'], _STATE['ctx'], _STATE['counter']


def case_text(case):
    seqref.WRAP = 'tick() and (%s)'
    try:
        t = seqref.render(case['ops'])
    finally:
        seqref.WRAP = '%s'
    return t if case['terminal'] else '%s.take(%d)' % (t, case['k'])


def run_real_once(case, timeout=4):
    eng, ctx, counter = setup_engine()
    text = case_text(case)
    srcobj = Source(case['base'], case['delta'], case['dict'])
    counter[0] = 0
    try:
        st = eng(text)
        signal.signal(signal.SIGALRM, c13._alarm)
        signal.setitimer(signal.ITIMER_REAL, timeout)
        try:
            r = st.evaluate(data=srcobj, context=ctx.create_child_context())
        finally:
            signal.setitimer(signal.ITIMER_REAL, 0)
        return dict(kind='ok', value=r, pulls=srcobj.pulls, apps=counter[0], text=text)
    except c13.Timeout:
        return dict(kind='timeout', pulls=srcobj.pulls, apps=counter[0], text=text)
    except Exception as e:
        return dict(kind='err', cls=type(e).__name__, pulls=srcobj.pulls, apps=counter[0], text=text)


def run_real(case, timeout=4):
    r = run_real_once(case, timeout)
    if r['kind'] == 'timeout':          # believed only when it repeats with a much longer allowance
        r = run_real_once(case, 4 * timeout)
    return r


def run_ref(case):
    srcobj = Source(case['base'], case['delta'], case['dict'], frozen=True)
    count = [0]

    def hook(f):
        def g(*a):
            count[0] += 1
            return f(*a)
        return g
    seqref.HOOK = hook
    try:
        ops = list(case['ops']) + ([] if case['terminal'] else [{'op': 'take', 'n': case['k']}])
        try:
            r = seqref.run_ref(srcobj, ops)
            return dict(kind='ok', value=r, pulls=srcobj.pulls, apps=count[0])
        except OOD:
            return dict(kind='ood')
        except Exception as e:
            return dict(kind='err', cls=type(e).__name__, pulls=srcobj.pulls, apps=count[0])
    finally:
        seqref.HOOK = None


def model_request(case):
    return dict(base=case['base'], delta=case['delta'], dict=case['dict'], n=N_PREFIX, k=case['k'],
                ops=[seqref.op_json(a, values.enc) for a in case['ops']])


def model_summary(m, case):
    """-> None (no prediction) | dict(kind, value/cls, pulls, apps)"""
    if m is None or 'err' in m and 'outs' not in m:
        return None
    outs = m['outs']
    for i, o in enumerate(outs):
        if 'err' in o:
            if o['err'] in ('OOD', '*'):
                return None
            return dict(kind='err', cls=o['err'], pulls=o['pulls'], apps=o['apps'])
    if not m['enough']:
        if m.get('fin') is None or case['terminal']:
            return None
        # the pipeline ends by itself with fewer than k results: all of them, at the cost of reaching its end
        vals = [c13.dec_model(o['v']) for o in outs]
        return dict(kind='ok', value=vals, pulls=m['fin'][0], apps=m['fin'][1])
    if case['k'] == 0 and not case['terminal']:
        return dict(kind='ok', value=[], pulls=0, apps=0)
    last = outs[-1]
    vals = [c13.dec_model(o['v']) for o in outs]
    return dict(kind='ok', value=vals[0] if case['terminal'] else vals, pulls=last['pulls'], apps=last['apps'])


def evaluate_case(case, mreply):
    mod = model_summary(mreply, case)
    if mod is None:
        return None, dict(skipped=True)
    real = run_real(case)
    ref = run_ref(case)
    info = dict(real=real, ref=ref, model=mod, text=real['text'])
    where = '%s over source base=%r delta=%d%s' % (real['text'], case['base'], case['delta'], ' (dicts)' if case['dict'] else '')
    if real['kind'] == 'timeout':
        return ('oracle', '%s: no result within the watchdog after %d pulls / %d lambda applications (the %d results need %s pulls)' % (
            where, real['pulls'], real['apps'], case['k'], ref.get('pulls', mod['pulls']))), info
    # results
    ok_ref = None
    if ref['kind'] != 'ood':
        if real['kind'] != ref['kind']:
            ok_ref = False
        elif real['kind'] == 'err':
            ok_ref = real['cls'] == ref['cls']
        else:
            ok_ref = c13.match_fin(ref['value'], real['value'])
    if real['kind'] != mod['kind']:
        ok_mod = False
    elif real['kind'] == 'err':
        ok_mod = real['cls'] == mod['cls']
    else:
        ok_mod = c13.match_fin(mod['value'], real['value'])
    if ok_ref is False and not ok_mod:
        return ('oracle', '%s: real %s, documented meaning %s (model %s)' % (where, brief(real), brief(ref), brief(mod))), info
    if ok_ref is False or not ok_mod:
        return ('mismatch', '%s: results: real %s, reference %s, model %s' % (where, brief(real), brief(ref), brief(mod))), info
    # consumption: what the k results require plus one
    if ref['kind'] != 'ood':
        if real['pulls'] > ref['pulls'] + 1:
            return ('oracle', '%s: %d source elements consumed; the first %d results require %d (+1 allowed)' % (
                where, real['pulls'], case['k'], ref['pulls'])), info
        if real['apps'] > ref['apps'] + 1:
            return ('oracle', '%s: %d lambda applications; the first %d results require %d (+1 allowed)' % (
                where, real['apps'], case['k'], ref['apps'])), info
    if real['pulls'] > mod['pulls'] + 1 or real['apps'] > mod['apps'] + 1:
        return ('mismatch', '%s: real pulls/apps %d/%d exceed the model cost %d/%d + 1 (reference %s/%s)' % (
            where, real['pulls'], real['apps'], mod['pulls'], mod['apps'], ref.get('pulls'), ref.get('apps'))), info
    return None, info


def brief(r):
    if r['kind'] == 'ok':
        return 'ok %r' % (r['value'],)
    if r['kind'] == 'err':
        return 'err ' + r['cls']
    return r['kind']


def case_to_json(case):
    j = dict(case)
    j['ops'] = [seqref.op_json(a, values.enc) for a in case['ops']]
    return j


def case_from_json(j):
    c = dict(j)
    c['ops'] = [c13.op_from_json(o) for o in j['ops']]
    return c


def ask(drv, cases):
    if drv is None:
        return [None] * len(cases)
    out = []
    for i in range(0, len(cases), 100):
        out += drv.ask({'p': 'C14', 'cases': [model_request(c) for c in cases[i:i + 100]]})['res']
    return out


def fails(case, drv, kind):
    try:
        f, _ = evaluate_case(case, ask(drv, [case])[0])
    except Exception:
        return None
    return f if f and f[0] == kind else None


def shrink(case, drv, kind):
    changed = True
    while changed:
        changed = False
        for i in range(len(case['ops']) - 1, -1, -1):
            ops = case['ops'][:i] + case['ops'][i + 1:]
            if not ops:
                continue
            cand = dict(case, ops=ops, terminal=ops[-1]['op'] in TERMINAL_OPS)
            if cand['terminal']:
                cand['k'] = 1
            if fails(cand, drv, kind):
                case, changed = cand, True
                break
        if not case['terminal'] and case['k'] > 1:
            cand = dict(case, k=case['k'] - 1)
            if fails(cand, drv, kind):
                case, changed = cand, True
        if len(case['base']) > 1:
            cand = dict(case, base=case['base'][:-1])
            if fails(cand, drv, kind):
                case, changed = cand, True
    return case


def run(env, res):
    drv = env['driver']
    tier = env['tier']
    rng = common.make_rng(env['seed'], 'C14')
    res.rule = ('pipelines of <= 4 streaming operators (each of the 27 listed operators is the focus of an equal share) '
                'over an instrumented endless arithmetic-periodic source, k in 0..6, lambdas from the Lam family containing '
                'tick(); distinct = distinct (expression, source); non-trivial = the case was run (model produces the k '
                'results within %d source elements) and at least one element was pulled' % N_PREFIX)
    if env['replay']:
        rp = json.load(open(env['replay']))
        cases = [case_from_json(rp['case'])]
    else:
        per = 150 if tier == 'quick' else 4000
        focuses = STREAM_OPS + TERMINAL_OPS
        cases = [gen_case(rng, f) for f in focuses for _ in range(per)]
    t0 = time.time()
    replies = ask(drv, cases)
    hist = dict(skipped=0, exact_pulls=0, exact_apps=0, run=0, real_err=0, by_focus={}, k={}, stages={}, slack_pulls={}, slack_apps={})
    for case, mr in zip(cases, replies):
        f, info = evaluate_case(case, mr)
        text = case_text(case)
        ran = not info.get('skipped')
        res.case(common.digest([text, case['base'], case['delta'], case['dict']]), ran and info['real'].get('pulls', 0) > 0,
                 sample=dict(text=text, base=case['base'], delta=case['delta']) if len(res.samples) < 4 else None)
        if not ran:
            hist['skipped'] += 1
            continue
        res.traces += 1
        hist['run'] += 1
        real, mod = info['real'], info['model']
        hist['k'][str(case['k'])] = hist['k'].get(str(case['k']), 0) + 1
        hist['stages'][str(len(case['ops']))] = hist['stages'].get(str(len(case['ops'])), 0) + 1
        for a in case['ops']:
            hist['by_focus'][a['op']] = hist['by_focus'].get(a['op'], 0) + 1
        if real['kind'] == 'err':
            hist['real_err'] += 1
        if real['kind'] != 'timeout':
            dp, da = real['pulls'] - mod['pulls'], real['apps'] - mod['apps']
            hist['exact_pulls'] += dp == 0
            hist['exact_apps'] += da == 0
            hist['slack_pulls'][str(dp)] = hist['slack_pulls'].get(str(dp), 0) + 1
            hist['slack_apps'][str(da)] = hist['slack_apps'].get(str(da), 0) + 1
        if f:
            small = shrink(case, drv, f[0])
            g = fails(small, drv, f[0]) or f
            res.fail(g[0], '.'.join(a['op'] for a in small['ops'])[:60], g[1], case_to_json(small))
            if len(res.failures) >= 8 or sum('watchdog' in x.what for x in res.failures) >= 2:
                break
    res.extra['histogram'] = hist
    res.extra['correspondence_wall_s'] = round(time.time() - t0, 1)
    return res


LEVEL_TEXT = ('Lean 4 theorems about a cost model in which every streaming operator is a machine (reaction before the first '
              'pull, per pulled element, at exhaustion) and every produced element is stamped with the number of source '
              'elements pulled and of lambda applications made: causality for ANY machine and for pipelines of ANY length '
              '(the results produced within n pulls, with their stamps, depend on the first n source elements only - '
              'causal, causal_pipeline, causal_<op> for the 25 listed operators), explicit cost formulas / bounds per '
              'operator (cost_tight_*), the cost of a pipeline as the composition of the stage costs (compose_cost, '
              'runPipe_ext) and totality on endless sources with fuel = cost (endless_total). The model is tied to the code '
              'by running generated pipelines on an instrumented endless source with tick() in every lambda against the '
              'model and an independent Python transcription (results equal; pulls and applications <= cost + 1), each '
              'case under a watchdog, and by a table of AST use-facts of the payloads re-proved lazy on every run.')
LEVEL_NOTE = ('trusted: Lean kernel; the hand-written model Yaql/Model/Stream.lean (machines written from the generator '
              'functions / itertools objects of queries.py and collections.py); the instrumentation (pull counter in the '
              'host iterator, tick() first in every lambda); harness/seqref.py as the reference for "what k results '
              'require"; the AST classification of harness/gens/streamfacts.py. Cases whose k results the model cannot '
              'produce within 150 source elements (non-terminating demands) are not run.')
TECHNIQUE = 'Lean 4 proof (generic causality of stream machines, per-operator cost bounds) + instrumented differential run'
DESIGN_REF = 'DESIGN.md section 5, C14'
