"""C14 - streaming operators consume only what they need from their source.

A pipeline of <= 4 streaming operators is put on an instrumented ENDLESS source (a pull
counter in __next__) with a registered `tick()` inside every lambda, and asked for its
first k results (k <= 6).  Three measurements of (results, pulls, lambda applications):
  real    the yaql under test,
  ref     the plain-Python transcription of harness/seqref.py on its own counting source,
  model   Yaql.Model.Stream (the cost model the causal_* / cost_tight_* theorems are about).
Oracle (failing input, real code alone + transcription): no result within the watchdog, wrong
results, or pulls > ref + 1 / applications > ref + 1.
Mismatch: the model's cost is undercut / its results differ although the oracle holds.

Secondary lazy collection arguments: the same three measurements for `<list>.op(<pipeline over $src>, ..)` with op in
join (second collection), zip, zipLongest, concat, +, insertMany, replaceMany, defaultIfEmpty, selectMany (lazy selector
result): the instrumented source feeds the SECOND argument, the receiver is a constant (possibly empty / an iterator)."""
import itertools
import os
import zlib
import json
import signal
import time

import common
import values
import seqref
import seqgen
from seqref import OOD

import pyfacts
import srcobl
import props.c13 as c13

ID = 'C14'
LEAN_MODULES = ['Yaql.Props.C14', 'Yaql.Props.C14Gen'] + srcobl.modules('C14')   # Props/SrcStream
REQUIRED_THEOREMS = ['Yaql.Props.C14.' + n for n in (
    'causal causal_pipeline runOn_ext runPipe_ext prefix_stable pulls_le firstK_causal endless_total compose compose_cost '
    'causal_select causal_where causal_selectMany causal_skip causal_take causal_takeWhile causal_skipWhile causal_append '
    'causal_concat causal_distinct causal_enumerate causal_zip causal_accumulate causal_insert causal_delete causal_replace '
    'causal_slice causal_memorize causal_member causal_first causal_any causal_all causal_indexOf causal_indexWhere '
    'causal_join cost_tight_select cost_tight_memorize cost_tight_enumerate cost_tight_take take_never_beyond '
    'cost_tight_skip cost_tight_where cost_where_kth cost_tight_distinct cost_tight_delete cost_tight_skipWhile '
    'cost_tight_takeWhile cost_tight_indexWhere cost_tight_indexOf cost_tight_first cost_tight_any cost_tight_all '
    'cost_tight_zip cost_tight_accumulate cost_tight_accumulate_seed cost_tight_slice linSlice_pulls cost_tight_append '
    'cost_tight_member cost_tight_selectMany cost_tight_join linJoin_pulls cost_tight_insert cost_tight_replace '
    'cost_delete_le keptSt_pulls '
    'causal_joinInner causal_zipAt causal_zipLongestAt causal_splice causal_selectManyInner causal_secondary '
    'runOn_of_start_stop cost_tight_joinInner linJoinInner_cost joinInner_empty_outer joinInner_single_pass '
    'cost_tight_zipAt linZipAt_pulls cost_tight_splice splice_untouched spliceReplaceMany_none spliceReplaceMany_spec '
    'spliceInsertMany_parts cost_tight_selectManyInner selectManyInner_empty').split()] + srcobl.theorems('C14') + ['Yaql.Props.C14Gen.' + n for n in (
        'streaming_ops_lazy streaming_ops_all_found streaming_ops_use_source').split()]
TRUSTED = ['instrumentation: pulls are counted in __next__ of the host iterator handed to evaluate(data=...), lambda '
           'applications by a registered tick() evaluated first in every lambda (`tick() and (<lambda>)`)',
           'harness/gens/streamfacts.py (AST classification of how each streaming payload uses its source parameter)']
ASSUMPTIONS = ['endless sources are arithmetic-periodic integer sequences (or dicts {a: int}); k <= 6; <= 4 stages',
               'secondary-argument cases: receiver = list literal of <= 3 integers (optionally behind a probe-free where), '
               'feeding pipeline <= 3 stages, <= 1 stage behind the operator; finite sources count the elements handed out',
               'a case is only run when the model produces the k results within the first 150 source elements']

N_PREFIX = 150
OPTIONS = dict(c13.OPTIONS)

STREAM_OPS = ['select', 'where', 'selectMany', 'skip', 'take', 'takeWhile', 'skipWhile', 'append', 'concat', 'distinct',
              'enumerate', 'zip', 'accumulate', 'insert', 'insertMany', 'delete', 'replace', 'replaceMany', 'slice',
              'memorize', 'attr', 'join']
TERMINAL_OPS = ['first', 'any', 'all', 'indexOf', 'indexWhere']


def generate():
    info = dict(pyfacts.run(['StreamFacts']))
    info.update(srcobl.generate('C14'))     # re-translate the itertools-based streaming operators
    return info


# ------------------------------------------------------------------ sources

def source_value(base, delta, as_dict, i):
    p = len(base)
    v = i if p == 0 else base[i % p] + (i // p) * delta
    return {'a': v} if as_dict else v


class Source:
    """endless (or, with `n`, finite) host iterator with a pull counter; `pulls` counts the elements
    handed out, `probes` the requests made after the end"""
    def __init__(self, base, delta, as_dict, frozen=False, n=None):
        self.base, self.delta, self.as_dict, self.frozen, self.n = base, delta, as_dict, frozen, n
        self.pulls = 0
        self.probes = 0

    def __iter__(self):
        return self

    def __next__(self):
        if self.n is not None and self.pulls >= self.n:
            self.probes += 1
            raise StopIteration()
        v = source_value(self.base, self.delta, self.as_dict, self.pulls)
        self.pulls += 1
        if self.as_dict and self.frozen:
            return seqref.FD(v)
        return v


# ------------------------------------------------------------------ generation

ARG = ['arg']


def gen_lam(rng, shape, role):
    if shape == 'int':
        base = ARG
    elif shape == 'dict':
        base = ['member', ARG, 'a']
    elif shape == 'pair':
        base = ['index', ARG, rng.choice([0, 1])]
    elif shape == 'list':
        base = ['index', ARG, 0]
    else:                                   # bool / other: only shape-agnostic lambdas
        if role == 'pred':
            return rng.choice([['const', True], ['not', ['eq', ARG, None]], ['eq', ARG, None]])
        return rng.choice([ARG, ['pair', ARG, ['const', 1]], ['const', 0]])
    if role == 'pred':
        r = rng.random()
        if r < 0.35:
            return ['gt', base, rng.choice([0, 1, 2, 3, 5, 8])]
        if r < 0.70:
            m = rng.choice([2, 3, 4])
            return ['eq', ['mod', base, m], rng.randrange(m)]
        if r < 0.85:
            return ['not', ['gt', base, rng.choice([1, 4, 9, 20])]]
        if r < 0.93:
            return ['not', ['eq', ['mod', base, 3], 0]]
        return ['const', rng.choice([True, False])]
    if role == 'key':
        return rng.choice([['mod', base, rng.choice([2, 3, 5])], base, ['gt', base, 3], ['mul', base, 2]])
    r = rng.random()
    if r < 0.3:
        return ['add', base, rng.choice([-1, 1, 2, 10])]
    if r < 0.5:
        return ['mul', base, rng.choice([2, 3, -1])]
    if r < 0.65:
        return ['mod', base, rng.choice([2, 3, 7])]
    if r < 0.8:
        return ['pair', base, ['mod', base, 2]]
    if r < 0.9:
        return base
    return ['gt', base, 2]


def sel_shape(l, shape):
    t = l[0]
    if t in ('add', 'mul', 'mod'):
        return 'int'
    if t in ('gt', 'eq', 'not'):
        return 'bool'
    if t == 'pair':
        return 'pair' if l[1][0] != 'pair' and (l[2][0] in ('mod', 'const', 'add', 'gt')) and shape_of_base(l[1], shape) == 'int' else 'other'
    if t == 'arg':
        return shape
    if t == 'member':
        return 'int'
    if t == 'index':
        return 'int' if shape in ('pair', 'list') else 'other'
    if t == 'const':
        return 'int' if isinstance(l[1], int) and not isinstance(l[1], bool) else 'other'
    return 'other'


def shape_of_base(l, shape):
    if l[0] == 'arg':
        return shape
    if l[0] in ('member',):
        return 'int'
    if l[0] == 'index':
        return 'int' if shape in ('pair', 'list') else 'other'
    return sel_shape(l, shape)


def small_ints(rng, lo=0, hi=4):
    return tuple(rng.choice([0, 1, 2, 3, 5, 7]) for _ in range(rng.randrange(lo, hi + 1)))


def gen_stage(rng, name, shape):
    """-> (op dict, new shape)"""
    a = {'op': name}
    if name == 'select':
        a['l'] = gen_lam(rng, shape, 'sel')
        return a, sel_shape(a['l'], shape)
    if name in ('where', 'takeWhile', 'skipWhile'):
        a['l'] = gen_lam(rng, shape, 'pred')
        return a, shape
    if name == 'selectMany':
        a['l'] = gen_lam(rng, shape, 'sel')
        s = sel_shape(a['l'], shape)
        return a, ('int' if s == 'pair' else s if s != 'list' else 'int')
    if name in ('skip', 'take'):
        a['n'] = rng.choice([0, 1, 2, 3, 5, 8])
        return a, shape
    if name in ('append', 'concat'):
        if name == 'append':
            a['vs'] = small_ints(rng)
        else:
            a['vss'] = (small_ints(rng),) + ((small_ints(rng),) if rng.random() < 0.3 else ())
        return a, shape
    if name == 'distinct':
        a['l'] = gen_lam(rng, shape, 'key') if rng.random() < 0.6 else None
        return a, shape
    if name == 'enumerate':
        a['n'] = rng.choice([None, 0, 1, 10])
        return a, ('pair' if shape == 'int' else 'other')
    if name == 'zip':
        a['vss'] = (small_ints(rng, 2, 7),) + ((small_ints(rng, 3, 7),) if rng.random() < 0.25 else ())
        return a, ('pair' if shape == 'int' and len(a['vss']) == 1 else 'other')
    if name == 'accumulate':
        if shape == 'int':
            a['f2'] = rng.choice([['plus'], ['plus'], ['max'], ['snd'], ['fst'], ['pair']])
            if rng.random() < 0.4:
                a['v'] = rng.choice([0, 100])
            new = 'int' if a['f2'][0] != 'pair' else 'other'
        else:
            a['f2'] = rng.choice([['snd'], ['fst'], ['pair']])
            new = shape if a['f2'][0] != 'pair' else 'other'
        return a, new
    if name in ('insert', 'insertMany'):
        a['n'] = rng.choice([-1, 0, 1, 2, 4, 7])
        v = source_like(rng, shape)
        if name == 'insert':
            a['v'] = v
        else:
            a['vs'] = tuple(source_like(rng, shape) for _ in range(rng.randrange(0, 3)))
        return a, shape
    if name == 'delete':
        a['vs'] = (rng.choice([0, 1, 2, 4]),) if rng.random() < 0.4 else (rng.choice([-1, 0, 1, 3]), rng.choice([0, 1, 2, 3, -1]))
        return a, shape
    if name in ('replace', 'replaceMany'):
        a['n'] = rng.choice([-1, 0, 1, 3])
        a['m'] = rng.choice([None, 0, 1, 2, 3, -1])
        if name == 'replace':
            a['v'] = source_like(rng, shape)
        else:
            a['vs'] = tuple(source_like(rng, shape) for _ in range(rng.randrange(0, 3)))
        return a, shape
    if name == 'slice':
        a['n'] = rng.choice([1, 2, 2, 3, 4])
        return a, ('list' if shape == 'int' else 'other')
    if name == 'memorize':
        return a, shape
    if name == 'attr':
        a['name'] = 'a'
        return a, 'int'
    if name == 'join':
        a['vs'] = small_ints(rng, 0, 3)
        if shape == 'int':
            a['f2'] = rng.choice([['gt'], ['eq'], ['const', True], ['on1', ['eq', ['mod', ARG, 2], 0]], ['on2', ['gt', ARG, 1]]])
            a['g2'] = rng.choice([['pair'], ['plus'], ['fst'], ['snd'], ['max']])
            new = 'pair' if a['g2'][0] == 'pair' else 'int'
        else:
            a['f2'] = rng.choice([['const', True], ['on2', ['gt', ARG, 1]]])
            a['g2'] = rng.choice([['pair'], ['fst'], ['snd']])
            new = shape if a['g2'][0] == 'fst' else 'int' if a['g2'][0] == 'snd' else 'other'
        return a, new
    if name == 'first':
        return a, 'scalar'
    if name in ('any', 'all'):
        a['l'] = gen_lam(rng, shape, 'pred') if rng.random() < 0.8 else None
        return a, 'scalar'
    if name == 'indexOf':
        a['v'] = source_like(rng, shape)
        return a, 'scalar'
    if name == 'indexWhere':
        a['l'] = gen_lam(rng, shape, 'pred')
        return a, 'scalar'
    raise ValueError(name)


def source_like(rng, shape):
    if shape == 'dict':
        return seqref.FD({'a': rng.choice([0, 1, 2, 3, 5])})
    if shape == 'pair':
        return (rng.choice([0, 1, 2]), rng.choice([0, 1, 2]))
    if shape == 'list':
        return (rng.choice([0, 1, 2]),)
    if shape == 'bool':
        return rng.choice([True, False])
    return rng.choice([0, 1, 2, 3, 5, 8])


def gen_case(rng, focus):
    as_dict = rng.random() < 0.2 or focus == 'attr'
    base = [rng.choice([0, 1, 2, 3, 4, 5, 7]) for _ in range(rng.choice([1, 2, 3, 3, 4, 5]))]
    if rng.random() < 0.15:
        base = []
    delta = rng.choice([0, 1, 1, 2, 3, len(base) or 1])
    shape = 'dict' if as_dict else 'int'
    n_stages = rng.choice([1, 1, 2, 2, 3, 4])
    names = [rng.choice(STREAM_OPS) for _ in range(n_stages)]
    names[rng.randrange(n_stages)] = focus
    if focus in TERMINAL_OPS:
        names = [n for n in names if n != focus][:3] + [focus]
    elif rng.random() < 0.12:
        names = names[:3] + [rng.choice(TERMINAL_OPS)]
    ops = []
    for n in names:
        if n == 'attr' and shape != 'dict':
            n = 'select'
        if shape == 'scalar':
            break
        a, shape = gen_stage(rng, n, shape)
        ops.append(a)
    terminal = ops[-1]['op'] in TERMINAL_OPS
    k = 1 if terminal else rng.randrange(0, 7)
    # how the source reaches the expression: as the document itself, nested in the document (input conversion walks
    # containers), or as an argument of a YaqlInterface call
    place = rng.choice(['root', 'root', 'root', 'dict', 'list', 'deep', 'iface'])
    return dict(base=base, delta=delta, dict=as_dict, k=k, ops=ops, terminal=terminal, place=place)


# ------------------------------------------------------------------ secondary lazy collection arguments

SEC_KINDS = ['join', 'zip', 'zipLongest', 'concat', 'plus', 'insertMany', 'replaceMany', 'defaultIfEmpty', 'selectMany']
SEC_PIPE_OPS = ['select', 'where', 'skip', 'take', 'takeWhile', 'skipWhile', 'distinct', 'enumerate', 'memorize', 'attr',
                'selectMany', 'accumulate', 'slice', 'append', 'delete']
SEC_POST_OPS = ['take', 'skip', 'memorize', 'enumerate', 'first', 'any', 'slice', 'distinct', 'indexOf']


def eff_prim(sec):
    """the elements of the receiver: a list literal, optionally behind a probe-free filter (which makes it an iterator)"""
    return tuple(v for v in sec['prim'] if sec.get('gt') is None or v > sec['gt'])


def gen_sec_case(rng, kind):
    as_dict = rng.random() < 0.15
    base = [rng.choice([0, 1, 2, 3, 4, 5, 7]) for _ in range(rng.choice([1, 2, 3, 3, 4, 5]))]
    if rng.random() < 0.15:
        base = []
    delta = rng.choice([0, 1, 1, 2, 3, len(base) or 1])
    shape = 'dict' if as_dict else 'int'
    ops = []
    for _ in range(rng.choice([0, 1, 1, 1, 2, 2, 3])):
        n = rng.choice(SEC_PIPE_OPS)
        if n == 'attr' and shape != 'dict':
            n = 'select'
        a, shape = gen_stage(rng, n, shape)
        ops.append(a)
    prim = tuple(rng.choice([0, 1, 2, 3, 5, 8]) for _ in range(rng.choice([0, 1, 1, 2, 2, 2, 3, 3])))
    sec = dict(kind=kind, prim=prim, gt=None)
    r = rng.random()
    if r < 0.08:
        sec['gt'] = 100                                   # filtered to empty
    elif r < 0.3:
        sec['gt'] = rng.choice([0, 1, 2, 4])
    out = 'other'
    if kind == 'join':
        if shape == 'int':
            sec['f2'] = rng.choice([['gt'], ['eq'], ['const', True], ['const', True], ['on1', ['eq', ['mod', ARG, 2], 0]],
                                    ['on2', ['gt', ARG, 1]], ['on2', ['eq', ['mod', ARG, 3], 0]], ['const', False]])
            sec['g2'] = rng.choice([['pair'], ['plus'], ['fst'], ['snd'], ['max']])
            out = 'pair' if sec['g2'][0] == 'pair' else 'int'
        else:
            sec['f2'] = rng.choice([['const', True], ['const', True], ['on1', ['gt', ARG, 1]], ['const', False]])
            sec['g2'] = rng.choice([['pair'], ['fst'], ['snd']])
            out = 'int' if sec['g2'][0] == 'fst' else shape if sec['g2'][0] == 'snd' else 'other'
    elif kind in ('zip', 'zipLongest', 'concat'):
        sec['before'] = (small_ints(rng, 0, 4),) if rng.random() < 0.25 else ()
        sec['after'] = (small_ints(rng, 0, 4),) if rng.random() < 0.35 else ()
        if kind == 'zipLongest' and rng.random() < 0.5:
            sec['v'] = rng.choice([None, 0, 100])
        out = shape if kind == 'concat' and shape == 'int' else 'other'
    elif kind == 'plus':
        out = shape if shape == 'int' else 'other'
    elif kind == 'insertMany':
        sec['n'] = rng.choice([-1, 0, 0, 1, 2, 5])
        out = shape if shape == 'int' else 'other'
    elif kind == 'replaceMany':
        sec['n'] = rng.choice([-1, 0, 0, 1, 2, 5])
        sec['m'] = rng.choice([None, None, 0, 1, 2, -1])
        out = shape if shape == 'int' else 'other'
    elif kind in ('defaultIfEmpty', 'selectMany'):
        if kind == 'selectMany':
            sec['prim'] = prim[:1]
        out = shape if shape == 'int' else 'other'
    post = []
    if rng.random() < 0.35:
        n = rng.choice(SEC_POST_OPS)
        a, out = gen_stage(rng, n, out)
        post.append(a)
    terminal = bool(post) and post[-1]['op'] in TERMINAL_OPS
    k = 1 if terminal else rng.randrange(0, 7)
    ln = rng.choice([None, None, None, 0, 1, 2, 3, 5])
    return dict(base=base, delta=delta, dict=as_dict, k=k, ops=ops, terminal=terminal, sec=sec, post=post, len=ln)


def prim_text(sec):
    t = seqref.lit(tuple(sec['prim']))
    return t if sec.get('gt') is None else '%s.where($ > %d)' % (t, sec['gt'])


def sec_text(sec, s):
    """yaql text of the operator with the pipeline text `s` in its secondary collection argument"""
    p, kind, lit = prim_text(sec), sec['kind'], seqref.lit
    if kind == 'join':
        return '%s.join(%s, %s, %s)' % (p, s, seqref.rl2w(sec['f2']), seqref.rl2w(sec['g2']))
    if kind in ('zip', 'zipLongest', 'concat'):
        ps = [lit(b) for b in sec['before']] + [s] + [lit(b) for b in sec['after']]
        if 'v' in sec:
            ps.append('default => ' + lit(sec['v']))
        return '%s.%s(%s)' % (p, kind, ', '.join(ps))
    if kind == 'plus':
        return '(%s + %s)' % (p, s)
    if kind == 'insertMany':
        return '%s.insertMany(%s, %s)' % (p, lit(sec['n']), s)
    if kind == 'replaceMany':
        return '%s.replaceMany(%s)' % (p, seqref.args(lit(sec['n']), s, lit(sec['m']) if sec.get('m') is not None else None))
    if kind == 'defaultIfEmpty':
        return '%s.defaultIfEmpty(%s)' % (p, s)
    if kind == 'selectMany':
        return '%s.selectMany(%s)' % (p, seqref.WRAP % s)
    raise ValueError(kind)


def sec_json(sec):
    enc = values.enc
    prim = eff_prim(sec)
    j = dict(kind='concat' if sec['kind'] == 'plus' else sec['kind'], prim=[enc(v) for v in prim])
    if sec['kind'] == 'join':
        j['f2'], j['g2'] = seqref.lam2_json(sec['f2'], enc), seqref.lam2_json(sec['g2'], enc)
    if sec['kind'] in ('zip', 'zipLongest', 'concat', 'plus'):
        j['before'] = [[enc(v) for v in b] for b in (prim,) + tuple(sec.get('before', ()))]
        j['after'] = [[enc(v) for v in b] for b in sec.get('after', ())]
    for k in ('n', 'm'):
        if sec.get(k) is not None:
            j[k] = sec[k]
    if 'v' in sec:
        j['v'] = enc(sec['v'])
    return j


def sec_ref(sec, s, count):
    """the documented meaning of the operator over the lazy secondary collection `s` (plain Python)"""
    prim = eff_prim(sec)
    recv = prim if sec.get('gt') is None else iter(prim)       # a filtered receiver is a one-shot iterator
    kind, R = sec['kind'], seqref.REF
    if kind == 'join':
        return R.join(recv, dict(vs=s, f2=sec['f2'], g2=sec['g2']))
    if kind == 'zip':
        return R.zip(recv, dict(vss=tuple(sec['before']) + (s,) + tuple(sec['after'])))
    if kind == 'zipLongest':
        a = dict(vss=tuple(sec['before']) + (s,) + tuple(sec['after']))
        if 'v' in sec:
            a['v'] = sec['v']
        return R.zipLongest(recv, a)
    if kind == 'concat':
        return R.concat(recv, dict(vss=tuple(sec['before']) + (s,) + tuple(sec['after'])))
    if kind == 'plus':
        return itertools.chain(iter(recv), s)
    if kind == 'insertMany':
        return R.insertMany(recv, dict(n=sec['n'], vs=s))
    if kind == 'replaceMany':
        return R.replaceMany(recv, dict(n=sec['n'], vs=s, m=sec.get('m')))
    if kind == 'defaultIfEmpty':
        return R.defaultIfEmpty(recv, dict(vs=s))
    if kind == 'selectMany':
        def gen():
            for _ in recv:
                count[0] += 1          # the selector is applied to the element; its result is gone through lazily
                yield from s
        return gen()
    raise ValueError(kind)


# ------------------------------------------------------------------ the three measurements

_STATE = {}


# The consumption bound is a property of the operators, not of one engine configuration: every case runs on one member of
# an engine FAMILY - the base engine, or an engine derived from it (`engine.copy(delta)` kept alive / `engine(text,
# options=delta)`) whose options differ in what the iterator plumbing looks at: no limit and no memory quota (the limiter
# and the quota checks are wrappers around every lazy stage), a very large limit, unconverted input (the source is not
# wrapped by convert_input_data), iterable dictionaries, tuples / sets kept in the output.  Which member: from the text.
ENGINE_DELTAS = [None, None, None,
                 {'yaql.limitIterators': -1, 'yaql.memoryQuota': -1},
                 {'yaql.convertInputData': False},
                 {'yaql.iterableDicts': True},
                 {'yaql.convertTuplesToLists': False, 'yaql.convertSetsToLists': False},
                 {'yaql.limitIterators': 1000000, 'yaql.memoryQuota': -1},
                 {'yaql.limitIterators': -1, 'yaql.convertInputData': False, 'yaql.iterableDicts': True}]
MEMBER_HIST = {}


def pick_member(text, case):
    """-> (index into ENGINE_DELTAS, 'base' | 'copy' | 'percall')"""
    h = zlib.crc32(text.encode('utf8', 'replace'))
    i = h % len(ENGINE_DELTAS)
    d = ENGINE_DELTAS[i]
    if d is not None and d.get('yaql.convertInputData') is False and case['dict']:
        i, d = 0, None          # (unconverted dictionaries are unhashable: another domain of values)
    how = 'base' if d is None else ('copy' if (h >> 8) % 2 else 'percall')
    return i, how


def member_statement(eng, text, i, how):
    """the statement of `text` asked from the member; the base engine has seen the text first half of the time"""
    if how == 'base':
        return eng(text), eng
    d = ENGINE_DELTAS[i]
    if zlib.crc32(text.encode('utf8', 'replace')) >> 9 & 1:
        try:
            eng(text)
        except Exception:       # noqa
            pass
    if how == 'copy':
        copies = _STATE.setdefault('copies', {})
        if i not in copies:
            copies[i] = eng.copy(d)
        return copies[i](text), copies[i]
    st = eng(text, options=d)
    return st, st.engine


def plain(v):
    """the result with tuples / sets as lists (members whose finaliser keeps them)"""
    if isinstance(v, (tuple, list, set, frozenset)):
        return [plain(x) for x in v]
    if isinstance(v, dict):
        return {k: plain(x) for k, x in v.items()}
    return v


def setup_engine():
    if 'eng' not in _STATE:
        import yaql
        from yaql.language import specs
        eng = yaql.YaqlFactory().create(options=OPTIONS)
        ctx = yaql.create_context()
        counter = [0]

        @specs.name('tick')
        def tick():
            counter[0] += 1
            return True
        ctx.register_function(tick)
        _STATE.update(eng=eng, ctx=ctx, counter=counter)
    return _STATE['eng'], _STATE['ctx'], _STATE['counter']


PLACE_ROOT = {'root': '$', 'dict': '$.src', 'list': '$[0]', 'deep': '$.a[1].b', 'iface': '$1'}


def place_data(place, src):
    return {'root': src, 'dict': {'src': src, 'n': 1}, 'list': [src, 1], 'deep': {'a': [0, {'b': src}]}}[place]


def case_text(case):
    seqref.WRAP = 'tick() and (%s)'
    try:
        if case.get('sec'):
            t = sec_text(case['sec'], seqref.render(case['ops'], root='$src'))
            for a in case['post']:
                t = seqref.render_op(t, a)
        else:
            t = seqref.render(case['ops'], root=PLACE_ROOT[case.get('place') or 'root'])
    finally:
        seqref.WRAP = '%s'
    return t if case['terminal'] else '%s.take(%d)' % (t, case['k'])


def run_real_once(case, timeout=4):
    eng, ctx, counter = setup_engine()
    text = case_text(case)
    srcobj = Source(case['base'], case['delta'], case['dict'], n=case.get('len'))
    counter[0] = 0
    try:
        mi, how = pick_member(text, case)
        MEMBER_HIST[(mi, how)] = MEMBER_HIST.get((mi, how), 0) + 1
        st, eng = member_statement(eng, text, mi, how)
        child = ctx.create_child_context()
        if case.get('sec'):
            from yaql.language import utils as yutils
            # what evaluate(data=..) does for `$`
            child['src'] = yutils.convert_input_data(srcobj) if eng.options.get('yaql.convertInputData', True) else srcobj
        signal.signal(signal.SIGALRM, c13._alarm)
        signal.setitimer(signal.ITIMER_REAL, timeout)
        try:
            place = case.get('place') or 'root'
            if case.get('sec'):
                r = st.evaluate(context=child)
            elif place == 'iface':
                from yaql import yaql_interface
                r = yaql_interface.YaqlInterface(child, eng)(text, srcobj)
            else:
                r = st.evaluate(data=place_data(place, srcobj), context=child)
        finally:
            signal.setitimer(signal.ITIMER_REAL, 0)
        return dict(kind='ok', value=plain(r), pulls=srcobj.pulls, apps=counter[0], text=text)
    except c13.Timeout:
        return dict(kind='timeout', pulls=srcobj.pulls, apps=counter[0], text=text)
    except Exception as e:
        return dict(kind='err', cls=type(e).__name__, pulls=srcobj.pulls, apps=counter[0], text=text)


def run_real(case, timeout=4):
    r = run_real_once(case, timeout)
    if r['kind'] == 'timeout':          # believed only when it repeats with a much longer allowance
        r = run_real_once(case, 4 * timeout)
    return r


def run_ref(case):
    srcobj = Source(case['base'], case['delta'], case['dict'], frozen=True, n=case.get('len'))
    count = [0]

    def hook(f):
        def g(*a):
            count[0] += 1
            return f(*a)
        return g
    seqref.HOOK = hook
    try:
        last = [] if case['terminal'] else [{'op': 'take', 'n': case['k']}]
        try:
            if case.get('sec'):
                lazy = seqref.run_lazy(srcobj, list(case['ops']))
                r = seqref.run_ref(sec_ref(case['sec'], seqref.it(lazy), count), list(case['post']) + last)
            else:
                r = seqref.run_ref(srcobj, list(case['ops']) + last)
            return dict(kind='ok', value=r, pulls=srcobj.pulls, apps=count[0])
        except OOD:
            return dict(kind='ood')
        except Exception as e:
            return dict(kind='err', cls=type(e).__name__, pulls=srcobj.pulls, apps=count[0])
    finally:
        seqref.HOOK = None


def model_request(case):
    rq = dict(base=case['base'], delta=case['delta'], dict=case['dict'], n=N_PREFIX, k=case['k'],
              ops=[seqref.op_json(a, values.enc) for a in case['ops']])
    if case.get('sec'):
        rq.update(sec=sec_json(case['sec']), post=[seqref.op_json(a, values.enc) for a in case['post']], len=case.get('len'))
    return rq


def model_summary(m, case):
    """-> None (no prediction) | dict(kind, value/cls, pulls, apps)"""
    if m is None or 'err' in m and 'outs' not in m:
        return None
    outs = m['outs']
    for i, o in enumerate(outs):
        if 'err' in o:
            if o['err'] in ('OOD', '*'):
                return None
            return dict(kind='err', cls=o['err'], pulls=o['pulls'], apps=o['apps'])
    if not m['enough']:
        if m.get('fin') is None or case['terminal']:
            return None
        # the pipeline ends by itself with fewer than k results: all of them, at the cost of reaching its end
        vals = [c13.dec_model(o['v']) for o in outs]
        return dict(kind='ok', value=vals, pulls=m['fin'][0], apps=m['fin'][1])
    if case['k'] == 0 and not case['terminal']:
        return dict(kind='ok', value=[], pulls=0, apps=0)
    last = outs[-1]
    vals = [c13.dec_model(o['v']) for o in outs]
    return dict(kind='ok', value=vals[0] if case['terminal'] else vals, pulls=last['pulls'], apps=last['apps'])


def evaluate_case(case, mreply):
    mod = model_summary(mreply, case)
    if mod is None:
        return None, dict(skipped=True)
    if case.get('len') is not None:         # a finite source: elements handed out (the request that finds the end is not one)
        mod['pulls'] = min(mod['pulls'], case['len'])
    real = run_real(case)
    ref = run_ref(case)
    info = dict(real=real, ref=ref, model=mod, text=real['text'])
    where = '%s over source %sbase=%r delta=%d%s%s' % (
        real['text'], '$src ' if case.get('sec') else '', case['base'], case['delta'], ' (dicts)' if case['dict'] else '',
        '' if case.get('len') is None else ' of %d elements' % case['len'])
    if real['kind'] == 'timeout':
        return ('oracle', '%s: no result within the watchdog after %d pulls / %d lambda applications (the %d results need %s pulls)' % (
            where, real['pulls'], real['apps'], case['k'], ref.get('pulls', mod['pulls']))), info
    # results
    ok_ref = None
    if ref['kind'] != 'ood':
        if real['kind'] != ref['kind']:
            ok_ref = False
        elif real['kind'] == 'err':
            ok_ref = real['cls'] == ref['cls']
        else:
            ok_ref = c13.match_fin(ref['value'], real['value'])
    if real['kind'] != mod['kind']:
        ok_mod = False
    elif real['kind'] == 'err':
        ok_mod = real['cls'] == mod['cls']
    else:
        ok_mod = c13.match_fin(mod['value'], real['value'])
    if ok_ref is False and not ok_mod:
        return ('oracle', '%s: real %s, documented meaning %s (model %s)' % (where, brief(real), brief(ref), brief(mod))), info
    if ok_ref is False or not ok_mod:
        return ('mismatch', '%s: results: real %s, reference %s, model %s' % (where, brief(real), brief(ref), brief(mod))), info
    # consumption: what the k results require plus one
    if ref['kind'] != 'ood':
        if real['pulls'] > ref['pulls'] + 1:
            return ('oracle', '%s: %d source elements consumed; the first %d results require %d (+1 allowed)' % (
                where, real['pulls'], case['k'], ref['pulls'])), info
        if real['apps'] > ref['apps'] + 1:
            return ('oracle', '%s: %d lambda applications; the first %d results require %d (+1 allowed)' % (
                where, real['apps'], case['k'], ref['apps'])), info
    if real['pulls'] > mod['pulls'] + 1 or real['apps'] > mod['apps'] + 1:
        return ('mismatch', '%s: real pulls/apps %d/%d exceed the model cost %d/%d + 1 (reference %s/%s)' % (
            where, real['pulls'], real['apps'], mod['pulls'], mod['apps'], ref.get('pulls'), ref.get('apps'))), info
    return None, info


def brief(r):
    if r['kind'] == 'ok':
        return 'ok %r' % (r['value'],)
    if r['kind'] == 'err':
        return 'err ' + r['cls']
    return r['kind']


def case_to_json(case):
    j = dict(case)
    j['ops'] = [seqref.op_json(a, values.enc) for a in case['ops']]
    if case.get('sec'):
        j['post'] = [seqref.op_json(a, values.enc) for a in case['post']]
        j['sec'] = dict(case['sec'])          # ints, None, nested lists only
    return j


def case_from_json(j):
    c = dict(j)
    c['ops'] = [c13.op_from_json(o) for o in j['ops']]
    if j.get('sec'):
        c['post'] = [c13.op_from_json(o) for o in j['post']]
        sec = dict(j['sec'])
        sec['prim'] = tuple(sec['prim'])
        for k in ('before', 'after'):
            if k in sec:
                sec[k] = tuple(tuple(b) for b in sec[k])
        c['sec'] = sec
    return c


def ask(drv, cases):
    if drv is None:
        return [None] * len(cases)
    out = []
    for i in range(0, len(cases), 100):
        out += drv.ask({'p': 'C14', 'cases': [model_request(c) for c in cases[i:i + 100]]})['res']
    return out


def fails(case, drv, kind):
    try:
        f, _ = evaluate_case(case, ask(drv, [case])[0])
    except Exception:
        return None
    return f if f and f[0] == kind else None


def shrink_sec(case, drv, kind):
    changed = True
    while changed:
        changed = False
        cands = [dict(case, ops=case['ops'][:i] + case['ops'][i + 1:]) for i in range(len(case['ops']) - 1, -1, -1)]
        if case['post']:
            cands.append(dict(case, post=[], terminal=False))
        sec = case['sec']
        if sec.get('gt') is not None:
            cands.append(dict(case, sec=dict(sec, gt=None, prim=eff_prim(sec))))
        cands += [dict(case, sec=dict(sec, prim=sec['prim'][:i] + sec['prim'][i + 1:])) for i in range(len(sec['prim']))]
        for k in ('before', 'after'):
            if sec.get(k):
                cands.append(dict(case, sec=dict(sec, **{k: ()})))
        if not case['terminal'] and case['k'] > 0:
            cands.append(dict(case, k=case['k'] - 1))
        if case.get('len'):
            cands.append(dict(case, len=case['len'] - 1))
        if len(case['base']) > 1:
            cands.append(dict(case, base=case['base'][:-1]))
        for cand in cands:
            if fails(cand, drv, kind):
                case, changed = cand, True
                break
    return case


def shrink(case, drv, kind):
    if case.get('sec'):
        return shrink_sec(case, drv, kind)
    changed = True
    while changed:
        changed = False
        for i in range(len(case['ops']) - 1, -1, -1):
            ops = case['ops'][:i] + case['ops'][i + 1:]
            if not ops:
                continue
            cand = dict(case, ops=ops, terminal=ops[-1]['op'] in TERMINAL_OPS)
            if cand['terminal']:
                cand['k'] = 1
            if fails(cand, drv, kind):
                case, changed = cand, True
                break
        if not case['terminal'] and case['k'] > 1:
            cand = dict(case, k=case['k'] - 1)
            if fails(cand, drv, kind):
                case, changed = cand, True
        if len(case['base']) > 1:
            cand = dict(case, base=case['base'][:-1])
            if fails(cand, drv, kind):
                case, changed = cand, True
    return case


def answered(drv, cases, chunk):
    """(case, model reply) pairs, the model asked chunk by chunk"""
    for i in range(0, len(cases), chunk):
        part = cases[i:i + chunk]
        for pair in zip(part, ask(drv, part)):
            yield pair


def run(env, res):
    drv = env['driver']
    tier = env['tier']
    rng = common.make_rng(env['seed'], 'C14')
    res.rule = ('secondary lazy collection arguments of join/zip/zipLongest/concat/+/insertMany/replaceMany/defaultIfEmpty/'
                'selectMany fed by a pipeline over the instrumented source (endless or finite, receiver constant, possibly empty); '
                'and pipelines of <= 4 streaming operators (each of the 27 listed operators is the focus of an equal share) '
                'over an instrumented endless arithmetic-periodic source, k in 0..6, lambdas from the Lam family containing '
                'tick(); distinct = distinct (expression, source); non-trivial = the case was run (model produces the k '
                'results within %d source elements) and at least one element was pulled' % N_PREFIX)
    if env['replay'] and 'src_target' in (json.load(open(env['replay'])).get('case') or {}):
        srcobl.differential(env, res, 'C14')
        return res
    if env['replay']:
        rp = json.load(open(env['replay']))
        cases = [case_from_json(rp['case'])]
    else:
        cases = None
    focuses = STREAM_OPS + TERMINAL_OPS

    def chunks():
        """the quick tier's 150 cases per focus; thorough: then rounds of 50 more per focus (up to 4000), generated as they
        are needed - the tier is sized by wall clock (every real run sits under a watchdog)"""
        if cases is not None:
            yield cases
            return
        yield [gen_case(rng, f) for f in focuses for _ in range(150)] + [gen_sec_case(rng, f) for f in SEC_KINDS for _ in range(150)]
        if tier != 'quick':
            for _ in range(77):
                yield [gen_case(rng, f) for f in focuses for _ in range(50)] + [gen_sec_case(rng, f) for f in SEC_KINDS for _ in range(50)]

    t0 = time.time()
    budget = float(os.environ.get('VERIF_THOROUGH_S') or 480)
    hist = dict(second_arg={}, skipped=0, exact_pulls=0, exact_apps=0, run=0, real_err=0, by_focus={}, k={}, stages={}, slack_pulls={}, slack_apps={})
    generated, last = 0, 0.0

    def pairs():
        nonlocal generated, last
        for n, chunk in enumerate(chunks()):
            if n and (time.time() - t0) + 1.2 * last > budget:
                hist['stopped_by_wall_clock_budget_s'] = budget
                return
            t1 = time.time()
            generated += len(chunk)
            for pair in answered(drv, chunk, 950):
                yield pair
            last = time.time() - t1

    for case, mr in pairs():
        f, info = evaluate_case(case, mr)
        text = case_text(case)
        ran = not info.get('skipped')
        res.case(common.digest([text, case['base'], case['delta'], case['dict']]), ran and info['real'].get('pulls', 0) > 0,
                 sample=dict(text=text, base=case['base'], delta=case['delta']) if len(res.samples) < 4 else None)
        if not ran:
            hist['skipped'] += 1
            continue
        res.traces += 1
        hist['run'] += 1
        real, mod = info['real'], info['model']
        hist['k'][str(case['k'])] = hist['k'].get(str(case['k']), 0) + 1
        hist['stages'][str(len(case['ops']))] = hist['stages'].get(str(len(case['ops'])), 0) + 1
        for a in case['ops'] + case.get('post', []):
            hist['by_focus'][a['op']] = hist['by_focus'].get(a['op'], 0) + 1
        if case.get('sec'):
            sk = 'second-arg:' + case['sec']['kind']
            hist['by_focus'][sk] = hist['by_focus'].get(sk, 0) + 1
            for tag, cond in (('empty-receiver', not eff_prim(case['sec'])), ('finite-source', case.get('len') is not None),
                              ('iterator-receiver', case['sec'].get('gt') is not None)):
                if cond:
                    hist['second_arg'][tag] = hist['second_arg'].get(tag, 0) + 1
        if real['kind'] == 'err':
            hist['real_err'] += 1
        if real['kind'] != 'timeout':
            dp, da = real['pulls'] - mod['pulls'], real['apps'] - mod['apps']
            hist['exact_pulls'] += dp == 0
            hist['exact_apps'] += da == 0
            hist['slack_pulls'][str(dp)] = hist['slack_pulls'].get(str(dp), 0) + 1
            hist['slack_apps'][str(da)] = hist['slack_apps'].get(str(da), 0) + 1
        if f:
            small = shrink(case, drv, f[0])
            g = fails(small, drv, f[0]) or f
            key = '.'.join(a['op'] for a in small['ops'])
            if small.get('sec'):
                key = '.'.join([small['sec']['kind'] + '-second-arg'] + [a['op'] for a in small['ops'] + small['post']])
            res.fail(g[0], key[:60], g[1], case_to_json(small))
            if len(res.failures) >= 8 or sum('watchdog' in x.what for x in res.failures) >= 2:
                break
    if not env['replay']:
        srcobl.differential(env, res, 'C14')     # take_while / skip_while / skip / limit: source vs translation vs model
    hist['cases_generated'] = generated
    hist['engine_family_members'] = {'%s:%s' % (how, json.dumps(ENGINE_DELTAS[i], sort_keys=True) if ENGINE_DELTAS[i] else 'base options'): n
                                     for (i, how), n in sorted(MEMBER_HIST.items())}
    res.extra['histogram'] = hist
    res.extra['correspondence_wall_s'] = round(time.time() - t0, 1)
    return res


LEVEL_TEXT = ('Lean 4 theorems about a cost model in which every streaming operator is a machine (reaction before the first '
              'pull, per pulled element, at exhaustion) and every produced element is stamped with the number of source '
              'elements pulled and of lambda applications made: causality for ANY machine and for pipelines of ANY length '
              '(the results produced within n pulls, with their stamps, depend on the first n source elements only - '
              'causal, causal_pipeline, causal_<op> for the 25 listed operators and for the machines over a SECONDARY lazy '
              'collection argument: join inner side, zip/zipLongest/concat/+ further collections, insertMany/replaceMany values, '
              'defaultIfEmpty default, selectMany result), explicit cost formulas / bounds per '
              'operator (cost_tight_*), the cost of a pipeline as the composition of the stage costs (compose_cost, '
              'runPipe_ext) and totality on endless sources with fuel = cost (endless_total). The model is tied to the code '
              'by running generated pipelines on an instrumented endless source with tick() in every lambda against the '
              'model and an independent Python transcription (results equal; pulls and applications <= cost + 1), each '
              'case under a watchdog, and by a table of AST use-facts of the payloads re-proved lazy on every run.')
LEVEL_NOTE = ('trusted: Lean kernel; the hand-written model Yaql/Model/Stream.lean (machines written from the generator '
              'functions / itertools objects of queries.py and collections.py); the instrumentation (pull counter in the '
              'host iterator, tick() first in every lambda); harness/seqref.py as the reference for "what k results '
              'require"; the AST classification of harness/gens/streamfacts.py. Cases whose k results the model cannot '
              'produce within 150 source elements (non-terminating demands) are not run.')
TECHNIQUE = 'Lean 4 proof (generic causality of stream machines, per-operator cost bounds) + instrumented differential run'
DESIGN_REF = 'DESIGN.md section 5, C14'
