"""C15 - scalar operators form a consistent arithmetic and ordering.

Correspondence: every unary and binary scalar operator of the default engine is evaluated by the
real engine (`$a OP $b`, operands bound as context variables) on ALL PAIRS of a boundary-rich corpus
(null, booleans, 0, +-1, 2**53+-1, 2**63+-1, 10**40, the float(int) overflow tie, signed zeros,
subnormals, huge floats, +-inf, NaN, empty / multi-code-point / astral strings, plus seeded random
ints, doubles and strings) and by the compiled Lean model (Yaql.Scalar: exact integers, exact
int/float comparison, float(int) by integer arithmetic, exact fmod; + - * / of two doubles through
Lean `Float`); relation: the same value (floats bit for bit, any NaN = any NaN) or the same
exception class.

Oracle (on the real code alone): (1) the laws of the statement checked on the table of real
results - a > b iff b < a, a >= b iff b <= a, a <= b iff a < b or a = b, exactly one of < = >,
!= is not =, transitivity over triples, null below every non-null value, a boolean / an unrelated
kind is rejected with NoMatchingFunctionException, a = (a / b) * b + (a mod b) with the remainder in
range (evaluated by the engine and re-checked with Python big ints), int op float = float(int) op
float; (2) the value clause: the real result equals the plain-Python transcription `ref_bin` /
`ref_un` of the documented meaning (Python's own big-int and float operators applied after the kind
rules of the statement), so a slip in the Lean model shows up as a mismatch, not as a violation."""
import json
import math
import struct

import zlib
import common
import floatref
import pyfacts
import srcobl
import values
import yaql
from yaql.language import exceptions as yexc
from yaql.language import factory

ID = 'C15'
LEAN_MODULES = ['Yaql.Props.C15', 'Yaql.Props.C15Gen', 'Yaql.Props.C15Float', 'Yaql.Props.FloatRound'] + \
    srcobl.modules('C15')    # Props/SrcScalar: the payloads of Scalar.run equal the translation of the current source
_P = 'Yaql.Props.C15.'
REQUIRED_THEOREMS = [_P + n for n in (
    'select_bin', 'select_un', 'int_exact', 'int_ring_laws', 'floor_div_mod', 'mixed_is_float',
    'gt_flip', 'ge_flip', 'le_iff', 'trichotomy', 'lt_trans', 'order_consistent', 'mixed_compare_exact',
    'nan_unordered', 'null_bottom', 'null_null', 'bool_not_number', 'bool_not_number_unary',
    'unrelated_no_match', 'unrelated_no_match_unary', 'related_matches', 'error_classes', 'dispatch_unique',
    'string_ops', 'repetition', 'truth_ops')] + [
    'Yaql.Props.C15Gen.operator_overloads', 'Yaql.Props.C15Gen.overloads_plain',
    'Yaql.Props.C15Gen.operators_covered',
    'Yaql.Props.C15.float_of_int', 'Yaql.Props.C15.toFloat_eq_roundRat',
    'Yaql.Props.FloatRound.roundRat_nearest', 'Yaql.Props.FloatRound.roundRat_exact',
    'Yaql.Props.FloatRound.roundRat_tie_even', 'Yaql.Props.FloatRound.roundRat_overflow_iff_rat',
    'Yaql.Props.FloatRound.roundRat_mono', 'Yaql.Props.FloatRound.roundRat_neg', 'Yaql.Props.FloatRound.roundRat_congr',
    'Yaql.Props.FloatRound.roundRat_total', 'Yaql.Props.FloatRound.decode_encodeScaled',
    'Yaql.Props.FloatRound.encodeScaled_decode'] + srcobl.theorems('C15')
TRUSTED = ['the four IEEE-754 operations + - * / on two doubles are parameters of the theorems; the driver uses the '
           "machine's doubles through Lean `Float`, CPython through C `double` (same hardware); NaN sign/payload is "
           'not compared.  NOT trusted any more: float(int) rounding - it is FloatRound.roundRat i 1, proved exact up to 2**53, '
           'nearest, ties to even, OverflowError exactly from 2**1024 - 2**970, monotone (C15.float_of_int)',
           'the probe values per kind used by harness/gens/scalarops.py to describe what a parameter type accepts']
ASSUMPTIONS = ['default engine options (no memory quota), default context; operands are bound as variables',
               'string repetition is not exercised where the result would have between 4096 and 2**48 characters '
               '(the model takes the allocator capacity as a parameter)',
               'strings contain no lone surrogates (not representable as Lean `Char`)',
               '=~ and !~ (regex module) are outside the property anchors and not modelled']

BIN_OPS = ['*', '/', 'mod', '+', '-', '>', '<', '>=', '<=', '!=', '=', 'in', 'and', 'or']
UN_OPS = ['+', '-', 'not']
ARITH = ('+', '-', '*', '/', 'mod')
ORD = ('<', '<=', '>', '>=')
NOMATCH = ('e', 'NoMatchingFunctionException')
CAP = 2 ** 48 - 1
GRAY_LO = 4096

ENGINE = factory.YaqlFactory().create()
BASE_CTX = yaql.create_context()
ALT = {}          # id(statement with $a / $b) -> the same expression over other ways of handing the operands over


def _stmt(text):
    st = ENGINE(text)
    ALT[id(st)] = dict(doc=ENGINE(text.replace('$a', '$.a').replace('$b', '$.b')),
                       lst=ENGINE(text.replace('$a', '$[0]').replace('$b', '$[1]')),
                       iface=text.replace('$a', '$1').replace('$b', '$2'))
    return st


EXPR_BIN = {op: _stmt('$a %s $b' % op) for op in BIN_OPS}
EXPR_UN = {op: _stmt('%s $a' % op) for op in UN_OPS}
EXPR_DIVID = _stmt('($a / $b) * $b + ($a mod $b) = $a')
PATH_HIST = {}


def generate():
    info = dict(pyfacts.run(['ScalarOps'])['ScalarOps'])
    info.update(srcobl.generate('C15'))      # re-translate math.py / common.py / boolean.py (harness/py2lean.py)
    return info


# the operator each translated payload implements: (operator, 'bin'|'un', how its arguments become operands)
def _ab(a, b):
    return a, b


SRC_OPS = dict(
    binary_plus=('+', _ab), binary_minus=('-', _ab), multiplication=('*', _ab), division=('/', _ab), modulo=('mod', _ab),
    gt=('>', _ab), gte=('>=', _ab), lt=('<', _ab), lte=('<=', _ab),
    str_gt=('>', _ab), str_gte=('>=', _ab), str_lt=('<', _ab), str_lte=('<=', _ab), eq=('=', _ab), neq=('!=', _ab),
    left_lt_null=('<', lambda a, b: (a, None)), left_lte_null=('<=', lambda a, b: (a, None)),
    left_gt_null=('>', lambda a, b: (a, None)), left_gte_null=('>=', lambda a, b: (a, None)),
    null_lt_right=('<', lambda a, b: (None, b)), null_lte_right=('<=', lambda a, b: (None, b)),
    null_gt_right=('>', lambda a, b: (None, b)), null_gte_right=('>=', lambda a, b: (None, b)),
    null_lt_null=('<', lambda a, b: (None, None)), null_lte_null=('<=', lambda a, b: (None, None)),
    null_gt_null=('>', lambda a, b: (None, None)), null_gte_null=('>=', lambda a, b: (None, None)),
    and_=('and', lambda a, b: (a(), b())), or_=('or', lambda a, b: (a(), b())),
)
SRC_UN = dict(unary_minus='-', unary_plus='+', not_='not')


def src_oracle(t, pyargs, real):
    """a candidate from the source-level differential (current source of a payload != model): the operator expression
    evaluated by the real engine against the transcription of the documented meaning"""
    if t.name in SRC_UN:
        op, a = SRC_UN[t.name], pyargs[0]
        r, o = real_eval(EXPR_UN[op], a), ref_un(op, a)
        case = dict(op=op, a=values.enc(a), un=True)
        text = '%s %r' % (op, a)
    elif t.name in SRC_OPS:
        op, f = SRC_OPS[t.name]
        a, b = f(*pyargs)
        if gray(op, a, b):
            return None
        r, o = real_eval(EXPR_BIN[op], a, b), ref_bin(op, a, b)
        case = dict(op=op, a=values.enc(a), b=values.enc(b))
        text = '%r %s %r' % (a, op, b)
    else:
        return None
    if r != o:
        return ('value:' + op, '%s evaluates to %r, the documented meaning is %r  [found through the source-level '
                'differential of %s]' % (text, r, o, t.qual), case)
    return None


# ------------------------------------------------------------------ values

def kind(v):
    if v is None:
        return 'null'
    if isinstance(v, bool):
        return 'bool'
    if isinstance(v, int):
        return 'int'
    if isinstance(v, float):
        return 'float'
    if isinstance(v, str):
        return 'str'
    return 'other'


def is_num(v):
    return kind(v) in ('int', 'float')


def is_nan(v):
    return isinstance(v, float) and v != v


def cval(v):
    """canonical JSON-able form of a python value (floats by bits, every NaN the same)"""
    if is_nan(v):
        return {'f': 'nan'}
    try:
        return values.canon(values.enc(v))
    except (TypeError, ValueError):
        return {'repr': repr(v)[:200]}


def cres_model(r):
    if 'e' in r:
        return ('e', r['e'])
    v = r['v']
    if isinstance(v, dict) and 'f' in v and is_nan(values.bits2f(v['f'])):
        v = {'f': 'nan'}
    return ('v', v)


def f_of_bits(n):
    return struct.unpack('>d', struct.pack('>Q', n))[0]


DBL_MAX = 1.7976931348623157e308
BOUNDARY = [
    None, True, False,
    0, 1, -1, 2, -2, 3, 7, -7, 10,
    2 ** 53 - 1, 2 ** 53, 2 ** 53 + 1, -(2 ** 53) - 1, 2 ** 63 - 1, 2 ** 63, 2 ** 63 + 1, -(2 ** 63), -(2 ** 63) - 1,
    10 ** 40, -(10 ** 40), 2 ** 1023, 2 ** 1024 - 2 ** 970 - 1, 2 ** 1024 - 2 ** 970, -(2 ** 1024), 10 ** 400,
    0.0, -0.0, 1.0, -1.0, 0.5, 1.5, -2.5, 3.0, 0.1, 7.0, 9007199254740992.0, -9007199254740994.0, 9.223372036854775807e18,
    1e16, 1e40, 1e308, -1e308, DBL_MAX, -DBL_MAX, 5e-324, -5e-324, 2.2250738585072014e-308, 2.225073858507201e-308,
    1e-320, float('inf'), float('-inf'), float('nan'),
    '', 'a', 'b', 'ab', 'aa', 'abc', 'A', 'ba', '0', '1', ' ', '\x00', 'a\x00', '\xe9', 'e\u0301', '\uffff',
    '\U0001F600', '\U0001F600a', 'a\U0001F600', '\U00010000', 'True', 'null',
]


def rand_int(rng):
    r = rng.random()
    if r < 0.3:
        v = rng.randrange(-20, 21)
    elif r < 0.5:
        v = rng.choice([2 ** 31, 2 ** 32, 2 ** 52, 2 ** 53, 2 ** 62, 2 ** 63, 2 ** 64]) + rng.randrange(-3, 4)
    elif r < 0.8:
        v = rng.getrandbits(rng.randrange(1, 200))
    else:
        v = rng.getrandbits(rng.randrange(900, 1100))
    return -v if rng.random() < 0.4 else v


def rand_float(rng):
    r = rng.random()
    if r < 0.35:
        return f_of_bits(rng.getrandbits(64))                       # any bit pattern (NaNs, subnormals included)
    if r < 0.6:
        return float(rng.randrange(-50, 51)) / rng.choice([1, 2, 4, 8, 3, 10])
    if r < 0.8:
        return f_of_bits((rng.getrandbits(1) << 63) | (rng.choice([0, 1, 2, 1022, 1023, 1024, 1075, 1076, 2045, 2046]) << 52)
                         | rng.choice([0, 1, 2 ** 51, 2 ** 52 - 1, rng.getrandbits(52)]))
    return float(rand_int(rng) % (2 ** 1000))


ALPHABETS = ['ab', 'abAB01 ', 'a\xe9\u0301\uffff\U0001F600\U00010000', '\x00\x01a']


def rand_str(rng):
    al = rng.choice(ALPHABETS)
    return ''.join(rng.choice(al) for _ in range(rng.choice([0, 1, 1, 2, 2, 3, 4, 6])))


def make_corpus(rng, n_random):
    vals = list(BOUNDARY)
    for i in range(n_random):
        vals.append([rand_int, rand_float, rand_str][i % 3](rng))
    return vals


# ------------------------------------------------------------------ the real engine

def real_eval(expr, a, b=None):
    """the operands are bound as variables - or arrive inside ONE data document (dict / list, through input conversion)
    or as the arguments of one YaqlInterface call; the path is a function of the operands, so a case replays exactly"""
    ctx = BASE_CTX.create_child_context()
    alt = ALT.get(id(expr))
    how = 'vars'
    if alt is not None:
        how = ('vars', 'vars', 'doc', 'lst', 'iface')[zlib.crc32(repr((a, b)).encode('utf8', 'replace')) % 5]
    PATH_HIST[how] = PATH_HIST.get(how, 0) + 1
    try:
        if how == 'doc':
            r = alt['doc'].evaluate(data={'a': a, 'b': b}, context=ctx)
        elif how == 'lst':
            r = alt['lst'].evaluate(data=[a, b], context=ctx)
        elif how == 'iface':
            from yaql import yaql_interface
            r = yaql_interface.YaqlInterface(ctx, ENGINE)(alt['iface'], a, b)
        else:
            ctx['a'] = a
            ctx['b'] = b
            r = expr.evaluate(context=ctx)
    except yexc.NoMatchingFunctionException:
        return NOMATCH
    except Exception as e:          # ZeroDivisionError, OverflowError, MemoryError, any other class
        return ('e', type(e).__name__)
    return ('v', cval(r))


def gray(op, a, b):
    """string repetition whose result would be big but allocatable: not exercised"""
    if op != '*':
        return False
    ka, kb = kind(a), kind(b)
    if (ka, kb) == ('str', 'int'):
        s, n = a, b
    elif (ka, kb) == ('int', 'str'):
        s, n = b, a
    else:
        return False
    return 0 < n < 2 ** 63 and GRAY_LO < len(s) * n <= CAP


# ------------------------------------------------------------------ plain-Python transcription of the statement

def _guard(f):
    try:
        return ('v', cval(f()))
    except ZeroDivisionError:
        return ('e', 'ZeroDivisionError')
    except OverflowError:
        return ('e', 'OverflowError')
    except MemoryError:
        return ('e', 'MemoryError')


def ref_bin(op, a, b):
    ka, kb = kind(a), kind(b)
    num = is_num(a) and is_num(b)
    if op in ARITH:
        if num:
            if op == '+':
                return _guard(lambda: a + b)
            if op == '-':
                return _guard(lambda: a - b)
            if op == '*':
                return _guard(lambda: a * b)
            if op == '/':
                return _guard(lambda: a // b if ka == kb == 'int' else a / b)
            return _guard(lambda: a % b)
        if op == '+' and ka == kb == 'str':
            return ('v', cval(a + b))
        if op == '*' and (ka, kb) in (('str', 'int'), ('int', 'str')):
            return _guard(lambda: a * b)
        return NOMATCH
    if op in ORD:
        if a is None and b is None:
            return ('v', op in ('<=', '>='))
        if a is None:
            return ('v', op in ('<', '<='))
        if b is None:
            return ('v', op in ('>', '>='))
        if num or ka == kb == 'str':
            return ('v', {'<': a < b, '<=': a <= b, '>': a > b, '>=': a >= b}[op])
        return NOMATCH
    if op == '=':
        return ('v', a == b)
    if op == '!=':
        return ('v', a != b)
    if op == 'in':
        return ('v', a in b) if ka == kb == 'str' else NOMATCH
    if op == 'and':
        return ('v', cval(a and b))
    if op == 'or':
        return ('v', cval(a or b))
    raise ValueError(op)


def ref_un(op, a):
    if op == 'not':
        return ('v', not a)
    if not is_num(a):
        return NOMATCH
    return ('v', cval(-a if op == '-' else +a))


def related(op, ka, kb):
    n = ka in ('int', 'float') and kb in ('int', 'float')
    s = ka == kb == 'str'
    if op == '*':
        return n or (ka, kb) in (('str', 'int'), ('int', 'str'))
    if op in ('/', 'mod', '-'):
        return n
    if op == '+':
        return n or s
    if op in ORD:
        return n or s or ka == 'null' or kb == 'null'
    if op == 'in':
        return s
    return True


# ------------------------------------------------------------------ one round: all pairs of one corpus

class Round:
    def __init__(self, vals, drv, res, hist, triples=True):
        self.vals, self.drv, self.res, self.hist = vals, drv, res, hist
        self.n = len(vals)
        self.kinds = [kind(v) for v in vals]
        self.encs = [values.enc(v) for v in vals]
        self.triples = triples
        self.R = {}     # (op, i, j) -> real result
        self.U = {}     # (op, i) -> real result

    def fail(self, kind_, key, what, case):
        self.res.fail(kind_, key, what, case)

    def case_bin(self, op, i, j, c=None, law=None):
        d = dict(op=op, a=self.encs[i], b=self.encs[j])
        if c is not None:
            d['c'] = self.encs[c]
        if law:
            d['law'] = law
        return d

    def show(self, i):
        return repr(self.vals[i])[:60]

    def run(self):
        vals, n = self.vals, self.n
        model = None
        if self.drv:
            model = self.drv.ask(dict(p='C15', vals=self.encs, cap=CAP, lim=GRAY_LO, bin=BIN_OPS, un=UN_OPS))
        hist = self.hist
        # ---- binary operators, all pairs
        for oi, op in enumerate(BIN_OPS):
            expr = EXPR_BIN[op]
            mrow = model['bin'][oi] if model else None
            for i in range(n):
                a = vals[i]
                for j in range(n):
                    b = vals[j]
                    if gray(op, a, b):
                        hist['skipped_gray'] = hist.get('skipped_gray', 0) + 1
                        continue
                    r = real_eval(expr, a, b)
                    self.R[(op, i, j)] = r
                    ka, kb = self.kinds[i], self.kinds[j]
                    rel = related(op, ka, kb)
                    self.res.case('%s|%s|%s' % (op, json.dumps(self.encs[i]), json.dumps(self.encs[j])),
                                  nontrivial=rel or 'bool' in (ka, kb) or 'null' in (ka, kb),
                                  sample=dict(expr='$a %s $b' % op, a=self.show(i), b=self.show(j), result=r)
                                  if (rel and (i * 7 + j * 3 + oi) % 97 == 0) else None)
                    cls = r[1] if r[0] == 'e' else 'value:' + kind_of_c(r[1])
                    hk = 'op %s' % op
                    hist.setdefault(hk, {})
                    hist[hk][cls] = hist[hk].get(cls, 0) + 1
                    kp = '%s,%s' % (ka, kb)
                    hist['kind_pairs_x_ops'][kp] = hist['kind_pairs_x_ops'].get(kp, 0) + 1
                    ref = ref_bin(op, a, b)
                    if r != ref:
                        self.fail('oracle', 'value:%s:%s:%s' % (op, ka, kb),
                                  '$a %s $b with a=%s b=%s: real code gives %s, the reference meaning is %s' % (
                                      op, self.show(i), self.show(j), r, ref), self.case_bin(op, i, j))
                    if mrow is not None:
                        self.res.traces += 1
                        m = cres_model(mrow[i * n + j])
                        if m != r and r == ref:
                            self.fail('mismatch', 'model:%s:%s:%s' % (op, ka, kb),
                                      '$a %s $b with a=%s b=%s: real code %s, Lean model %s' % (
                                          op, self.show(i), self.show(j), r, m), self.case_bin(op, i, j))
        # ---- unary operators
        for oi, op in enumerate(UN_OPS):
            expr = EXPR_UN[op]
            mrow = model['un'][oi] if model else None
            for i in range(n):
                r = real_eval(expr, vals[i])
                self.U[(op, i)] = r
                self.res.case('u%s|%s' % (op, json.dumps(self.encs[i])), nontrivial=True)
                hk = 'unary %s' % op
                hist.setdefault(hk, {})
                cls = r[1] if r[0] == 'e' else 'value:' + kind_of_c(r[1])
                hist[hk][cls] = hist[hk].get(cls, 0) + 1
                ref = ref_un(op, vals[i])
                case = dict(op=op, unary=True, a=self.encs[i])
                if r != ref:
                    self.fail('oracle', 'value:unary%s:%s' % (op, self.kinds[i]),
                              '%s $a with a=%s: real code gives %s, the reference meaning is %s' % (
                                  op, self.show(i), r, ref), case)
                if op != 'not' and self.kinds[i] in ('bool', 'null', 'str') and r != NOMATCH:
                    self.fail('oracle', 'law:unary-rejects:%s' % self.kinds[i],
                              '%s $a with a=%s (a %s) is accepted: %s' % (op, self.show(i), self.kinds[i], r), case)
                if mrow is not None:
                    self.res.traces += 1
                    m = cres_model(mrow[i])
                    if m != r and r == ref:
                        self.fail('mismatch', 'model:unary%s:%s' % (op, self.kinds[i]),
                                  '%s $a with a=%s: real code %s, Lean model %s' % (op, self.show(i), r, m), case)
        self.compositions()
        self.laws()

    # ---- operators applied to the results of operators: the meaning of the outer one applied to the value of the inner
    def compositions(self):
        vals, n, hist = self.vals, self.n, self.hist

        def py_un(op, a):
            """('v', python value) | error tuple"""
            if op == 'not':
                return ('v', not a)
            if not is_num(a):
                return NOMATCH
            return ('v', -a if op == '-' else +a)

        forms = ['{o} {i} $a', '{o} ({i} $a)', '{o} ({i} ($a))', '{o}{i}$a']   # never `word(`: that is a call token
        for o in UN_OPS:
            for i_ in UN_OPS:
                for fi, form in enumerate(forms):
                    text = form.format(o=o, i=i_)
                    if o == i_ == '-' and fi == 3:
                        text = '- -$a'          # `--` could be read as one symbol by a customised table; keep it unambiguous
                    if o in ('not',) and fi == 3:
                        text = 'not %s$a' % i_ if i_ != 'not' else 'not not $a'
                    if i_ == 'not' and fi == 3 and o != 'not':
                        text = '%snot $a' % o
                    try:
                        st = ENGINE(text)
                    except Exception as e:      # noqa
                        self.fail('oracle', 'composition-parse', '%s does not parse: %r' % (text, e), dict(text=text))
                        continue
                    for k in range(n):
                        a = vals[k]
                        inner = py_un(i_, a)
                        want = inner if inner[0] == 'e' else py_un(o, inner[1])
                        want = want if want[0] == 'e' else ('v', cval(want[1]))
                        got = real_eval(st, a)
                        hist['compositions'] = hist.get('compositions', 0) + 1
                        self.res.case('c|%s|%s' % (text, json.dumps(self.encs[k])), nontrivial=True)
                        if got != want:
                            self.fail('oracle', 'value:composition:%s%s:%s' % (o, i_, self.kinds[k]),
                                      '%s with a=%s: real code gives %s, the meaning of the outer operator applied to the '
                                      'result of the inner one is %s' % (text, self.show(k), got, want),
                                      dict(text=text, a=self.encs[k], composition=True))

    # ---- the laws of the statement, on the real results alone
    def laws(self):
        vals, n, R, kinds = self.vals, self.n, self.R, self.kinds
        T, F = ('v', True), ('v', False)

        def get(op, i, j):
            return R.get((op, i, j))

        for i in range(n):
            for j in range(n):
                a, b, ka, kb = vals[i], vals[j], kinds[i], kinds[j]
                lt, le, gt, ge = get('<', i, j), get('<=', i, j), get('>', i, j), get('>=', i, j)
                eq, ne = get('=', i, j), get('!=', i, j)
                # a > b iff b < a ; a >= b iff b <= a  (values and rejections alike)
                if gt != get('<', j, i):
                    self.fail('oracle', 'law:gt-flip', 'a > b is %s but b < a is %s for a=%s b=%s' % (
                        gt, get('<', j, i), self.show(i), self.show(j)), self.case_bin('>', i, j, law='gt-flip'))
                if ge != get('<=', j, i):
                    self.fail('oracle', 'law:ge-flip', 'a >= b is %s but b <= a is %s for a=%s b=%s' % (
                        ge, get('<=', j, i), self.show(i), self.show(j)), self.case_bin('>=', i, j, law='ge-flip'))
                # = / != are total and opposite
                if eq not in (T, F) or ne not in (T, F) or eq == ne:
                    self.fail('oracle', 'law:eq-ne', 'a = b is %s, a != b is %s for a=%s b=%s' % (
                        eq, ne, self.show(i), self.show(j)), self.case_bin('=', i, j, law='eq-ne'))
                comparable = (is_num(a) and is_num(b)) or (ka == kb == 'str')
                if comparable:
                    if any(x not in (T, F) for x in (lt, le, gt, ge)):
                        self.fail('oracle', 'law:ordering-total', 'ordering of a=%s b=%s has no boolean value: %s' % (
                            self.show(i), self.show(j), (lt, le, gt, ge)), self.case_bin('<', i, j, law='ordering-total'))
                    else:
                        if le[1] != (lt[1] or eq[1]):
                            self.fail('oracle', 'law:le-is-lt-or-eq', 'a <= b is %s but a < b is %s and a = b is %s for a=%s b=%s' % (
                                le[1], lt[1], eq[1], self.show(i), self.show(j)), self.case_bin('<=', i, j, law='le-is-lt-or-eq'))
                        if not is_nan(a) and not is_nan(b) and [lt[1], eq[1], gt[1]].count(True) != 1:
                            self.fail('oracle', 'law:trichotomy', 'not exactly one of <, =, > for a=%s b=%s: %s' % (
                                self.show(i), self.show(j), (lt[1], eq[1], gt[1])), self.case_bin('<', i, j, law='trichotomy'))
                # null is the bottom
                if a is None or b is None:
                    if a is None and b is None:
                        want = (F, T, F, T)
                    elif a is None:
                        want = (T, T, F, F)
                    else:
                        want = (F, F, T, T)
                    if (lt, le, gt, ge) != want:
                        self.fail('oracle', 'law:null-bottom', '(<, <=, >, >=) of a=%s b=%s is %s, null must be the bottom: %s' % (
                            self.show(i), self.show(j), (lt, le, gt, ge), want), self.case_bin('<', i, j, law='null-bottom'))
                # a boolean is not a number; unrelated kinds do not match
                for op in BIN_OPS:
                    r = get(op, i, j)
                    if r is None:
                        continue
                    if not related(op, ka, kb) and r != NOMATCH:
                        key = 'law:bool-rejected' if 'bool' in (ka, kb) else 'law:unrelated-no-match'
                        self.fail('oracle', '%s:%s' % (key, op),
                                  '$a %s $b with a=%s (%s) b=%s (%s) must be rejected with NoMatchingFunctionException, got %s' % (
                                      op, self.show(i), ka, self.show(j), kb, r), self.case_bin(op, i, j, law=key[4:]))
                    if related(op, ka, kb) and r == NOMATCH:
                        self.fail('oracle', 'law:related-matches:%s' % op,
                                  '$a %s $b with a=%s (%s) b=%s (%s) is rejected' % (op, self.show(i), ka, self.show(j), kb),
                                  self.case_bin(op, i, j, law='related-matches'))
                # integers: exact, floor division identity
                if ka == kb == 'int':
                    self.int_laws(i, j)
                # mixed int/float arithmetic is float arithmetic
                if (ka, kb) in (('int', 'float'), ('float', 'int')):
                    self.mixed_laws(i, j)
        if self.triples:
            self.triple_laws()

    def int_laws(self, i, j):
        a, b = self.vals[i], self.vals[j]
        q, r = self.R[('/', i, j)], self.R[('mod', i, j)]
        if b == 0:
            if q != ('e', 'ZeroDivisionError') or r != ('e', 'ZeroDivisionError'):
                self.fail('oracle', 'law:int-zero-division', 'a / 0 is %s, a mod 0 is %s for a=%s' % (q, r, self.show(i)),
                          self.case_bin('/', i, j, law='int-zero-division'))
            return
        ok = q[0] == 'v' and r[0] == 'v' and isinstance(q[1], dict) and 'i' in q[1] and isinstance(r[1], dict) and 'i' in r[1]
        if ok:
            qi, ri = int(q[1]['i']), int(r[1]['i'])
            ok = qi * b + ri == a and ((0 <= ri < b) if b > 0 else (b < ri <= 0))
        if ok:
            ok = real_eval(EXPR_DIVID, a, b) == ('v', True)
            self.hist['division_identity_checked'] = self.hist.get('division_identity_checked', 0) + 1
        if not ok:
            self.fail('oracle', 'law:floor-div-mod', 'a=%s b=%s: a / b is %s, a mod b is %s; a = (a / b) * b + (a mod b) with the '
                      'remainder between 0 and b fails' % (self.show(i), self.show(j), q, r), self.case_bin('/', i, j, law='floor-div-mod'))

    def mixed_laws(self, i, j):
        a, b = self.vals[i], self.vals[j]
        for op in ARITH:
            r = self.R[(op, i, j)]
            try:
                fa, fb = float(a), float(b)
            except OverflowError:
                want = ('e', 'OverflowError')
            else:
                want = real_eval(EXPR_BIN[op], fa, fb)
            self.hist['mixed_checked'] = self.hist.get('mixed_checked', 0) + 1
            if r != want:
                self.fail('oracle', 'law:mixed-is-float:%s' % op,
                          '$a %s $b with a=%s b=%s gives %s, the float operator on float(a), float(b) gives %s' % (
                              op, self.show(i), self.show(j), r, want), self.case_bin(op, i, j, law='mixed-is-float'))

    def triple_laws(self):
        n, R = self.n, self.R
        T = ('v', True)
        lt = [[R.get(('<', i, j)) == T for j in range(n)] for i in range(n)]
        le = [[R.get(('<=', i, j)) == T for j in range(n)] for i in range(n)]
        eq = [[R.get(('=', i, j)) == T for j in range(n)] for i in range(n)]
        ordered = [k in ('int', 'float', 'str') for k in self.kinds]
        cnt = 0
        for i in range(n):
            for j in range(n):
                if not (lt[i][j] or le[i][j] or (eq[i][j] and ordered[i] and ordered[j])):
                    continue
                for k in range(n):
                    cnt += 1
                    bad = None
                    if lt[i][j] and lt[j][k] and not lt[i][k]:
                        bad = 'a < b and b < c but not a < c'
                    elif le[i][j] and le[j][k] and not le[i][k]:
                        bad = 'a <= b and b <= c but not a <= c'
                    elif lt[i][j] and le[j][k] and not lt[i][k]:
                        bad = 'a < b and b <= c but not a < c'
                    elif eq[i][j] and ordered[i] and ordered[j] and ordered[k] and (lt[j][k] != lt[i][k] or lt[k][j] != lt[k][i]):
                        bad = 'a = b but a and b order differently against c'
                    if bad:
                        self.fail('oracle', 'law:transitivity', '%s for a=%s b=%s c=%s' % (bad, self.show(i), self.show(j), self.show(k)),
                                  self.case_bin('<', i, j, c=k, law='transitivity'))
                        if len(self.res.failures) >= 50:
                            return
        self.hist['triples_checked'] = self.hist.get('triples_checked', 0) + cnt


def kind_of_c(c):
    if c is None:
        return 'null'
    if isinstance(c, bool):
        return 'bool'
    if isinstance(c, dict):
        k = next(iter(c))
        return {'i': 'int', 'f': 'float', 's': 'str'}.get(k, 'other')
    return 'other'


def table_diff(drv):
    """rows of the live overload table that differ from the model's (diagnostics for a broken C15Gen)"""
    from gens import scalarops
    model = {(r['name'], r['payload']): (r['params'], r['star']) for r in drv.ask(dict(p='C15', table=1))['table']}
    names = {n for n, _ in model}
    live = {}
    for r in scalarops.table():
        ps = [a for a, _ in r['params']]
        st = None if r['star'] is None else r['star'][0]
        if r['name'] in names and all(ps) and (st is None or st):
            live[(r['name'], r['payload'])] = (ps, st)
    diff = []
    for k in sorted(set(model) | set(live)):
        if model.get(k) != live.get(k):
            diff.append(dict(function=k[0], payload=k[1], model=model.get(k), live=live.get(k)))
    return diff


def run(env, res):
    drv = env['driver']
    tier = env['tier']
    rng = common.make_rng(env['seed'], ID)
    res.rule = ('all pairs (a, b) of a corpus = %d boundary values (null, booleans, ints around 0 / 2**53 / 2**63 / '
                '10**40 / the float(int) overflow tie, signed zeros, subnormals, huge doubles, infinities, NaN, empty / '
                'multi-code-point / astral strings) + seeded random ints, doubles (random bit patterns) and strings, under '
                'each of the %d binary and %d unary operators, operands bound as $a, $b; all triples of the corpus for the '
                'transitivity laws (looked up in the table of real results); distinct = distinct (operator, a, b); '
                'non-trivial = the operator is defined for the two kinds, or an operand is null or a boolean '
                '(the rejection and null clauses)' % (len(BOUNDARY), len(BIN_OPS), len(UN_OPS)))
    hist = {'kind_pairs_x_ops': {}}
    if env['replay']:
        rp = json.load(open(env['replay']))
        if 'src_target' in (rp.get('case') or {}):
            srcobl.differential(env, res, ID, oracle=src_oracle)
            return res
        if (rp.get('case') or {}).get('section') == 'floatround':
            floatref.replay(env, res, rp['case'])
            return res
        c = rp['case']
        vals = [values.dec(c[k]) for k in ('a', 'b', 'c') if k in c]
        Round(vals, drv, res, hist).run()
        res.extra['histogram'] = hist
        return res
    if tier == 'quick':
        plan = [30]
    else:
        plan = [60, 80, 80, 80]
    for n_random in plan:
        vals = make_corpus(rng, n_random)
        Round(vals, drv, res, hist).run()
        if res.failures:
            break
    # source-level differential: every payload vs its Lean translation vs the model's payload table
    srcobl.differential(env, res, ID, oracle=src_oracle)
    # the shared float section: FloatRound.roundRat / floatOfInt / divBits vs CPython, bit for bit
    hist['floatround'] = floatref.run_section(env, res, ID, 1200 if tier == 'quick' else 12000)
    hist['corpus'] = dict(boundary=len(BOUNDARY), random_per_round=plan,
                          kinds={k: sum(1 for v in BOUNDARY if kind(v) == k) for k in ('null', 'bool', 'int', 'float', 'str')})
    if drv and any('C15Gen' in b for b in env.get('broken', [])):
        try:
            res.extra['overload_table_diff'] = table_diff(drv)
        except Exception as e:  # diagnostics only
            res.extra['overload_table_diff'] = repr(e)
    res.extra['histogram'] = hist
    return res



LEVEL_TEXT = ('Lean 4 theorems over an executable model of the scalar operators (Yaql/Model/Scalar.lean: the registered overload '
              'table, overload selection by accepted kinds, exact Int arithmetic, Int.fdiv/Int.fmod, doubles as bit patterns whose '
              'value, comparison with ints, float(int) (= FloatRound.roundRat i 1: float_of_int proves it exact to 2**53, nearest, '
              'ties-to-even, OverflowError exactly from 2**1024-2**970, monotone), fmod and sign rules are defined by exact integer '
              'arithmetic, the four IEEE operations as parameters), for ALL integers, ALL double bit patterns, ALL strings and ALL '
              'float-operation structures: int_exact / int_ring_laws, floor_div_mod (a = (a/b)*b + a mod b, remainder in range, '
              'ZeroDivisionError for 0), mixed_is_float, gt_flip / ge_flip / le_iff / trichotomy / lt_trans / order_consistent '
              '(NaN excluded by an explicit hypothesis; nan_unordered shows why), mixed_compare_exact (2**53+1 vs 2.0**53), '
              'null_bottom / null_null, bool_not_number(+_unary), unrelated_no_match / related_matches, error_classes / '
              'dispatch_unique (never ambiguous), string_ops, repetition, truth_ops. C15Gen.operator_overloads: the overloads '
              'registered in the live context under every operator function name, described by which scalar kinds each parameter '
              'type accepts (probed on the live smart-type objects), are exactly the rows the model dispatches over (decide '
              '+kernel, regenerated each run); operators_covered: the engine operator list is the modelled one. Correspondence: all '
              'pairs of a boundary + random corpus under every operator, real engine vs compiled model, bit-exact. Oracle on the '
              'real code alone: the laws of the statement on the real result table (pairs and triples) and agreement with a '
              'plain-Python transcription. Shared float section: roundRat / floatOfInt / divBits of the model against CPython int/int, '
              'float(Fraction), float(str), float(int), float/float on a boundary-rich corpus of rationals, bit for bit.')
LEVEL_NOTE = ('trusted: Lean kernel; the hand-written model; + - * / on two doubles are opaque parameters in the theorems and the '
              "machine's doubles in the correspondence (Lean Float and CPython both use the hardware; NaN payloads are not "
              'compared); the kind probes of the table generator. float(int) rounding is no longer trusted (modelled by '
              'FloatRound.roundRat, proved correctly rounded). Python float % is modelled exactly (C fmod by integer '
              'arithmetic + the sign fix-up addition). String repetition is exercised only where the result is small or '
              'the allocation must fail (capacity is a model parameter). Booleans ARE ordered against null by the null overloads '
              '(typed object): bool_not_number states the rejection for every non-null partner and null_bottom covers the rest. '
              'Regex operators =~ !~ are outside the anchors.')
TECHNIQUE = ('Lean 4 proof (case analysis over kinds, Int order/fdiv lemmas, induction over code-point lists) + kernel-checked '
             'generated overload table + exhaustive differential testing over a boundary corpus')
DESIGN_REF = 'DESIGN.md section 5, C15'
