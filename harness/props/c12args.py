"""C12, parser half: the argument-list grammar (positional-or-empty slots, then named ones).

Every slot-kind sequence up to a length (exhaustive) is spelled in each bracket form of the grammar
(`f(..)`, `x.f(..)`, `[..]`, `{..}`, `x[..]`, `x(..)` with delegates) with generated values in the
value slots; the real parser must accept exactly the sequences the rule `Yaql.ArgShape.shapeOK`
accepts (Lean: C12Args.argsOK_iff_shape / arglist_grammar / arglist_only_shaped), and an accepted text
must give a tree whose arguments are the values, `NO_VALUE` for every empty slot and a mapping rule for
every named slot.  Called from props/c12.py."""
import itertools

import common  # noqa

POS, EMPTY, NAMED = 0, 1, 2


def py_shape_ok(shape):
    """plain-Python transcription of the documented rule (independent of the Lean definition)"""
    if not shape:
        return True
    if shape[-1] == EMPTY:
        return False                       # trailing comma
    first_named = next((i for i, s in enumerate(shape) if s == NAMED), len(shape))
    if any(s != NAMED for s in shape[first_named:]):
        return False                       # nothing but named slots after the first named one
    if first_named == len(shape):
        return True
    head = shape[:first_named]
    empties = 0
    while empties < len(head) and head[len(head) - 1 - empties] == EMPTY:
        empties += 1
    if empties == len(head):               # no value before the named part
        return empties == 0
    return empties <= 1


VALUES = ['1', '$x', "'s'", '-1', '1 + 2', '(1)', 'g(2)', '[3]', '$.a', 'not true', '2 * $x', 'null']
FORMS = [('func', 'f(%s)'), ('method', '$x.f(%s)'), ('list', '[%s]'), ('map', '{%s}'), ('index', '$x[%s]'),
         ('delegate', '$x(%s)')]


def render(rng, shape, seps=None):
    parts = []
    vals = []
    for i, s in enumerate(shape):
        if s == POS:
            v = rng.choice(VALUES)
            parts.append(v)
            vals.append(('pos', v))
        elif s == EMPTY:
            parts.append('')
            vals.append(('empty', None))
        else:
            v = rng.choice(VALUES)
            k = 'k%d' % i
            parts.append('%s => %s' % (k, v))
            vals.append(('named', (k, v)))
    sep = rng.choice([',', ', ', ' , ', ',  '])
    return sep.join(parts), vals


def run(env, res, hist):
    import yaql
    from yaql.language import exceptions, expressions, utils
    drv = env['driver']
    rng = common.make_rng(env['seed'], 'C12Args')
    maxlen = 6 if env['tier'] == 'quick' else 8
    eng = yaql.YaqlFactory(allow_delegates=True).create()
    shapes = [list(p) for n in range(0, maxlen + 1) for p in itertools.product((POS, EMPTY, NAMED), repeat=n)]
    model = None
    if drv is not None:
        model = []
        for i in range(0, len(shapes), 2000):
            model += drv.ask({'p': 'C12Args', 'shapes': shapes[i:i + 2000]})['ok']
    n_ok = n_rej = 0

    def tree_args(ex, form):
        if form == 'method':
            ex = ex.args[1]
        a = list(ex.args)
        if form in ('index', 'delegate'):
            a = a[1:]            # the indexed / called value comes first
        return a

    for si, shape in enumerate(shapes):
        want = py_shape_ok(shape)
        if shape == [EMPTY]:
            continue                       # spelled like the empty list: no text of its own
        if model is not None:
            res.traces += 1
            if model[si] != want:
                res.fail('mismatch', 'arglist-rule', 'Lean shapeOK %s = %s, transcription of the rule says %s' % (shape, model[si], want),
                         dict(kind='arglist', shape=shape))
        forms = FORMS if len(shape) <= 5 else [FORMS[(si + k) % len(FORMS)] for k in (0, 3)]
        for form, tmpl in forms:
            inner, vals = render(rng, shape)
            text = tmpl % inner
            res.case('arglist:%s:%s' % (form, ''.join(map(str, shape))), len(shape) > 1)
            try:
                ex = eng(text).expression
                got = True
            except exceptions.YaqlParsingException:
                got = False
            if got:
                n_ok += 1
            else:
                n_rej += 1
            if got != want:
                if want:
                    res.fail('oracle', 'arglist-grammar',
                             '%s: a valid way of passing arguments (positional / skipped slots, then named) is rejected by the parser' % text,
                             dict(kind='arglist', shape=shape, text=text))
                else:
                    res.fail('mismatch', 'arglist-grammar',
                             '%s: the parser accepts an argument list the grammar model rejects (%s)' % (text, shape),
                             dict(kind='arglist', shape=shape, text=text))
                continue
            if not got:
                continue
            args = tree_args(ex, form)
            ok = len(args) == len(vals)
            if ok:
                for a, (kind, v) in zip(args, vals):
                    if kind == 'empty':
                        ok = ok and a is utils.NO_VALUE
                    elif kind == 'named':
                        ok = ok and isinstance(a, expressions.MappingRuleExpression) \
                            and isinstance(a.source, expressions.KeywordConstant) and a.source.value == v[0] \
                            and str(a.destination) == str(eng(v[1]).expression)
                    else:
                        ok = ok and a is not utils.NO_VALUE and not isinstance(a, expressions.MappingRuleExpression) \
                            and str(a) == str(eng(v).expression)
            if not ok:
                res.fail('oracle', 'arglist-tree', '%s: the parsed argument list %s is not the slots as written (%s)' % (
                    text, [str(a) for a in args], vals), dict(kind='arglist', shape=shape, text=text))
    hist['arglist'] = dict(shapes=len(shapes), max_len=maxlen, accepted_texts=n_ok, rejected_texts=n_rej,
                           exhaustive_up_to_len=maxlen)
