"""C05 - overload resolution follows the documented resolution rules.

Correspondence: generated overload families are registered on real `Context` chains (through the
real decorators and `get_function_definition`), the REAL FunctionDefinition objects are serialised to
the Lean model `Yaql.Resolve.resolve`, and generated calls go to `runner.call` and to the model:
same overload / error class, same ordered evaluation log, same bound argument vector.
Call histories: forests of live contexts on which overloads are registered and deleted step by step
(same / ancestor / descendant / sibling contexts, exclusive or not), children are created and calls are made
in between from old and new contexts; every call is compared with the rules and with the Lean model
(`Yaql.ResolveCtx.run` / `resolveIn`, the C17 context model joined with `Resolve`) applied to the
family AS REGISTERED AT THAT MOMENT, which the harness records from its own API calls.
Definitions from real Python callables: about half of the overloads are randomly WRITTEN Python functions (plain
defs, closures of one factory, lambdas, functions of a factory-made class; positional / defaulted / *args /
keyword-only with and without defaults / **kwargs; hidden parameters by name or by @specs.inject; @specs.parameter
with smart types, bare classes, nullable, alias, by name or by index, in a shuffled order; @specs.method /
extension_method / name / no_kwargs / meta) that reach the context as prepared definitions (with / without the naming
convention) or as callables handed to register_function.  The FunctionDefinition the DOCUMENTED rules prescribe
(`resolvelib.expected_fd`) is derived from the generated signature alone, compared with what yaql built
(`definition-table`), and it - not yaql's own table - is what the rules transcription resolves on; the Lean model of
get_function_definition (`Yaql.Signature.define`) is run on the same signature + decorators and compared entry by entry.
Host entry points: about half of the histories make most of their calls through `YaqlInterface` objects - ONE interface
per context kept for the whole history (`yi.name(..)`, `yi.on(obj).name(..)`), interfaces derived from derived ones, one
made with a receiver, and the `yaql_interface` injected into a host function that makes several calls in one
invocation - the same name with and without receiver and on different receivers through one interface family, in both
orders; the Lean model (`Yaql.Interface`: interfaces are values, `on` makes a new one) is told the same steps.
Sharing: the same definition object / the same callable is registered in several contexts of a forest (plain,
MultiContext, LinkedContext) with different exclusive flags, in both orders, before and after calls.
The harness observes yaql through its public API only (constructors, register_function, delete_function,
get_functions, calls) and keeps its own record of the registrations (`ctxrecord.Forest`).
Oracle (real code alone): `resolvelib.spec_resolve`, an independent transcription of
doc/source/extending_yaql.rst "Function resolution rules" + "single most specific match", applied to the
documented definitions and the recorded registrations."""
import copy
import json

import common
import pyfacts
import resolvegen
import resolvelib as rl
import srcobl

ID = 'C05'
LEAN_MODULES = ['Yaql.Props.C05', 'Yaql.Props.C05Hist', 'Yaql.Props.C05Sig', 'Yaql.Props.C05SigGen',
                'Yaql.Props.C05Iface'] + \
    srcobl.modules('C05')     # Props/SrcResolve: Resolve.isSpecM = runner._is_specialization_of as it reads now
P = 'Yaql.Props.C05.'
REQUIRED_THEOREMS = [P + n for n in (
    'resolve_eq_spec', 'unknown_iff', 'first_layer_wins', 'most_specific', 'no_matching_iff', 'kind_filter',
    'constants_prechecked', 'hidden_transparent', 'skipped_needs_default', 'star_absorbs')] + [
    'Yaql.Props.C05Hist.' + n for n in (
        'collectAtP_refines', 'resolveAt_eq_layers', 'resolveIn_eq', 'resolveIn_eq_spec', 'resolve_history_independent',
        'register_elsewhere_invisible', 'delete_elsewhere_invisible', 'family_plain')] + [
    'Yaql.Props.C05Sig.' + n for n in (
        'define_sound', 'define_complete', 'defaults_complete', 'mandatory_stay_mandatory', 'define_perm',
        'define_perm_find', 'Ex.kwonly_elif_drops_default')] + [
    'Yaql.Props.C05SigGen.stdlib_tables_follow_signatures', 'Yaql.Props.C05SigGen.stdlib_rows_nonempty'] + [
    'Yaql.Props.C05Iface.' + n for n in (
        'call_eq_spec', 'on_call', 'on_fresh', 'yis_stable', 'history_call_eq_spec', 'irun_erase_calls',
        'call_insertion_invisible', 'inject_eq_caller', 'inject_step', 'Ex.stub_cache_wrong')] + \
    srcobl.theorems('C05')


def generate():
    info = dict(pyfacts.run(['SigTable'])['SigTable'])
    info.update(srcobl.generate('C05'))
    return info
TRUSTED = ['python dict/set semantics modelled as association lists',
           'resolvelib.expected_fd: transcription of the documented signature -> FunctionDefinition rules '
           '(extending_yaql.rst: parameter declaration, automatic parameters, hidden parameters, naming conventions)',
           'ctxrecord.Forest: the record of the contexts built (plain / MultiContext / LinkedContext) and of the '
           'registrations; exclusivity is per (context, name)',
           'harness/gens/sigtable.py: inspect.signature of every stdlib payload next to its FunctionDefinition',
           'resolvelib.enc_fd / enc_arg: the encoding of real FunctionDefinition and expression objects for the model',
           'resolvelib.spec_resolve: transcription of the written rules',
           'resolvelib.History: the record of what register_function / delete_function / create_child_context were told '
           '(delete_function drops the overload and the exclusive flag of its name, as Context does - DESIGN.md K4)']
ASSUMPTIONS = ['smart types outside the closed description (AnyOf, Chain, NotOfType, Super, Delegate converters) are not '
               'generated; yaql.iterableDicts is off',
               'argument expressions are probes that cannot raise',
               'overload ids are distinct within a family (FunctionDefinition identity)']


def _o(fid, params, kind='function', nk=False):
    return dict(id=fid, kind=kind, nk=nk, params=params)


def _p(name, ty, **kw):
    return dict(name=name, kind='pos', ty=ty, **kw)


# hand-made cases run first: the Lean witnesses of Props/C05.lean and Props/C06.lean on the real code
HAND = [
    # A(D,D) B(L,Base) C(Base,R): A wins
    dict(layers=[dict(fns=[_o(0, [_p('a', ['py', 'D', False]), _p('b', ['py', 'D', False])]),
                           _o(1, [_p('a', ['py', 'L', False]), _p('b', ['py', 'Base', False])]),
                           _o(2, [_p('a', ['py', 'Base', False]), _p('b', ['py', 'R', False])])], x=False)],
         call=dict(args=[['tick', 1, 3], ['tick', 2, 3]], kw=[])),
    # P(x: Lambda) Q(x: String): f(1) -> P (constant pre-check), f(<expr>) -> Ambiguous
    dict(layers=[dict(fns=[_o(0, [_p('x', 'Lambda')]), _o(1, [_p('x', 'String')])], x=False)],
         call=dict(args=[['c', 1]], kw=[])),
    dict(layers=[dict(fns=[_o(0, [_p('x', 'Lambda')]), _o(1, [_p('x', 'String')])], x=False)],
         call=dict(args=[['tick', 1, 8]], kw=[])),
    dict(layers=[dict(fns=[_o(0, [_p('x', 'Lambda')]), _o(1, [_p('x', 'String')])], x=False)],
         call=dict(args=[['m', ['kwc', 'x'], ['c', 1]]], kw=[])),
    # nearer layer wins; exclusive layer hides
    dict(layers=[dict(fns=[], x=False), dict(fns=[_o(0, [_p('a', ['py', 'Base', False])])], x=False),
                 dict(fns=[_o(1, [_p('a', ['py', 'D', False])]), _o(2, [_p('a', ['py', 'str', False])])], x=False)],
         call=dict(args=[['tick', 1, 3]], kw=[])),
    dict(layers=[dict(fns=[], x=False), dict(fns=[_o(0, [_p('a', ['py', 'Base', False])])], x=True),
                 dict(fns=[_o(1, [_p('a', ['py', 'D', False])]), _o(2, [_p('a', ['py', 'str', False])])], x=False)],
         call=dict(args=[['c', 'a']], kw=[])),
    # repaired by 9bf7e72: Number() vs Integer() are not ordered by specialization -> Ambiguous (was: TypeError)
    dict(layers=[dict(fns=[_o(0, [_p('x', 'Number')]), _o(1, [_p('x', 'Integer')])], x=False)],
         call=dict(args=[['c', 1]], kw=[])),
]


def judge(real, exp, model, fds, pre='', where='', tagof=None):
    """real outcome against the rules (`exp`, overload given by id) and against the model -> [(kind, key, message)]
    `tagof`: definition id of the model -> tag of its payload (several definitions may share one callable)"""
    out = []
    if 'delegate_error' in real:
        # resolution succeeded; converting the arguments / calling the payload raised (e.g. a keyword that
        # `**` captured under the python name of an aliased parameter): not a resolution outcome
        return out
    r_out = real.get('err', real.get('id'))
    e_out = exp.get('err', exp.get('id'))
    if r_out != e_out:
        out.append(('oracle', pre + 'resolution',
                    '%sreal outcome %r, the written rules give %r' % (where, r_out, e_out)))
    elif real['log'] != exp['log']:
        out.append(('oracle', pre + 'evaluation-log', '%sreal evaluation log %r, rules give %r (outcome %r)' % (
            where, real['log'], exp['log'], r_out)))
    if model is not None:
        m_out = model.get('err', model.get('id'))
        if tagof is not None and 'id' in model:
            m_out = tagof(m_out)
        mlog = [p for p in model['log'] if p < rl.SILENT]
        if m_out != r_out:
            out.append(('mismatch', pre + 'resolution', '%sreal outcome %r, model %r' % (where, r_out, m_out)))
        elif mlog != real['log']:
            out.append(('mismatch', pre + 'evaluation-log', '%sreal log %r, model log %r' % (
                where, real['log'], mlog)))
        elif 'id' in real:
            mb = rl.model_bound(fds[real['id']], model)
            if mb != real['bound']:
                out.append(('mismatch', pre + 'bound-vector', '%soverload %d bound: real %r model %r' % (
                    where, real['id'], real['bound'], mb)))
    return out


def compare(fam, call, model):
    """-> list of (kind, key, message)"""
    real = rl.run_real(fam, call)
    if 'delegate_error' in real and not fam.table_fails:
        return [], real
    exp = rl.spec_resolve(fam, call)
    if 'id' in exp:
        exp['id'] = exp['id'].tag
    out = judge(real, exp, model, fam.fds)
    for fid, diffs in fam.table_fails[:1]:
        o = next(o for l in fam.spec for o in l['fns'] if o['id'] == fid)
        out.append(('oracle', 'definition-table', table_message(o, diffs)))
    return out, real


# ---------------------------------------------------------------- call histories on live contexts

def play(hspec):
    """runs the history on real contexts -> (History, [(step index, step, real outcome, rules' outcome)])"""
    h = rl.History(hspec['defs'])
    recs = []
    steps = hspec['steps']
    k = 0
    while k < len(steps):
        st = steps[k]
        if st[0] == 'call' and len(st) > 4 and st[4] == 'inj':
            # consecutive calls from one context made inside ONE invocation of a function with an injected interface
            group = [k]
            while group[-1] + 1 < len(steps) and steps[group[-1] + 1][0] == 'call' and \
                    steps[group[-1] + 1][1] == st[1] and steps[group[-1] + 1][4:] == ['inj']:
                group.append(group[-1] + 1)
            outs = h.call_group([(steps[j], rl.BuiltCall(steps[j][2])) for j in group])
            for j, (real, exp) in zip(group, outs):
                recs.append((j, steps[j], real, exp))
            k = group[-1] + 1
            continue
        if st[0] == 'call':
            real, exp = h.call(st, rl.BuiltCall(st[2]))
            recs.append((k, st, real, exp))
        else:
            h.do(st)
        k += 1
    h.recheck_tables()
    return h, recs


def ask_histories(drv, hs):
    if not drv:
        return None
    return drv.ask(dict(p='Resolve', op='hist', lat=rl.T.lattice(), hists=[h.enc() for h in hs]))['out']


def judge_history(hspec, h, recs, models):
    """-> [(kind, key, message)]: every call against the family AS IT IS AT THAT MOMENT"""
    out = []
    for ci, (k, st, real, exp) in enumerate(recs):
        where = 'step %d (%s(..) from context %d, after %s): ' % (
            k, st[3], st[1], ' '.join('%s%s' % (x[0], x[1:3] if x[0] != 'call' else [x[1]])
                                      for x in hspec['steps'][max(0, k - 4):k]) or 'nothing')
        out += judge(real, exp, models[ci] if models is not None else None, h.by_tag, 'history-', where,
                     tagof=lambda d: h.tag.get(d, d))
    for fid, diffs in h.table_fails[:1]:
        out.append(('oracle', 'definition-table', table_message(hspec['defs'][str(fid)], diffs)))
    return out


def table_message(ospec, diffs):
    return ('the FunctionDefinition yaql builds for the Python callable of overload %d differs from what the documented '
            'rules (extending_yaql.rst) derive from its signature and decorators: %s' % (ospec['id'], '; '.join(diffs[:3])))


NEW_CTX = ('root', 'child', 'multi', 'linked')


def run_history(hspec, drv):
    h, recs = play(hspec)
    models = ask_histories(drv, [h])
    fs = judge_history(hspec, h, recs, models[0] if models else None)
    for o, d in rl.ask_tables(drv, h.sig_items())[:1]:
        fs.append(('mismatch', 'definition-table', 'overload %d: the Lean model of get_function_definition and yaql '
                   'disagree: %s' % (o['id'], '; '.join(d[:3]))))
    return fs, recs


def shrink_history(hspec, drv, kind, key):
    def fails(c):
        try:
            fs, _ = run_history(c, drv)
        except Exception:
            return False
        return any(f[0] == kind and f[1] == key for f in fs)

    def used(c):
        return {st[2] for st in c['steps'] if st[0] in ('reg', 'regc', 'del')}
    import time
    deadline = time.time() + 25          # a shrunk input is a convenience: never spend minutes on it
    changed = True
    while changed and time.time() < deadline:
        changed = False
        cands = []
        steps = hspec['steps']
        for k in range(len(steps) - 1, -1, -1):
            if steps[k][0] in ('reg', 'regc', 'del', 'call'):
                c = copy.deepcopy(hspec)
                del c['steps'][k]
                cands.append(c)
            elif steps[k][0] == 'child':
                # a context nobody mentions later can go when it is the last one created
                idx = sum(1 for s in steps[:k] if s[0] in NEW_CTX)
                later = [s for s in steps[k + 1:]]
                if not any(s[0] in NEW_CTX for s in later) and not any(s[1] == idx for s in later):
                    c = copy.deepcopy(hspec)
                    del c['steps'][k]
                    cands.append(c)
        for k, st in enumerate(steps):
            if st[0] in ('reg', 'regc') and st[3]:
                c = copy.deepcopy(hspec)
                c['steps'][k][3] = False
                cands.append(c)
            if st[0] == 'call':
                for ai in range(len(st[2]['args'])):
                    c = copy.deepcopy(hspec)
                    del c['steps'][k][2]['args'][ai]
                    cands.append(c)
                for ki in range(len(st[2].get('kw', []))):
                    c = copy.deepcopy(hspec)
                    del c['steps'][k][2]['kw'][ki]
                    cands.append(c)
        for f, o in hspec['defs'].items():
            if int(f) not in used(hspec):
                c = copy.deepcopy(hspec)
                del c['defs'][f]
                cands.append(c)
                continue
            for pi in range(len(o['params'])):
                c = copy.deepcopy(hspec)
                del c['defs'][f]['params'][pi]
                cands.append(c)
        for c in cands:
            if time.time() > deadline:
                break
            if fails(c):
                hspec = c
                changed = True
                break
    return hspec


def history_features(hspec, recs, hist):
    def bump(k, n=1):
        hist[k] = hist.get(k, 0) + n
    steps = hspec['steps']
    bump('hist:style:' + hspec.get('style', '?'))
    # the host entry point of each call, and what one interface family (the context's YaqlInterface and the
    # interfaces derived from it / the one injected into one host function invocation) has been used for before
    fam_uses = {}
    prev_inj = None
    for k, s in enumerate(steps):
        if s[0] != 'call':
            prev_inj = None
            continue
        via = s[4] if len(s) > 4 else 'ctx'
        bump('hist:call-via:' + via)
        if via == 'ctx':
            prev_inj = None
            continue
        if via == 'inj':
            if prev_inj is None or prev_inj[0] != s[1]:
                prev_inj = (s[1], k)
            fkey = ('inj', s[1], prev_inj[1])
        else:
            prev_inj = None
            fkey = ('yi', s[1])
        use = (s[3], json.dumps(s[2].get('recv')))
        seen = fam_uses.setdefault(fkey, [])
        if any(n == use[0] and r != use[1] for n, r in seen):
            bump('hist:interface-family:same-name-other-receiver-or-none-before')
            if any(n == use[0] and (r == 'null') != (use[1] == 'null') for n, r in seen):
                bump('hist:interface-family:same-name-with-and-without-receiver')
        seen.append(use)
    bump('hist:contexts:%d' % sum(1 for s in steps if s[0] in NEW_CTX))
    for s in steps:
        bump('hist:step:' + s[0] + (':exclusive' if s[0] in ('reg', 'regc') and s[3] else ''))
    par = []
    for s in steps:
        if s[0] in ('root', 'multi'):
            par.append(None)
        elif s[0] == 'child':
            par.append(s[1])
        elif s[0] == 'linked':
            par.append(s[1])
    # one definition object / one callable in several contexts, with different exclusive flags
    where = {}
    for s in steps:
        if s[0] in ('reg', 'regc'):
            where.setdefault(s[2], set()).add((s[1], bool(s[3])))
    for f, ws in where.items():
        if len({c for c, _ in ws}) > 1:
            bump('hist:shared-definition')
            if len({x for _, x in ws}) > 1:
                bump('hist:shared-definition:plain-here-exclusive-there')

    def ancestors(i):
        out = []
        while par[i] is not None:
            i = par[i]
            out.append(i)
        return out
    # the shapes a remembered lookup would get wrong: a call, then a change in a strict ancestor / in the
    # context itself / in a descendant, then a call from the same context or below
    seen_calls = []
    changed = []
    for k, s in enumerate(steps):
        if s[0] == 'call':
            hit = None
            for (k0, i0, name0) in seen_calls:
                if s[3] == name0 and (s[1] == i0 or i0 in ancestors(s[1])):
                    for (kj, j, namej, what) in changed:
                        if kj > k0 and namej == name0 and j in ancestors(i0):
                            hit = what
            if hit:
                bump('hist:call-change-in-ancestor-call:' + hit)
            seen_calls.append((k, s[1], s[3]))
        elif s[0] in ('reg', 'regc', 'del') and seen_calls:
            o = hspec['defs'].get(str(s[2]))
            changed.append((k, s[1], o.get('fname', 'f') if o else 'f', s[0]))
    prev = {}
    for k, st, real, exp in recs:
        bump('hist:outcome:' + str(real.get('err', 'delegate-raised' if 'delegate_error' in real else 'chosen')))
        bump('hist:matches:%s' % min(exp.get('nmatch', 0), 3))
        key = (st[1], st[3], json.dumps(st[2], sort_keys=True))
        out = real.get('err', real.get('id'))
        if key in prev and prev[key] != out:
            bump('hist:same-call-new-outcome')
        prev[key] = out


def run_case(case, drv):
    """case: {layers, call} -> (failures, real outcome, family)"""
    fam = rl.Family(case['layers'])
    call = rl.BuiltCall(case['call'])
    model = None
    if drv:
        req = dict(p='Resolve', fams=[dict(layers=fam.enc_layers(), calls=[call.enc()])])
        req['lat'] = rl.T.lattice()
        model = drv.ask(req)['out'][0][0]
    fs, real = compare(fam, call, model)
    for o, d in rl.ask_tables(drv, fam.sig_items())[:1]:
        fs.append(('mismatch', 'definition-table', 'overload %d: the Lean model of get_function_definition and yaql '
                   'disagree: %s' % (o['id'], '; '.join(d[:3]))))
    return fs, real, fam


def shrink(case, drv, kind, key):
    def fails(c):
        try:
            fs, _, _ = run_case(c, drv)
        except Exception:
            return False
        return any(f[0] == kind and f[1] == key for f in fs)
    import time
    deadline = time.time() + 25          # a shrunk input is a convenience: never spend minutes on it
    changed = True
    while changed and time.time() < deadline:
        changed = False
        cands = []
        for li, layer in enumerate(case['layers']):
            c = copy.deepcopy(case)
            del c['layers'][li]
            cands.append(c)
            for oi in range(len(layer['fns'])):
                c = copy.deepcopy(case)
                del c['layers'][li]['fns'][oi]
                cands.append(c)
                for pi, p in enumerate(layer['fns'][oi]['params']):
                    c = copy.deepcopy(case)
                    del c['layers'][li]['fns'][oi]['params'][pi]
                    cands.append(c)
            if layer.get('x'):
                c = copy.deepcopy(case)
                c['layers'][li]['x'] = False
                cands.append(c)
        for ai in range(len(case['call']['args'])):
            c = copy.deepcopy(case)
            del c['call']['args'][ai]
            cands.append(c)
        for ki in range(len(case['call'].get('kw', []))):
            c = copy.deepcopy(case)
            del c['call']['kw'][ki]
            cands.append(c)
        for c in cands:
            if time.time() > deadline:
                break
            if fails(c):
                case = c
                changed = True
                break
    return case


def features(case, real, hist):
    def bump(k):
        hist[k] = hist.get(k, 0) + 1
    bump('outcome:' + str(real.get('err', 'delegate-raised' if 'delegate_error' in real else 'chosen')))
    bump('layers:%d' % len(case['layers']))
    bump('overloads:%d' % min(sum(len(l['fns']) for l in case['layers']), 8))
    if any(l.get('x') for l in case['layers']):
        bump('exclusive-layer')
    for l in case['layers']:
        for o in l['fns']:
            bump('kind:' + o['kind'])
            if o.get('nk'):
                bump('no_kwargs')
            py = o.get('py')
            if py:
                bump('py:style:' + py.get('style', 'def'))
                bump('py:via:' + py.get('via', 'fd'))
                bump('py:name-by:' + py.get('nameby', 'arg'))
                if py.get('dseed') is not None:
                    bump('py:decorators-shuffled')
                kinds = {p['kind'] for p in o['params'] if 'default' in p}
                if {'pos', 'kwonly'} <= kinds:
                    bump('py:positional-and-keyword-only-defaults')
            for p in o['params']:
                bump('param:' + p['kind'] + ('+default' if 'default' in p else ''))
                t = p.get('ty')
                bump('type:' + ('undeclared' if t is None else t if isinstance(t, str) else
                                'bare-class' if t[0] == 'cls' else 'py'))
                for flag in ('byname', 'byindex', 'nullable'):
                    if p.get(flag) is not None:
                        bump('param:' + flag)
    c = case['call']
    if 'recv' in c:
        bump('call:method')
    for a in c['args']:
        bump('arg:' + ('keyword' if a[0] == 'm' and a[1][0] == 'kwc' else a[0]))
    if c.get('kw'):
        bump('call:python-kwargs')
    if real.get('log'):
        bump('log-len:%d' % min(len(real['log']), 4))


def run(env, res):
    drv = env['driver']
    rng = common.make_rng(env['seed'], 'C05')
    n_fam = 8000 if env["tier"] == "quick" else 70000
    res.rule = ('random overload families (1-4 layers, 0-4 overloads per layer, parameters positional/defaulted/keyword-only/'
                '*/**/hidden/lazy/constant over the lattice Base>L,R>D + int/str/object/NoneType) with 3 calls each derived '
                'from a random overload\'s signature and mutated; distinct = distinct (family, call); non-trivial = '
                'at least two overloads and the outcome is not Unknown')
    hist = {}
    n_hist = 3200 if env["tier"] == "quick" else 28000
    res.rule += ('; plus call histories on live Context forests (1-7 contexts): overloads of a pool of 2-6 are registered '
                 'step by step (same / ancestor / descendant / sibling contexts, some exclusively, some twice), deleted '
                 'with delete_function, children are created before and after, and calls - new ones and repeated '
                 'earlier ones - are made in between from old and new contexts; every call is compared with the rules '
                 'and the model applied to the family AS REGISTERED AT THAT MOMENT (the harness\'s own record of the API '
                 'calls); contexts are plain Contexts, MultiContexts over existing ones and LinkedContexts (40 % of the '
                 'histories); half of the overloads are randomly written Python callables (def / closure of one factory / '
                 'lambda / class function; decorators in shuffled order; hidden by name; bare classes; by index; python-style '
                 'names under the CamelCase convention) registered as prepared definitions or as callables; one definition '
                 'object / one callable is registered in several contexts with different exclusive flags in both orders '
                 '(45 % of the histories favour it); half of the histories make most calls through YaqlInterface objects '
                 '(one per context for the whole history, on(), derived from derived, made with a receiver, injected into '
                 'a host function that makes several calls), the same name with / without receiver and on other '
                 'receivers through one interface family; distinct = distinct history')
    if env['replay']:
        rp = json.load(open(env['replay']))
        if 'ospec' in rp['case']:       # a definition alone: one layer, an empty call
            rp['case'] = dict(layers=[dict(fns=[rp['case']['ospec']], x=False)], call=dict(args=[], kw=[]))
        cases = [rp['case']]
        if 'steps' in rp['case']:
            fs, recs = run_history(rp['case'], drv)
            res.case(common.digest(rp['case']), True, sample=rp['case'])
            res.traces += len(recs)
            for kind, key, msg in fs:
                res.fail(kind, key, msg, rp['case'])
            return res
        for case in cases:
            fs, real, fam = run_case(case, drv)
            res.case(common.digest(case), True, sample=case)
            res.traces += 1
            for kind, key, msg in fs:
                res.fail(kind, key, msg, case)
        return res
    for case in HAND:
        fs, real, fam = run_case(case, drv)
        res.case(common.digest(case), True)
        res.traces += 1
        features(case, real, hist)
        for kind, key, msg in fs:
            res.fail(kind, key, msg, case)
    batch = []

    def flush():
        if not batch:
            return
        models = None
        if drv:
            req = dict(p='Resolve', lat=None, fams=[dict(layers=fam.enc_layers(), calls=[c.enc() for c in calls])
                                                    for _, fam, calls, _ in batch])
            req['lat'] = rl.T.lattice()
            models = drv.ask(req)['out']
            for o, d in rl.ask_tables(drv, [it for _, fam, _, _ in batch for it in fam.sig_items()])[:2]:
                res.fail('mismatch', 'definition-table', 'overload %d: the Lean model of get_function_definition and '
                         'yaql disagree: %s' % (o['id'], '; '.join(d[:3])), dict(ospec=o))
        hist['definitions-compared'] = hist.get('definitions-compared', 0) + sum(
            len(fam.fds) for _, fam, _, _ in batch)
        for bi, (layers, fam, calls, cspecs) in enumerate(batch):
            for ci, call in enumerate(calls):
                case = dict(layers=layers, call=cspecs[ci])
                fs, real = compare(fam, call, models[bi][ci] if models else None)
                nover = sum(len(l['fns']) for l in layers)
                res.case(common.digest(case), nover >= 2 and real.get('err') != 'Unknown',
                         sample=case if res.evaluations < 3 else None)
                res.traces += 1 if models else 0
                features(case, real, hist)
                for kind, key, msg in fs[:1]:
                    if len(res.failures) < 3:
                        small = shrink(case, drv, kind, key)
                        fs2, _, _ = run_case(small, drv)
                        msg2 = next((m for k, ky, m in fs2 if k == kind and ky == key), msg)
                        res.fail(kind, key, msg2, small)
                    elif len(res.failures) < 10:
                        res.fail(kind, key, msg, case)
        del batch[:]

    for k in range(n_fam):
        layers = resolvegen.gen_family(rng)
        try:
            fam = rl.Family(layers)
        except rl.Unsupported:
            continue
        pc = resolvegen.ProbeCounter()
        cspecs = [resolvegen.gen_call(rng, layers, pc) for _ in range(3)]
        calls = [rl.BuiltCall(c) for c in cspecs]
        batch.append((layers, fam, calls, cspecs))
        if len(batch) >= 200:
            flush()
        if len(res.failures) >= 6:
            break
    flush()

    # ---- call histories
    hbatch = []

    def hflush():
        if not hbatch:
            return
        models = ask_histories(drv, [h for _, h, _ in hbatch])
        for o, d in rl.ask_tables(drv, [it for _, h, _ in hbatch for it in h.sig_items()])[:2]:
            res.fail('mismatch', 'definition-table', 'overload %d: the Lean model of get_function_definition and '
                     'yaql disagree: %s' % (o['id'], '; '.join(d[:3])), dict(ospec=o))
        hist['definitions-compared'] = hist.get('definitions-compared', 0) + sum(len(h.fds) for _, h, _ in hbatch)
        for bi, (hspec, h, recs) in enumerate(hbatch):
            fs = judge_history(hspec, h, recs, models[bi] if models else None)
            ncalls = len(recs)
            res.case(common.digest(hspec), ncalls >= 2 and any(r[2].get('err') != 'Unknown' for r in recs),
                     sample=hspec if bi == 0 and hist.get('hist:sampled') is None else None)
            hist['hist:sampled'] = 1
            res.traces += ncalls if models else 0
            history_features(hspec, recs, hist)
            done = set()
            for kind, key, msg in fs:
                if (kind, key) in done:
                    continue
                done.add((kind, key))
                if sum(1 for f in res.failures if str(f.key).startswith('history-')) < 2:
                    small = shrink_history(hspec, drv, kind, key)
                    fs2, _ = run_history(small, drv)
                    msg2 = next((m for k, ky, m in fs2 if k == kind and ky == key), msg)
                    res.fail(kind, key, msg2, small)
                elif len(res.failures) < 16:
                    res.fail(kind, key, msg, hspec)
        del hbatch[:]

    nfail0 = len(res.failures)
    for k in range(n_hist):
        hspec = resolvegen.gen_history(rng)
        try:
            h, recs = play(hspec)
        except rl.Unsupported:
            continue
        hbatch.append((hspec, h, recs))
        if len(hbatch) >= 150:
            hflush()
        if len(res.failures) - nfail0 >= 4:
            break
    hflush()
    hist.pop('hist:sampled', None)
    res.extra['histogram'] = hist
    return res


LEVEL_TEXT = ('Lean 4 theorems over a code-shaped model of runner.call/choose_overload/translate_args and '
              'FunctionDefinition.map_args/get_delegate: for EVERY class graph, overload family, layer chain and call the '
              'model equals the rule-shaped specification resolveSpec (resolve_eq_spec) and its corollaries; on LIVE contexts '
              '(C05Hist): a call made at any moment of any history of register_function / delete_function / '
              'create_child_context operations resolves as the rules prescribe for the family the context chain denotes at '
              'that moment (resolveIn_eq_spec, via C17 layers), two histories that end in the same visible family give the '
              'same outcome (resolve_history_independent), and registrations / deletions outside the chain are invisible; '
              'through the host entry point YaqlInterface (C05Iface, model Yaql.Interface): a call through an interface is '
              'the call the rules prescribe for the interface\'s own context and receiver at that moment (call_eq_spec), '
              'on() never rebinds an existing interface and calls leave no trace, so this holds after any history through '
              'one interface family (history_call_eq_spec, call_insertion_invisible), the injected yaql_interface answers '
              'as the calling context does (inject_eq_caller), and a per-name stub cache shared by the family does not '
              '(Ex.stub_cache_wrong); '
              'for the step from a Python callable to the parameter table (C05Sig, model Yaql.Signature of set_parameter / '
              'get_function_definition): every entry has the key, position and default its argument has in the Python '
              'signature (define_sound, define_complete), so every argument with a Python default - positional or '
              'keyword-only - gets it and no other does (defaults_complete, mandatory_stay_mandatory), whatever the order '
              'of the decorators (define_perm); and the 284 definitions of the live standard library are the ones this '
              'translation derives from inspect.signature of their payloads (C05SigGen, regenerated each run). '
              'The model is tied to the code by running generated families and generated call histories on real Context '
              'chains and on the compiled model (the real FunctionDefinition objects are what is serialised), comparing '
              'chosen overload / error class, evaluation log and bound argument vector, and by an independent Python '
              'transcription of the written rules.')
LEVEL_NOTE = ('trusted: Lean kernel; hand-written models Yaql/Model/Types.lean, Resolve.lean, Context.lean, ResolveCtx.lean, Interface.lean, '
              'Signature.lean; the transcription of the documented definition rules (expected_fd); '
              'the encoder of real objects; the differential harness, its record of the registrations and the rules '
              'transcription. All theorems are unconditional.')
TECHNIQUE = ('Lean 4 proof (induction over candidate lists / parameter lists / context shapes) + differential testing '
             'against runner.call, including stepwise call histories')
DESIGN_REF = 'DESIGN.md section 5, C05'
