"""C05 - overload resolution follows the documented resolution rules.

Correspondence: generated overload families are registered on real `Context` chains (through the
real decorators and `get_function_definition`), the REAL FunctionDefinition objects are serialised to
the Lean model `Yaql.Resolve.resolve`, and generated calls go to `runner.call` and to the model:
same overload / error class, same ordered evaluation log, same bound argument vector.
Oracle (real code alone): `resolvelib.spec_resolve`, an independent transcription of
doc/source/extending_yaql.rst "Function resolution rules" + "single most specific match"."""
import copy
import json

import common
import resolvegen
import resolvelib as rl

ID = 'C05'
LEAN_MODULES = ['Yaql.Props.C05']
P = 'Yaql.Props.C05.'
REQUIRED_THEOREMS = [P + n for n in (
    'resolve_eq_spec', 'unknown_iff', 'first_layer_wins', 'most_specific', 'no_matching_iff', 'kind_filter',
    'constants_prechecked', 'hidden_transparent', 'skipped_needs_default', 'star_absorbs')]
TRUSTED = ['python dict/set semantics modelled as association lists',
           'resolvelib.enc_fd / enc_arg: the encoding of real FunctionDefinition and expression objects for the model',
           'resolvelib.spec_resolve: transcription of the written rules']
ASSUMPTIONS = ['smart types outside the closed description (AnyOf, Chain, NotOfType, Super, Delegate converters) are not '
               'generated; yaql.iterableDicts is off',
               'argument expressions are probes that cannot raise',
               'overload ids are distinct within a family (FunctionDefinition identity)']


def _o(fid, params, kind='function', nk=False):
    return dict(id=fid, kind=kind, nk=nk, params=params)


def _p(name, ty, **kw):
    return dict(name=name, kind='pos', ty=ty, **kw)


# hand-made cases run first: the Lean witnesses of Props/C05.lean and Props/C06.lean on the real code
HAND = [
    # A(D,D) B(L,Base) C(Base,R): A wins
    dict(layers=[dict(fns=[_o(0, [_p('a', ['py', 'D', False]), _p('b', ['py', 'D', False])]),
                           _o(1, [_p('a', ['py', 'L', False]), _p('b', ['py', 'Base', False])]),
                           _o(2, [_p('a', ['py', 'Base', False]), _p('b', ['py', 'R', False])])], x=False)],
         call=dict(args=[['tick', 1, 3], ['tick', 2, 3]], kw=[])),
    # P(x: Lambda) Q(x: String): f(1) -> P (constant pre-check), f(<expr>) -> Ambiguous
    dict(layers=[dict(fns=[_o(0, [_p('x', 'Lambda')]), _o(1, [_p('x', 'String')])], x=False)],
         call=dict(args=[['c', 1]], kw=[])),
    dict(layers=[dict(fns=[_o(0, [_p('x', 'Lambda')]), _o(1, [_p('x', 'String')])], x=False)],
         call=dict(args=[['tick', 1, 8]], kw=[])),
    dict(layers=[dict(fns=[_o(0, [_p('x', 'Lambda')]), _o(1, [_p('x', 'String')])], x=False)],
         call=dict(args=[['m', ['kwc', 'x'], ['c', 1]]], kw=[])),
    # nearer layer wins; exclusive layer hides
    dict(layers=[dict(fns=[], x=False), dict(fns=[_o(0, [_p('a', ['py', 'Base', False])])], x=False),
                 dict(fns=[_o(1, [_p('a', ['py', 'D', False])]), _o(2, [_p('a', ['py', 'str', False])])], x=False)],
         call=dict(args=[['tick', 1, 3]], kw=[])),
    dict(layers=[dict(fns=[], x=False), dict(fns=[_o(0, [_p('a', ['py', 'Base', False])])], x=True),
                 dict(fns=[_o(1, [_p('a', ['py', 'D', False])]), _o(2, [_p('a', ['py', 'str', False])])], x=False)],
         call=dict(args=[['c', 'a']], kw=[])),
    # repaired by 9bf7e72: Number() vs Integer() are not ordered by specialization -> Ambiguous (was: TypeError)
    dict(layers=[dict(fns=[_o(0, [_p('x', 'Number')]), _o(1, [_p('x', 'Integer')])], x=False)],
         call=dict(args=[['c', 1]], kw=[])),
]


def compare(fam, call, model):
    """-> list of (kind, key, message)"""
    out = []
    real = rl.run_real(fam, call)
    if 'delegate_error' in real:
        # resolution succeeded; converting the arguments / calling the payload raised (e.g. a keyword that
        # `**` captured under the python name of an aliased parameter): not a resolution outcome
        return out, real
    exp = rl.spec_resolve(fam, call)
    exp_id = None
    if 'id' in exp:
        exp_id = [i for i, fd in fam.fds.items() if fd is exp['id']][0]
    r_out = real.get('err', real.get('id'))
    e_out = exp.get('err', exp_id)
    if r_out != e_out:
        out.append(('oracle', 'resolution',
                    'real outcome %r, the written rules give %r' % (r_out, e_out)))
    elif real['log'] != exp['log']:
        out.append(('oracle', 'evaluation-log', 'real evaluation log %r, rules give %r (outcome %r)' % (
            real['log'], exp['log'], r_out)))
    if model is not None:
        m_out = model.get('err', model.get('id'))
        mlog = [p for p in model['log'] if p < rl.SILENT]
        if m_out != r_out:
            out.append(('mismatch', 'resolution', 'real outcome %r, model %r' % (r_out, m_out)))
        elif mlog != real['log']:
            out.append(('mismatch', 'evaluation-log', 'real log %r, model log %r' % (real['log'], mlog)))
        elif 'id' in real:
            mb = rl.model_bound(fam.fds[real['id']], model)
            if mb != real['bound']:
                out.append(('mismatch', 'bound-vector', 'overload %d bound: real %r model %r' % (
                    real['id'], real['bound'], mb)))
    return out, real


def run_case(case, drv):
    """case: {layers, call} -> (failures, real outcome, family)"""
    fam = rl.Family(case['layers'])
    call = rl.BuiltCall(case['call'])
    model = None
    if drv:
        req = dict(p='Resolve', fams=[dict(layers=fam.enc_layers(), calls=[call.enc()])])
        req['lat'] = rl.T.lattice()
        model = drv.ask(req)['out'][0][0]
    return compare(fam, call, model) + (fam,)


def shrink(case, drv, kind, key):
    def fails(c):
        try:
            fs, _, _ = run_case(c, drv)
        except Exception:
            return False
        return any(f[0] == kind and f[1] == key for f in fs)
    changed = True
    while changed:
        changed = False
        cands = []
        for li, layer in enumerate(case['layers']):
            c = copy.deepcopy(case)
            del c['layers'][li]
            cands.append(c)
            for oi in range(len(layer['fns'])):
                c = copy.deepcopy(case)
                del c['layers'][li]['fns'][oi]
                cands.append(c)
                for pi, p in enumerate(layer['fns'][oi]['params']):
                    c = copy.deepcopy(case)
                    del c['layers'][li]['fns'][oi]['params'][pi]
                    cands.append(c)
            if layer.get('x'):
                c = copy.deepcopy(case)
                c['layers'][li]['x'] = False
                cands.append(c)
        for ai in range(len(case['call']['args'])):
            c = copy.deepcopy(case)
            del c['call']['args'][ai]
            cands.append(c)
        for ki in range(len(case['call'].get('kw', []))):
            c = copy.deepcopy(case)
            del c['call']['kw'][ki]
            cands.append(c)
        for c in cands:
            if fails(c):
                case = c
                changed = True
                break
    return case


def features(case, real, hist):
    def bump(k):
        hist[k] = hist.get(k, 0) + 1
    bump('outcome:' + str(real.get('err', 'delegate-raised' if 'delegate_error' in real else 'chosen')))
    bump('layers:%d' % len(case['layers']))
    bump('overloads:%d' % min(sum(len(l['fns']) for l in case['layers']), 8))
    if any(l.get('x') for l in case['layers']):
        bump('exclusive-layer')
    for l in case['layers']:
        for o in l['fns']:
            bump('kind:' + o['kind'])
            if o.get('nk'):
                bump('no_kwargs')
            for p in o['params']:
                bump('param:' + p['kind'] + ('+default' if 'default' in p else ''))
                t = p.get('ty')
                bump('type:' + ('undeclared' if t is None else t if isinstance(t, str) else 'py'))
    c = case['call']
    if 'recv' in c:
        bump('call:method')
    for a in c['args']:
        bump('arg:' + ('keyword' if a[0] == 'm' and a[1][0] == 'kwc' else a[0]))
    if c.get('kw'):
        bump('call:python-kwargs')
    if real.get('log'):
        bump('log-len:%d' % min(len(real['log']), 4))


def run(env, res):
    drv = env['driver']
    rng = common.make_rng(env['seed'], 'C05')
    n_fam = 12000 if env["tier"] == "quick" else 150000
    res.rule = ('random overload families (1-4 layers, 0-4 overloads per layer, parameters positional/defaulted/keyword-only/'
                '*/**/hidden/lazy/constant over the lattice Base>L,R>D + int/str/object/NoneType) with 3 calls each derived '
                'from a random overload\'s signature and mutated; distinct = distinct (family, call); non-trivial = '
                'at least two overloads and the outcome is not Unknown')
    hist = {}
    if env['replay']:
        rp = json.load(open(env['replay']))
        cases = [rp['case']]
        for case in cases:
            fs, real, fam = run_case(case, drv)
            res.case(common.digest(case), True, sample=case)
            res.traces += 1
            for kind, key, msg in fs:
                res.fail(kind, key, msg, case)
        return res
    for case in HAND:
        fs, real, fam = run_case(case, drv)
        res.case(common.digest(case), True)
        res.traces += 1
        features(case, real, hist)
        for kind, key, msg in fs:
            res.fail(kind, key, msg, case)
    batch = []

    def flush():
        if not batch:
            return
        models = None
        if drv:
            req = dict(p='Resolve', lat=None, fams=[dict(layers=fam.enc_layers(), calls=[c.enc() for c in calls])
                                                    for _, fam, calls, _ in batch])
            req['lat'] = rl.T.lattice()
            models = drv.ask(req)['out']
        for bi, (layers, fam, calls, cspecs) in enumerate(batch):
            for ci, call in enumerate(calls):
                case = dict(layers=layers, call=cspecs[ci])
                fs, real = compare(fam, call, models[bi][ci] if models else None)
                nover = sum(len(l['fns']) for l in layers)
                res.case(common.digest(case), nover >= 2 and real.get('err') != 'Unknown',
                         sample=case if res.evaluations < 3 else None)
                res.traces += 1 if models else 0
                features(case, real, hist)
                for kind, key, msg in fs[:1]:
                    if len(res.failures) < 6:
                        small = shrink(case, drv, kind, key)
                        fs2, _, _ = run_case(small, drv)
                        msg2 = next((m for k, ky, m in fs2 if k == kind and ky == key), msg)
                        res.fail(kind, key, msg2, small)
                    else:
                        res.fail(kind, key, msg, case)
        del batch[:]

    for k in range(n_fam):
        layers = resolvegen.gen_family(rng)
        try:
            fam = rl.Family(layers)
        except rl.Unsupported:
            continue
        pc = resolvegen.ProbeCounter()
        cspecs = [resolvegen.gen_call(rng, layers, pc) for _ in range(3)]
        calls = [rl.BuiltCall(c) for c in cspecs]
        batch.append((layers, fam, calls, cspecs))
        if len(batch) >= 200:
            flush()
        if len(res.failures) >= 12:
            break
    flush()
    res.extra['histogram'] = hist
    return res


LEVEL_TEXT = ('Lean 4 theorems over a code-shaped model of runner.call/choose_overload/translate_args and '
              'FunctionDefinition.map_args/get_delegate: for EVERY class graph, overload family, layer chain and call the '
              'model equals the rule-shaped specification resolveSpec (resolve_eq_spec) and its corollaries. The model is '
              'tied to the code by running generated families on real Context chains and on the compiled model (the real '
              'FunctionDefinition objects are what is serialised), comparing chosen overload / error class, evaluation '
              'log and bound argument vector, and by an independent Python transcription of the written rules.')
LEVEL_NOTE = ('trusted: Lean kernel; hand-written models Yaql/Model/Types.lean and Resolve.lean; the encoder of real '
              'objects; the differential harness and the rules transcription. All theorems are unconditional.')
TECHNIQUE = 'Lean 4 proof (induction over candidate lists / parameter lists) + differential testing against runner.call'
DESIGN_REF = 'DESIGN.md section 5, C05'
