"""C12 - all ways of passing the same arguments are equivalent.

Generated table: `Yaql/Gen/Registry.lean` (every registered FunctionDefinition, all layers);
`Props/C12Gen.lean` re-proves `registry_wf` / `alias_convention` on it every run.

Correspondence over the FULL registry, per definition and per well-typed argument tuple drawn from a
typed corpus:
 (A) real code alone (the oracle): the call is made through name resolution in every spelling -
     all positional; every positional/keyword split (alias names); every subset of trailing defaults
     omitted; defaults given explicitly; empty slots; `call(name, args, kwargs)`; receiver form for
     methods - and must give the same finalised result or the same error class;
 (B) tie to the model: for every spelling `fd.map_args` / `fd.get_delegate` on the real definition
     against `Yaql.Resolve.mapArgs` / `getDelegate` on its encoding: same mapping, same bound vector."""
import datetime
import itertools
import json
import re
import signal

import common
import pyfacts
import resolvelib as rl
import values
import yaql
from yaql.language import contexts, exceptions, expressions, factory, specs, utils, yaqltypes

ID = 'C12'
LEAN_MODULES = ['Yaql.Props.C12', 'Yaql.Props.C12Gen', 'Yaql.Props.C12Args']
REQUIRED_THEOREMS = ['Yaql.Props.C12.call_equiv', 'Yaql.Props.C12.ext_both_ways', 'Yaql.Props.C12.kind_exclusive',
                     'Yaql.Props.C12.spelling_kw_move', 'Yaql.Props.C12.spelling_default_move',
                     'Yaql.Props.C12.movesOk_spec', 'Yaql.Props.C12Gen.registry_wf',
                     'Yaql.Props.C12Gen.registry_moves_ok', 'Yaql.Props.C12Gen.alias_convention',
                     'Yaql.Props.C12Args.arglist_grammar', 'Yaql.Props.C12Args.arglist_only_shaped',
                     'Yaql.Props.C12Args.argsOK_iff_shape']
TRUSTED = ['harness/gens/registry.py (the dump of the live registry)',
           'the typed value corpus and the canonicalisation of results (harness/values.py)']
ASSUMPTIONS = ['spelling_equiv is proved one parameter at a time (positional <-> keyword, default omitted <-> explicit); the '
               'whole-vector statement spelling_equiv_full is kept as a def',
               'smart types outside the closed description (AnyOf, Chain, NotOfType, DateTime..) are encoded for the model as '
               'PythonType(object) with one synthetic validator = their real check()',
               'parser-level spellings (arglist grammar) belong to the parser group']


def generate():
    return pyfacts.run(['Registry'])['Registry']


ENGINE = factory.YaqlFactory().create(options={'yaql.limitIterators': 200, 'yaql.memoryQuota': 5000000})
rl.ENGINE = ENGINE      # the helpers of resolvelib describe hidden Engine parameters against this engine


NONDETERMINISTIC = {'now', 'random', 'randomInt'}


class Timeout(Exception):
    pass


def _alarm(signum, frame):
    raise Timeout()


def expr(text):
    return ENGINE(text).expression


POOL = [
    ('none', lambda: None), ('true', lambda: True), ('0', lambda: 0), ('2', lambda: 2), ('-1', lambda: -1),
    ('1.5', lambda: 1.5), ('abc', lambda: 'abc'), ('empty-str', lambda: ''), ('a b', lambda: 'a b, c'),
    ('tuple123', lambda: (1, 2, 3)), ('tuple-str', lambda: ('b', 'a')), ('empty-tuple', lambda: ()),
    ('nested', lambda: ((1, 2), (3, 4))),
    ('dict', lambda: utils.FrozenDict({'a': 1, 'b': 2})), ('set', lambda: frozenset([1, 2])),
    ('iter', lambda: iter([3, 1, 2])),
    ('dt', lambda: datetime.datetime(2020, 1, 2, 3, 4, 5, tzinfo=datetime.timezone.utc)),
    ('td', lambda: datetime.timedelta(hours=1)),
    ('regex', lambda: re.compile('a+')), ('context', lambda: _CTX_VALUE),
    ('ordering', lambda: _ordering()), ('yaqlized', lambda: _YOBJ),
    ('e:$', lambda: expr('$')), ('e:$>1', lambda: expr('$ > 1')), ('e:$1+$2', lambda: expr('$1 + $2')),
    ('e:len', lambda: expr('len($)')), ('e:[$,$]', lambda: expr('[$, $]')),
    ('c:1', lambda: expressions.Constant(1)), ('c:a', lambda: expressions.Constant('a')),
    ('c:true', lambda: expressions.Constant(True)), ('c:null', lambda: expressions.Constant(None)),
    ('kw:foo', lambda: expressions.KeywordConstant('foo')), ('kw:len', lambda: expressions.KeywordConstant('len')),
    ('m:1=>2', lambda: expressions.MappingRuleExpression(expressions.Constant(1), expressions.Constant(2))),
]


class _Yaqlized:
    """a host object opened up by yaqlization (for #indexer / #operator_. on Yaqlized receivers)"""
    def __init__(self):
        self.foo = 5
        self.items = (1, 2)

    def __getitem__(self, k):
        return {'foo': 1, 0: 'z'}[k]


def _ordering():
    from yaql.standard_library import queries
    o = queries.OrderingIterable((3, 1, 2), lambda a, b: a < b, lambda a, b: a > b)
    o.append_field(lambda x: x, True)
    return o


try:
    from yaql.language import yaqlization as _yz
except ImportError:             # the module lives at yaql/yaqlization.py
    from yaql import yaqlization as _yz
_YOBJ = _yz.yaqlize(_Yaqlized())
_CTX_VALUE = yaql.create_context().create_child_context()


def root_context():
    return yaql.create_context()


def candidates(p, ctx):
    """corpus values that pass the parameter's own check.  Expression / constant objects are offered only to
    lazy and constant-typed parameters: for an eager parameter the tuple has to be valid AFTER evaluation, which
    only a plain value guarantees"""
    out = []
    special = isinstance(p.value_type, (yaqltypes.LazyParameterType, yaqltypes.Constant))
    for label, mk in POOL:
        if is_plain(label) == special:
            continue
        if label.startswith('m:') and not isinstance(p.value_type, yaqltypes.MappingRule):
            continue            # `a => b` in an argument list is a keyword argument, not a value
        try:
            v = mk()
            if p.value_type.check(v, ctx, ENGINE):
                out.append((label, mk))
        except Exception:
            pass
    return out


def materialize(v, depth=0):
    """finalised view of a result: iterators cut at 100 items, host objects by repr class"""
    if depth > 6:
        return 'deep'
    if v is None or isinstance(v, (bool, int, float)):
        return v
    if isinstance(v, str):
        return re.sub(r'0x[0-9a-f]+', '0x?', v)
    if isinstance(v, (datetime.datetime, datetime.timedelta)):
        return 'dt:' + repr(v)
    if isinstance(v, utils.MappingType):
        return utils.FrozenDict((materialize(k, depth + 1), materialize(x, depth + 1)) for k, x in v.items())
    if isinstance(v, (frozenset, set)):
        return frozenset(materialize(x, depth + 1) for x in v)
    if isinstance(v, (tuple, list)):
        return tuple(materialize(x, depth + 1) for x in v)
    if isinstance(v, utils.IterableType if hasattr(utils, 'IterableType') else ()) or hasattr(v, '__iter__'):
        return tuple(materialize(x, depth + 1) for x in itertools.islice(iter(v), 100))
    if callable(v):
        return 'callable'
    return 'obj:' + type(v).__name__


def outcome(thunk):
    signal.signal(signal.SIGALRM, _alarm)
    signal.setitimer(signal.ITIMER_REAL, 1.0)
    try:
        try:
            r = thunk()
            m = materialize(r)
        finally:
            signal.setitimer(signal.ITIMER_REAL, 0)
    except Timeout:
        return 'err:Timeout'
    except RecursionError:
        return 'err:RecursionError'
    except Exception as e:
        return 'err:' + type(e).__name__
    try:
        return re.sub(r'0x[0-9a-f]+', '0x?', json.dumps(values.canon(values.enc(m)), sort_keys=True))
    except Exception as e:
        return 'unencodable:' + type(e).__name__


def visible_params(fd):
    vis = [p for k, p in fd.parameters.items() if p.position is not None and k != '*' and
           not isinstance(p.value_type, yaqltypes.HiddenParameterType)]
    vis.sort(key=lambda p: p.position)
    kwonly = [p for k, p in fd.parameters.items() if p.position is None and k != '**' and
              not isinstance(p.value_type, yaqltypes.HiddenParameterType)]
    return vis, kwonly


def is_plain(label):
    return not (label.startswith('e:') or label.startswith('c:') or label.startswith('kw:') or label.startswith('m:'))


def documented_name(fd, p):
    """the keyword name the documentation promises: the explicit alias, else the convention translation of the
    python parameter name (trailing underscores stripped, snake_case -> camelCase) - computed here, not read
    from the definition"""
    import gens.registry as greg
    if greg.explicit_alias(fd, p):
        return p.alias
    n = p.name.rstrip('_')
    return re.sub(r'(?!^)_(\w)', lambda m: m.group(1).upper(), n)


def spellings(fd, vis, kwonly, choice):
    """choice: {param name -> (label, factory) or None (= use the default)} -> [(tag, receiver_index|None,
    [factory|NO_VALUE ...], {kw: factory})]"""
    n = len(vis)
    given = [choice[p.name] is not None for p in vis]
    # trailing parameters left to their defaults can be omitted; an inner one must be an empty slot
    last = max([i for i in range(n) if given[i]], default=-1)
    kwo = {(p.alias or p.name): choice[p.name][1] for p in kwonly if choice[p.name] is not None}

    def pos_args(upto):
        return [choice[vis[i].name][1] if given[i] else utils.NO_VALUE for i in range(upto)]
    out = [('positional', None, pos_args(last + 1), dict(kwo))]
    if not fd.no_kwargs:
        for k in range(0, last + 1):
            kw = dict(kwo)
            for i in range(k, last + 1):
                if given[i]:
                    kw[vis[i].alias or vis[i].name] = choice[vis[i].name][1]
            args = pos_args(k)
            while args and args[-1] is utils.NO_VALUE:
                args.pop()
            out.append(('split@%d' % k, None, args, kw))
        # all keywords under their documented names
        kw = {documented_name(fd, p): choice[p.name][1] for p in kwonly if choice[p.name] is not None}
        for i in range(last + 1):
            if given[i]:
                kw[documented_name(fd, vis[i])] = choice[vis[i].name][1]
        out.append(('documented-names', None, [], kw))
    # defaults given explicitly (eager parameters): the value the parameter would get anyway
    expl = []
    for i in range(n):
        if not given[i] and not isinstance(vis[i].value_type, yaqltypes.LazyParameterType) and \
                vis[i].default is not specs.NO_DEFAULT:
            expl.append(i)
    if expl:
        upto = max(last, max(expl)) + 1
        args = []
        ok = True
        for i in range(upto):
            if given[i]:
                args.append(choice[vis[i].name][1])
            elif vis[i].default is not specs.NO_DEFAULT:
                args.append((lambda d: (lambda: d))(vis[i].default))
            else:
                ok = False
        if ok:
            out.append(('explicit-defaults', None, args, dict(kwo)))
    if fd.is_method and n and given[0]:
        out.append(('method-form', 0, pos_args(last + 1)[1:], dict(kwo)))
    if not fd.is_function:
        # a method-only definition: every spelling in receiver form (the receiver is the first visible parameter)
        if not (n and given[0]):
            return []
        conv = []
        for tag, recv_i, args, kw in out:
            if recv_i is not None:
                continue
            if not args or args[0] is utils.NO_VALUE:
                continue            # the receiver cannot be passed by keyword
            conv.append((tag, 0, args[1:], kw))
        return conv
    return out


def enc_type_any(vt, ctx):
    """the closed description where possible, else PythonType(object) + one synthetic validator = the real check"""
    try:
        return rl.enc_type(vt)
    except rl.Unsupported:
        pass
    key = '_c12_validator'
    v = getattr(vt, key, None) if hasattr(vt, '__dict__') else None
    v = SYN.get(id(vt))
    if v is None:
        def v(value, vt=vt):
            return bool(vt.check(value, ctx, ENGINE))
        SYN[id(vt)] = v
        KEEP.append(vt)
    nullable = bool(vt.check(None, ctx, ENGINE))
    return dict(t='py', n=nullable, vs=[rl.T.validator(v)], one=rl.T.cls(object))


SYN = {}
KEEP = []


def enc_fd_any(fd, fid, ctx):
    ps = []
    for key, p in fd.parameters.items():
        ps.append({'key': key, 'name': p.name, 'alias': p.alias or None, 'pos': p.position,
                   'def': None if p.default is specs.NO_DEFAULT else rl.enc_arg(p.default, None),
                   'ty': enc_type_any(p.value_type, ctx)})
    return dict(id=fid, fn=bool(fd.is_function), me=bool(fd.is_method), nk=bool(fd.no_kwargs), ps=ps)


def _cells(f):
    return dict(zip(f.__code__.co_freevars, [c.cell_contents for c in (f.__closure__ or ())]))


def real_bind(fd, args, kwargs, ctx, receiver):
    """-> (mapping names | None, bound vector | None) of the REAL definition; the bound vector is read out of the
    delegate's closure (the `checked` thunks hold parameter and unconverted value)"""
    m = fd.map_args(tuple(args), dict(kwargs), ctx, ENGINE)
    mdesc = None
    if m is not None:
        mdesc = dict(pos=[p.name for p in m[0]], kwd=sorted([k, p.name] for k, p in m[1].items()))
    try:
        d = fd.get_delegate(receiver, ENGINE, ctx, tuple(args), dict(kwargs))
    except exceptions.ArgumentException:
        return mdesc, None
    c = _cells(d)
    pos = []
    for f in c['positional_args']:
        cc = _cells(f)
        pos.append((cc['param'], cc['val']))
    kw = {}
    for k, f in c['keyword_args'].items():
        cc = _cells(f)
        kw[k] = (cc['param'], cc['val'])
    return mdesc, (pos, kw)


def index_of(v, objs):
    for i, o in enumerate(objs):
        if o is v:
            return i
    return None


def describe_real(param, v, objs):
    if isinstance(param.value_type, yaqltypes.HiddenParameterType):
        return ['hid']
    if v is utils.NO_VALUE:
        return ['nv']
    i = index_of(v, objs)
    if i is not None:
        if isinstance(v, expressions.Constant) and v.value is None:     # the model cannot tell two Constant(None) apart
            i = min(j for j, o in enumerate(objs) if isinstance(o, expressions.Constant) and o.value is None)
        return ['arg', i]
    if v is None:
        return ['none']
    return ['other']


def describe_model(s, objs, tags, probes):
    if s is None:
        return ['unset']
    k = s.get('k')
    if k == 'hid':
        return ['hid']
    if k == 'nv':
        return ['nv']
    if k == 'e':
        return ['arg', probes[s['probe']]]
    if k == 'm':
        for i, o in enumerate(objs):
            if isinstance(o, expressions.MappingRuleExpression):
                return ['arg', i]
        return ['other']
    v = s.get('v')
    if k == 'c':
        # a Constant object: identified by the tag planted on its value
        t = s.get('v') and s['v'].get('t')
        if t in tags:
            return ['arg', tags[t]]
        for i, o in enumerate(objs):
            if isinstance(o, expressions.Constant) and o.value is None and v is None:
                return ['arg', i]
        return ['other']
    if v is None:
        for i, o in enumerate(objs):
            if o is None:
                return ['arg', i]
        return ['none']
    if v['t'] in tags:
        return ['arg', tags[v['t']]]
    return ['other']


def run(env, res):
    drv = env['driver']
    tier = env['tier']
    rng = common.make_rng(env['seed'], 'C12')
    per_fd = 60 if tier == 'quick' else 400
    import gens.registry as greg
    root = root_context()
    defs = greg.all_definitions(root)
    ctx = root.create_child_context()
    ctx['$'] = (1, 2, 3)
    res.rule = ('every registered definition x argument tuples from a typed corpus (values that pass the parameter\'s own '
                'check; each defaulted parameter given or left out) x spellings (all positional, every positional/keyword '
                'split, explicit defaults, call(), method form); distinct = (definition, tuple); non-trivial = at least two '
                'spellings and the positional spelling resolves')
    hist = {}

    def bump(k, n=1):
        hist[k] = hist.get(k, 0) + n
    replay = json.load(open(env['replay']))['case'] if env['replay'] else None
    model_reqs = []
    for di, (li, name, fd) in enumerate(defs):
        if replay and replay.get('def') != di:
            continue
        if name in NONDETERMINISTIC:
            bump('skipped-nondeterministic')
            continue
        vis, kwonly = visible_params(fd)
        cands = {p.name: candidates(p, ctx) for p in vis + kwonly}
        has_lazy = any(isinstance(p.value_type, (yaqltypes.LazyParameterType, yaqltypes.Constant))
                       for p in vis + kwonly)
        bump('definitions')
        if any(not cands[p.name] and p.default is specs.NO_DEFAULT for p in vis + kwonly):
            bump('no-corpus-value')
            continue
        tuples = set()
        for _ in range(per_fd * 3):
            ch = []
            for p in vis + kwonly:
                if p.default is not specs.NO_DEFAULT and (not cands[p.name] or rng.random() < 0.4):
                    ch.append(None)
                else:
                    ch.append(rng.randrange(len(cands[p.name])))
            tuples.add(tuple(ch))
            if len(tuples) >= per_fd:
                break
        for ch in sorted(tuples, key=repr):
            if replay and list(ch) != replay['choice']:
                continue
            choice = {p.name: (None if c is None else cands[p.name][c]) for p, c in zip(vis + kwonly, ch)}
            labels = {p.name: (None if c is None else cands[p.name][c][0]) for p, c in zip(vis + kwonly, ch)}
            sp = spellings(fd, vis, kwonly, choice)
            if not sp:
                continue
            case = dict(**{'def': di}, name=name, choice=list(ch), labels=labels,
                        params=[p.name for p in vis + kwonly])
            only_fd = (lambda f, c, fd=fd: f is fd)
            outs = []       # through the real resolver, overloads restricted to THIS definition
            outs_u = []     # the same through plain name resolution (all overloads of the name)
            for tag, recv_i, argf, kwf in sp:
                if outs and outs[0][1] == 'err:Timeout':
                    break                   # a non-terminating tuple: one spelling is enough to find that out

                def thunk(flt, recv_i=recv_i, argf=argf, kwf=kwf):
                    args = [a if a is utils.NO_VALUE else a() for a in argf]
                    kw = {k: f() for k, f in kwf.items()}
                    recv = choice[vis[0].name][1]() if recv_i is not None else utils.NO_VALUE
                    return ctx(name, ENGINE, recv, function_filter=flt)(*args, **kw)
                outs.append((tag, outcome(lambda: thunk(only_fd))))
                outs_u.append((tag, outcome(lambda: thunk(None))))
            # call(name, args, kwargs): only plain values can go through a list / dict; it resolves by name, so it is
            # comparable when the name has this one definition
            plain = all(l is None or is_plain(l) for l in labels.values()) and fd.is_function and not fd.no_kwargs \
                and sum(1 for _, n2, _ in defs if n2 == name) == 1
            if plain:
                tag, _, argf, kwf = sp[0]
                if all(a is not utils.NO_VALUE for a in argf):
                    def thunk2(argf=argf, kwf=kwf):
                        args = tuple(a() for a in argf)
                        kw = utils.FrozenDict({k: f() for k, f in kwf.items()})
                        return ctx('call', ENGINE)(name, args, kw)
                    outs.append(('call()', outcome(thunk2)))
            base = outs[0][1]
            resolved = base not in ('err:NoMatchingFunctionException', 'err:NoMatchingMethodException',
                                    'err:AmbiguousFunctionException', 'err:NoFunctionRegisteredException',
                                    'err:NoMethodRegisteredException', 'err:AmbiguousMethodException')
            bump('tuples')
            bump('spellings', len(outs))
            for tag, o in outs:
                bump('spelling:' + tag.split('@')[0])
            bump('result:' + ('error' if base.startswith('err:') else 'value'))
            res.case(common.digest(case), resolved and len(outs) >= 2, sample=case if res.evaluations < 3 else None)
            if resolved:
                diff = [(t, o) for t, o in outs if o != base]
                if diff:
                    res.fail('oracle', 'spelling:' + name,
                             '%s %r: positional -> %s but %s -> %s' % (name, labels, base[:120], diff[0][0], diff[0][1][:120]),
                             case)
                elif outs_u[0][1] == base:
                    # plain name resolution picks this definition positionally; a keyword spelling that then is
                    # AMBIGUOUS (not: answered by another overload that owns these names) contradicts the statement
                    amb = [(t, o) for t, o in outs_u if o.startswith('err:Ambiguous')]
                    if amb:
                        res.fail('oracle', 'kw-ambiguous:' + name,
                                 '%s %r: positional -> %s but by keyword (%s) -> %s' % (
                                     name, labels, base[:80], amb[0][0], amb[0][1]), case)
            # (B) the model on the same spellings, against the real definition's own binding
            if drv is not None:
                calls = []
                for tag, recv_i, argf, kwf in sp:
                    objs = [a if a is utils.NO_VALUE else a() for a in argf]
                    kwo = [(k, f()) for k, f in kwf.items()]
                    recv = utils.NO_VALUE
                    if recv_i is not None:
                        recv = choice[vis[0].name][1]()
                        objs = [recv] + objs
                    calls.append((tag, recv, objs, kwo))
                model_reqs.append((di, name, fd, case, calls))
    # ---- (B)
    if drv is not None:
        nb = 0
        TAG0 = 20000

        def encode_chunk(chunk):
            encs, metas = [], []
            for di, name, fd, case, calls in chunk:
                pr = rl.Probes()
                ecalls, cm = [], []
                for tag, recv, objs, kwo in calls:
                    allobjs = objs + [o for _, o in kwo]
                    tags, probes = {}, {}

                    def enc(o, allobjs=allobjs, tags=tags, probes=probes):
                        i = index_of(o, allobjs)
                        if isinstance(o, expressions.Expression) and not isinstance(
                                o, (expressions.Constant, expressions.MappingRuleExpression)):
                            pr.add(o, rl.SILENT + i, None)
                            probes[rl.SILENT + i] = i
                        d = rl.enc_arg(o, pr)
                        if d.get('k') in ('v', 'c') and d.get('v') is not None:
                            d['v'] = dict(d['v'], t=TAG0 + i)
                            tags[TAG0 + i] = i
                        return d
                    ecalls.append(dict(args=[enc(o) for o in objs], kw=[[k, enc(o)] for k, o in kwo]))
                    cm.append((allobjs, tags, probes))
                encs.append(dict(fd=enc_fd_any(fd, di, ctx), calls=ecalls))
                metas.append(cm)
            return encs, metas

        for start in range(0, len(model_reqs), 100):
            chunk = model_reqs[start:start + 100]
            encode_chunk(chunk)                 # first pass registers every class / validator
            encs, metas = encode_chunk(chunk)   # second pass: `passes` lists are complete
            req = dict(p='Resolve', op='bind', defs=encs)
            req['lat'] = rl.T.lattice()
            out = drv.ask(req)['out']
            for (di, name, fd, case, calls), mres, cm in zip(chunk, out, metas):
                for (tag, recv, objs, kwo), m, (allobjs, tags, probes) in zip(calls, mres, cm):
                    rmap, rbound = real_bind(fd, objs, kwo, ctx, recv)
                    nb += 1
                    mmap = None if m['map'] is None else dict(pos=m['map']['pos'], kwd=sorted(m['map']['kwd']))
                    if mmap != rmap:
                        res.fail('mismatch', 'map_args:' + name, '%s %s spelling %s: real map_args %r, model %r' % (
                            name, case['labels'], tag, rmap, mmap), case)
                        continue
                    if (m['del'] is None) != (rbound is None):
                        res.fail('mismatch', 'get_delegate:' + name, '%s %s spelling %s: real get_delegate %s, model %s' % (
                            name, case['labels'], tag, 'fails' if rbound is None else 'binds',
                            'fails' if m['del'] is None else 'binds'), case)
                        continue
                    if rbound is None:
                        continue
                    rpos, rkw = rbound
                    real_pos = [describe_real(p, v, allobjs) for p, v in rpos]
                    mod_pos = [describe_model(s, allobjs, tags, probes) for s in m['del']['pos'] + m['del']['extra']]
                    real_kw = {k: describe_real(p, v, allobjs) for k, (p, v) in rkw.items()}
                    mod_kw = {k: describe_model(s, allobjs, tags, probes) for k, s in m['del']['kw']}
                    def eq(r, mm, pv):
                        # a small int / None argument may be the very object that is also the parameter's default
                        return r == mm or (mm in (['other'], ['none']) and pv[1] is pv[0].default) or \
                            (mm == ['none'] and pv[1] is None)
                    same = len(real_pos) == len(mod_pos) and all(eq(r, mm, pv) for r, mm, pv in zip(real_pos, mod_pos, rpos)) \
                        and set(real_kw) == set(mod_kw) and all(eq(real_kw[k], mod_kw[k], rkw[k]) for k in real_kw)
                    if not same:
                        res.fail('mismatch', 'bound:' + name, '%s %s spelling %s: real bound %r %r, model %r %r' % (
                            name, case['labels'], tag, real_pos, real_kw, mod_pos, mod_kw), case)
        res.traces += nb
        bump('bind-comparisons', nb)
    if not replay or replay.get('kind') == 'arglist':
        import props.c12args as c12args
        c12args.run(env, res, hist)
    res.extra['histogram'] = hist
    return res


LEVEL_TEXT = ('Lean 4: call_equiv, ext_both_ways, kind_exclusive, spelling_kw_move / spelling_default_move over the model of '
              'translate_args / get_delegate for every well-formed definition (WFDef), and generated-table theorems '
              'registry_wf, alias_convention (decide +kernel over all 284 registered definitions, regenerated per run). '
              'Tie: every registered definition called through the real resolver in every spelling on typed corpus tuples '
              '(same result / error class), and map_args/get_delegate of the real definition against the model per spelling.')
LEVEL_NOTE = ('trusted: Lean kernel; Model/Types, Resolve, RegistryRow; the registry dump; the corpus. spelling_equiv is '
              'proved per parameter move; the whole-vector statement (spelling_equiv_full) is not derived.')
TECHNIQUE = 'Lean 4 proof + generated registry table (decide +kernel) + differential testing over the full registry'
DESIGN_REF = 'DESIGN.md section 5, C12'
