"""C12 - all ways of passing the same arguments are equivalent.

Generated table: `Yaql/Gen/Registry.lean` (every registered FunctionDefinition, all layers);
`Props/C12Gen.lean` re-proves `registry_wf` / `alias_convention` on it every run.

Correspondence over the FULL registry, per definition and per well-typed argument tuple drawn from a
typed corpus:
 (A) real code alone (the oracle): the call is made through name resolution in every spelling -
     all positional; every positional/keyword split (alias names); every subset of trailing defaults
     omitted; defaults given explicitly; empty slots; `call(name, args, kwargs)`; receiver form for
     methods - and must give the same finalised result or the same error class;
 (B) tie to the model: for every spelling `fd.map_args` / `fd.get_delegate` on the real definition
     against `Yaql.Resolve.mapArgs` / `getDelegate` on its encoding: same mapping, same bound vector.

The naming convention is a dimension of the sweep: worker interpreters (harness/c12_worker.py) create contexts
with CamelCaseConvention, PythonConvention and without a convention in several orders (camel first, python
first, none first, re-created) and run (A) in each of them with the keyword names THAT convention promises
(`gens.registry.promised_kw`: the rule transcribed in Python + aliases read from the source text);
`Gen/RegistryConv.lean` + `C12Gen.alias_convention_each` prove the same about the dumped tables.

`call(name, args, kwargs)`: every plain tuple also goes through `call` in several spellings, with keys added to
kwargs that are no keywords (must not change the outcome), and `Yaql.Naming` (is_keyword, filter_parameters_dict,
call_func's hand-over, convert_*_name, get_function_definition's names/aliases) is tied to the real functions."""
import datetime
import itertools
import json
import os
import re
import signal
import subprocess
import sys

import common
import pyfacts
import resolvelib as rl
import values
import yaql
from yaql.language import contexts, conventions, exceptions, expressions, factory, specs, utils, yaqltypes
from yaql.standard_library import system as std_system
import gens.registry as greg

ID = 'C12'
LEAN_MODULES = ['Yaql.Props.C12', 'Yaql.Props.C12Naming', 'Yaql.Props.C12Gen', 'Yaql.Props.C12Args', 'Yaql.Props.C12Spell']
REQUIRED_THEOREMS = ['Yaql.Props.C12.call_equiv', 'Yaql.Props.C12.ext_both_ways', 'Yaql.Props.C12.kind_exclusive',
                     'Yaql.Props.C12.spelling_kw_move', 'Yaql.Props.C12.spelling_default_move',
                     'Yaql.Props.C12.spelling_equiv', 'Yaql.Props.C12.getDelegate_eq_of_received',
                     'Yaql.Props.C12.getDelegate_clash', 'Yaql.Props.C12.spelling_equiv_unguarded_false',
                     'Yaql.Props.C12.mapArgs_of_getDelegate', 'Yaql.Props.C12.spelling_mapArgs_agree',
                     'Yaql.Props.C12.mapArgs_not_spelling_invariant', 'Yaql.Props.C12Gen.registry_star_no_default',
                     'Yaql.Props.C12.movesOk_spec', 'Yaql.Props.C12Gen.registry_wf',
                     'Yaql.Props.C12Gen.registry_moves_ok', 'Yaql.Props.C12Gen.alias_convention',
                     'Yaql.Props.C12Args.arglist_grammar', 'Yaql.Props.C12Args.arglist_only_shaped',
                     'Yaql.Props.C12Args.argsOK_iff_shape',
                     'Yaql.Props.C12Gen.alias_convention_each', 'Yaql.Props.C12Gen.keyword_names_are_keywords',
                     'Yaql.Props.C12Gen.registered_names_converted', 'Yaql.Props.C12.call_filter_nonkeywords',
                     'Yaql.Props.C12.call_resolver_input', 'Yaql.Props.C12.camel_of_python',
                     'Yaql.Props.C12.toCamel_fixed', 'Yaql.Props.C12.toCamel_idempotent',
                     'Yaql.Props.C12.call_junk_invariant', 'Yaql.Props.C12.call_nonstring_key_dropped',
                     'Yaql.Props.C12.starstar_names_verbatim', 'Yaql.Props.C12.starstar_keywords_partition',
                     'Yaql.Props.C12.starstar_all_verbatim', 'Yaql.Props.C12.starstar_delegate_verbatim',
                     'Yaql.Props.C12Spell.kwarg_name_token', 'Yaql.Props.C12Spell.spellable_sound',
                     'Yaql.Props.C12Spell.spellable_complete', 'Yaql.Props.C12Spell.keyword_names_spellable',
                     'Yaql.Props.C12Spell.seen_aliases_spellable', 'Yaql.Props.C12Spell.spellable_kinds']
TRUSTED = ['harness/gens/registry.py (the dump of the live registry; the reading of decorators from the source text with ast)',
           'the typed value corpus and the canonicalisation of results (harness/values.py)',
           'harness/c12_worker.py (contexts created in the stated order before anything else in that interpreter)']
ASSUMPTIONS = ['spelling_equiv : spelling_equiv_full (whole argument vector, get_delegate level) holds for spellings that agree on the '
               'value every named parameter ends up with, on the arguments beyond the named slots (*), on the keywords no '
               'parameter takes (**, same order), and on whether some argument is passed twice (then both are rejected); '
               'the first, unguarded wording is refuted (spelling_equiv_unguarded_false)',
               'map_args alone is not spelling-invariant (mapArgs_not_spelling_invariant; the real map_args agrees with the '
               'model): it does not check keywords taken by named parameters, and never enters an empty slot whose parameter '
               'comes by keyword. Proved instead: a vector that get_delegate binds passes map_args in every spelling without '
               'such a slot (mapArgs_of_getDelegate, spelling_mapArgs_agree; no * parameter of the registry has a default: '
               'registry_star_no_default)',
               'smart types outside the closed description (AnyOf, Chain, NotOfType, DateTime..) are encoded for the model as '
               'PythonType(object) with one synthetic validator = their real check()',
               'parser-level spellings (arglist grammar) belong to the parser group',
               'names are ASCII (the generator refuses others), so \\w / isalpha / upper of the naming model are the ASCII ones',
               'a context without a convention passes parameters under their python names as they are (doc-silent; modelled '
               'as implemented; the oracle does not test trailing-underscore names there)',
               'is_keyword is a prefix test (re.match): a key like "a b" counts as a keyword (modelled as implemented; the '
               'oracle adds only keys that are no keywords under any reading)',
               'keyword names that no named parameter takes are data: **kwargs receives them as written under every convention '
               '(starstar sweep: harness-registered kwprobe(*args, **kwargs) / kwprobe2(p_one, second=0, *args, **kwargs), let, '
               'def; a keyword equal to the PYTHON name of a declared parameter that is not its name in the context is not '
               'tried - it collides inside Python\'s own call)']


def generate():
    info = pyfacts.run(['Registry', 'RegistryConv', 'OpTables'])
    return dict(info['Registry'], conv=info['RegistryConv'], optables=info['OpTables'])


ENGINE = factory.YaqlFactory().create(options={'yaql.limitIterators': 200, 'yaql.memoryQuota': 5000000})
rl.ENGINE = ENGINE      # the helpers of resolvelib describe hidden Engine parameters against this engine


NONDETERMINISTIC = {'now', 'random', 'randomInt'}


class Timeout(Exception):
    pass


def _alarm(signum, frame):
    raise Timeout()


def expr(text):
    return ENGINE(text).expression


POOL = [
    ('none', lambda: None), ('true', lambda: True), ('0', lambda: 0), ('2', lambda: 2), ('-1', lambda: -1),
    ('1.5', lambda: 1.5), ('abc', lambda: 'abc'), ('empty-str', lambda: ''), ('a b', lambda: 'a b, c'),
    ('tuple123', lambda: (1, 2, 3)), ('tuple-str', lambda: ('b', 'a')), ('empty-tuple', lambda: ()),
    ('nested', lambda: ((1, 2), (3, 4))),
    ('dict', lambda: utils.FrozenDict({'a': 1, 'b': 2})), ('set', lambda: frozenset([1, 2])),
    ('iter', lambda: iter([3, 1, 2])),
    ('dt', lambda: datetime.datetime(2020, 1, 2, 3, 4, 5, tzinfo=datetime.timezone.utc)),
    ('td', lambda: datetime.timedelta(hours=1)),
    ('regex', lambda: re.compile('a+')), ('context', lambda: _CTX_VALUE),
    ('ordering', lambda: _ordering()), ('yaqlized', lambda: _YOBJ),
    ('e:$', lambda: expr('$')), ('e:$>1', lambda: expr('$ > 1')), ('e:$1+$2', lambda: expr('$1 + $2')),
    ('e:len', lambda: expr('len($)')), ('e:[$,$]', lambda: expr('[$, $]')),
    ('c:1', lambda: expressions.Constant(1)), ('c:a', lambda: expressions.Constant('a')),
    ('c:true', lambda: expressions.Constant(True)), ('c:null', lambda: expressions.Constant(None)),
    ('kw:foo', lambda: expressions.KeywordConstant('foo')), ('kw:len', lambda: expressions.KeywordConstant('len')),
    ('m:1=>2', lambda: expressions.MappingRuleExpression(expressions.Constant(1), expressions.Constant(2))),
]


class _Yaqlized:
    """a host object opened up by yaqlization (for #indexer / #operator_. on Yaqlized receivers)"""
    def __init__(self):
        self.foo = 5
        self.items = (1, 2)

    def __getitem__(self, k):
        return {'foo': 1, 0: 'z'}[k]


def _ordering():
    from yaql.standard_library import queries
    o = queries.OrderingIterable((3, 1, 2), lambda a, b: a < b, lambda a, b: a > b)
    o.append_field(lambda x: x, True)
    return o


try:
    from yaql.language import yaqlization as _yz
except ImportError:             # the module lives at yaql/yaqlization.py
    from yaql import yaqlization as _yz
_YOBJ = _yz.yaqlize(_Yaqlized())
_CTX_VALUE = None           # a context as a VALUE of the corpus: a child of the context under test (set by sweep_context)


def candidates(p, ctx):
    """corpus values that pass the parameter's own check.  Expression / constant objects are offered only to
    lazy and constant-typed parameters: for an eager parameter the tuple has to be valid AFTER evaluation, which
    only a plain value guarantees"""
    out = []
    special = isinstance(p.value_type, (yaqltypes.LazyParameterType, yaqltypes.Constant))
    for label, mk in POOL:
        if is_plain(label) == special:
            continue
        if label.startswith('m:') and not isinstance(p.value_type, yaqltypes.MappingRule):
            continue            # `a => b` in an argument list is a keyword argument, not a value
        try:
            v = mk()
            if p.value_type.check(v, ctx, ENGINE):
                out.append((label, mk))
        except Exception:
            pass
    return out


def materialize(v, depth=0):
    """finalised view of a result: iterators cut at 100 items, host objects by repr class"""
    if depth > 6:
        return 'deep'
    if v is None or isinstance(v, (bool, int, float)):
        return v
    if isinstance(v, str):
        return re.sub(r'0x[0-9a-f]+', '0x?', v)
    if isinstance(v, (datetime.datetime, datetime.timedelta)):
        return 'dt:' + repr(v)
    if isinstance(v, utils.MappingType):
        return utils.FrozenDict((materialize(k, depth + 1), materialize(x, depth + 1)) for k, x in v.items())
    if isinstance(v, (frozenset, set)):
        return frozenset(materialize(x, depth + 1) for x in v)
    if isinstance(v, (tuple, list)):
        return tuple(materialize(x, depth + 1) for x in v)
    if isinstance(v, utils.IterableType if hasattr(utils, 'IterableType') else ()) or hasattr(v, '__iter__'):
        return tuple(materialize(x, depth + 1) for x in itertools.islice(iter(v), 100))
    if callable(v):
        return 'callable'
    return 'obj:' + type(v).__name__


TIMEOUTS = dict(limit=1.0, base=1.0, seen=0, tuples_rerun=0, confirmed=0)


def outcome(thunk):
    signal.signal(signal.SIGALRM, _alarm)
    signal.setitimer(signal.ITIMER_REAL, TIMEOUTS['limit'])
    try:
        try:
            r = thunk()
            m = materialize(r)
        finally:
            signal.setitimer(signal.ITIMER_REAL, 0)
    except Timeout:
        TIMEOUTS['seen'] += 1
        return 'err:Timeout'
    except RecursionError:
        return 'err:RecursionError'
    except Exception as e:
        return 'err:' + type(e).__name__
    try:
        return re.sub(r'0x[0-9a-f]+', '0x?', json.dumps(values.canon(values.enc(m)), sort_keys=True))
    except Exception as e:
        return 'unencodable:' + type(e).__name__


def visible_params(fd):
    vis = [p for k, p in fd.parameters.items() if p.position is not None and k != '*' and
           not isinstance(p.value_type, yaqltypes.HiddenParameterType)]
    vis.sort(key=lambda p: p.position)
    kwonly = [p for k, p in fd.parameters.items() if p.position is None and k != '**' and
              not isinstance(p.value_type, yaqltypes.HiddenParameterType)]
    return vis, kwonly


def is_plain(label):
    return not (label.startswith('e:') or label.startswith('c:') or label.startswith('kw:') or label.startswith('m:'))


def documented_name(fd, p, conv='camel'):
    """the keyword name a context with convention `conv` promises: the alias written in the decorator's source text,
    else the convention translation of the python parameter name (camel: trailing underscores stripped,
    snake_case -> camelCase; python: trailing underscores stripped; none: the python name) - computed by the
    transcription in gens/registry.py, never read from the definition"""
    decl = greg.declared_alias(fd, p)
    if conv == 'none' and decl is None and p.name.endswith('_'):
        # doc-silent: without a convention nothing says whether `from_` is passed as `from_` (what happens: the
        # alias stays empty) or as `from` (what convert_parameter_name(name, None) would give): no promise to test
        return p.alias or p.name
    return greg.promised_kw(conv, decl, p.name)


def _default_of(p):
    """factory of the default value of `p`, recognisable as such (the text spellings cannot write every default)"""
    def f():
        return p.default
    f.default_of = p
    return f


def spellings(fd, vis, kwonly, choice, conv='camel'):
    """choice: {param name -> (label, factory) or None (= use the default)} -> [(tag, receiver_index|None,
    [factory|NO_VALUE ...], {kw: factory})]"""
    n = len(vis)
    given = [choice[p.name] is not None for p in vis]
    # trailing parameters left to their defaults can be omitted; an inner one must be an empty slot
    last = max([i for i in range(n) if given[i]], default=-1)
    kwo = {(p.alias or p.name): choice[p.name][1] for p in kwonly if choice[p.name] is not None}

    def pos_args(upto):
        return [choice[vis[i].name][1] if given[i] else utils.NO_VALUE for i in range(upto)]
    out = [('positional', None, pos_args(last + 1), dict(kwo))]
    if not fd.no_kwargs:
        for k in range(0, last + 1):
            kw = dict(kwo)
            for i in range(k, last + 1):
                if given[i]:
                    kw[vis[i].alias or vis[i].name] = choice[vis[i].name][1]
            args = pos_args(k)
            while args and args[-1] is utils.NO_VALUE:
                args.pop()
            out.append(('split@%d' % k, None, args, kw))
        # all keywords under their documented names
        kw = {documented_name(fd, p, conv): choice[p.name][1] for p in kwonly if choice[p.name] is not None}
        for i in range(last + 1):
            if given[i]:
                kw[documented_name(fd, vis[i], conv)] = choice[vis[i].name][1]
        out.append(('documented-names', None, [], kw))
    # defaults given explicitly (eager parameters): the value the parameter would get anyway
    expl = []
    for i in range(n):
        if not given[i] and not isinstance(vis[i].value_type, yaqltypes.LazyParameterType) and \
                vis[i].default is not specs.NO_DEFAULT:
            expl.append(i)
    if expl:
        upto = max(last, max(expl)) + 1
        args = []
        ok = True
        for i in range(upto):
            if given[i]:
                args.append(choice[vis[i].name][1])
            elif vis[i].default is not specs.NO_DEFAULT:
                args.append(_default_of(vis[i]))
            else:
                ok = False
        if ok:
            out.append(('explicit-defaults', None, args, dict(kwo)))
    if fd.is_method and n and given[0]:
        out.append(('method-form', 0, pos_args(last + 1)[1:], dict(kwo)))
    if not fd.is_function:
        # a method-only definition: every spelling in receiver form (the receiver is the first visible parameter)
        if not (n and given[0]):
            return []
        conv = []
        for tag, recv_i, args, kw in out:
            if recv_i is not None:
                continue
            if not args or args[0] is utils.NO_VALUE:
                continue            # the receiver cannot be passed by keyword
            conv.append((tag, 0, args[1:], kw))
        return conv
    return out


def corner_calls(fd, vis, calls, salt):
    """tie-only spellings on the edge of the guards of C12.spelling_equiv / mapArgs_of_getDelegate (model vs real
    map_args / get_delegate; never part of the oracle): an argument passed twice (slot and keyword), an empty slot
    whose parameter comes by keyword, a keyword that no parameter takes"""
    if fd.no_kwargs:
        return []
    base = next((c for c in calls if c[0] == 'positional' and c[1] is utils.NO_VALUE), None)
    if base is None:
        return []
    _, recv, objs, kwo = base
    filled = [i for i, o in enumerate(objs) if o is not utils.NO_VALUE and i < len(vis)]
    if not filled:
        return []
    out = []
    i = filled[salt % len(filled)]
    name = vis[i].alias or vis[i].name
    if name not in dict(kwo):
        out.append(('corner:twice@%d' % i, recv, list(objs), kwo + [(name, objs[i])]))
        emptied = list(objs)
        emptied[i] = utils.NO_VALUE
        out.append(('corner:empty+kw@%d' % i, recv, emptied, kwo + [(name, objs[i])]))
    out.append(('corner:junk', recv, list(objs), kwo + [('_zz', objs[filled[0]])]))
    return out


def enc_type_any(vt, ctx):
    """the closed description where possible, else PythonType(object) + one synthetic validator = the real check"""
    try:
        return rl.enc_type(vt)
    except rl.Unsupported:
        pass
    key = '_c12_validator'
    v = getattr(vt, key, None) if hasattr(vt, '__dict__') else None
    v = SYN.get(id(vt))
    if v is None:
        def v(value, vt=vt):
            return bool(vt.check(value, ctx, ENGINE))
        SYN[id(vt)] = v
        KEEP.append(vt)
    nullable = bool(vt.check(None, ctx, ENGINE))
    return dict(t='py', n=nullable, vs=[rl.T.validator(v)], one=rl.T.cls(object))


SYN = {}
KEEP = []


def enc_fd_any(fd, fid, ctx):
    ps = []
    for key, p in fd.parameters.items():
        ps.append({'key': key, 'name': p.name, 'alias': p.alias or None, 'pos': p.position,
                   'def': None if p.default is specs.NO_DEFAULT else rl.enc_arg(p.default, None),
                   'ty': enc_type_any(p.value_type, ctx)})
    return dict(id=fid, fn=bool(fd.is_function), me=bool(fd.is_method), nk=bool(fd.no_kwargs), ps=ps)


def _cells(f):
    return dict(zip(f.__code__.co_freevars, [c.cell_contents for c in (f.__closure__ or ())]))


def real_bind(fd, args, kwargs, ctx, receiver):
    """-> (mapping names | None, bound vector | None) of the REAL definition; the bound vector is read out of the
    delegate's closure (the `checked` thunks hold parameter and unconverted value)"""
    m = fd.map_args(tuple(args), dict(kwargs), ctx, ENGINE)
    mdesc = None
    if m is not None:
        mdesc = dict(pos=[p.name for p in m[0]], kwd=sorted([k, p.name] for k, p in m[1].items()))
    try:
        d = fd.get_delegate(receiver, ENGINE, ctx, tuple(args), dict(kwargs))
    except exceptions.ArgumentException:
        return mdesc, None
    c = _cells(d)
    pos = []
    for f in c['positional_args']:
        cc = _cells(f)
        pos.append((cc['param'], cc['val']))
    kw = {}
    for k, f in c['keyword_args'].items():
        cc = _cells(f)
        kw[k] = (cc['param'], cc['val'])
    return mdesc, (pos, kw)


def index_of(v, objs):
    for i, o in enumerate(objs):
        if o is v:
            return i
    return None


def describe_real(param, v, objs):
    if isinstance(param.value_type, yaqltypes.HiddenParameterType):
        return ['hid']
    if v is utils.NO_VALUE:
        return ['nv']
    i = index_of(v, objs)
    if i is not None:
        if isinstance(v, expressions.Constant) and v.value is None:     # the model cannot tell two Constant(None) apart
            i = min(j for j, o in enumerate(objs) if isinstance(o, expressions.Constant) and o.value is None)
        return ['arg', i]
    if v is None:
        return ['none']
    return ['other']


def describe_model(s, objs, tags, probes):
    if s is None:
        return ['unset']
    k = s.get('k')
    if k == 'hid':
        return ['hid']
    if k == 'nv':
        return ['nv']
    if k == 'e':
        return ['arg', probes[s['probe']]]
    if k == 'm':
        for i, o in enumerate(objs):
            if isinstance(o, expressions.MappingRuleExpression):
                return ['arg', i]
        return ['other']
    v = s.get('v')
    if k == 'c':
        # a Constant object: identified by the tag planted on its value
        t = s.get('v') and s['v'].get('t')
        if t in tags:
            return ['arg', tags[t]]
        for i, o in enumerate(objs):
            if isinstance(o, expressions.Constant) and o.value is None and v is None:
                return ['arg', i]
        return ['other']
    if v is None:
        for i, o in enumerate(objs):
            if o is None:
                return ['arg', i]
        return ['none']
    if v['t'] in tags:
        return ['arg', tags[v['t']]]
    return ['other']


class Sink:
    """where a sweep reports to: a common.Result (main interpreter) or plain lists (worker)"""

    def __init__(self, res=None):
        self.res = res
        self.hist = {}
        self.cases = []
        self.fails = []
        self.per_key = {}
        self.ties = []

    def bump(self, k, n=1):
        self.hist[k] = self.hist.get(k, 0) + n

    def case(self, sig, nontrivial, sample=None):
        if self.res is not None:
            self.res.case(sig, nontrivial, sample=sample if self.res.evaluations < 3 else None)
        else:
            self.cases.append([sig, bool(nontrivial)])

    def fail(self, kind, key, what, replay):
        self.per_key[key] = self.per_key.get(key, 0) + 1
        if self.per_key[key] > 3:           # the same finding over and over must not crowd out the others
            return
        if self.res is not None:
            self.res.fail(kind, key, what, replay)
        else:
            self.fails.append([kind, key, what, replay])


# keys of a kwargs dict that are no keywords under ANY reading (not an identifier, or a dunder name): call() has to
# behave as if they were not there
JUNK_STR = ['', '__x', '__', '__init__', '1a', '0', ' a', '-x', '=>', '#len', '$', '.', '\n', '1_000']
# not even strings (dropped like the others since d6863d4; before, is_keyword raised TypeError on them)
JUNK_OTHER = [('int', lambda: 1), ('none', lambda: None), ('true', lambda: True), ('tuple', lambda: (1, 2)),
              ('float', lambda: 1.5)]
# names that ARE keywords: a function with **kwargs must see them through call() as it sees them directly
EXTRA_KW = ['_x', 'x1', 'X', 'a_b_', 'zzTop', 'x__y']

NOT_RESOLVED = ('err:NoMatchingFunctionException', 'err:NoMatchingMethodException', 'err:AmbiguousFunctionException',
                'err:NoFunctionRegisteredException', 'err:NoMethodRegisteredException', 'err:AmbiguousMethodException')


def junk_sets(rng, kwnames):
    """-> [(tag, [(key factory label, key)] to put first, same to put last)]: string keys that are no keywords,
    some derived from the real keyword names of the call"""
    derived = ['__' + k for k in kwnames[:2]] + ['1' + k for k in kwnames[:1]] + [' ' + k for k in kwnames[:1]]
    pool = JUNK_STR + derived
    out = []
    k = rng.choice(pool)
    out.append(('junk-first', [k], []))
    k = rng.choice(pool)
    out.append(('junk-last', [], [k]))
    ks = rng.sample(pool, min(len(pool), rng.randrange(2, 5)))
    if rng.random() < 0.3:              # keys that are not even strings, among the others
        ks.insert(rng.randrange(len(ks) + 1), rng.choice(JUNK_OTHER)[1])
    cut = rng.randrange(len(ks) + 1)
    out.append(('junk-many', ks[:cut], ks[cut:]))
    return out

# ---- spellings WRITTEN AS EXPRESSION TEXT ---------------------------------------------------------------------------
# "by keyword (using the convention-translated parameter names)" is something a user TYPES: `f(x, name => y)`.  The
# delegates above never meet the lexer / the grammar; a parameter whose promised name cannot be written (an operator
# word such as `mod`, `in`, `not`; `true`; a name the grammar takes for something else) is only seen when the spelling
# goes through the parser.  Plain values are bound to variables `$v0, $v1 ..` of a child context (so any corpus value
# can be an argument); lazy / constant-typed arguments are written as the expression / literal they are.

IDENT = re.compile(r'^[^\W\d]\w*$')
_TEXT_OF = {'c:1': '1', 'c:a': "'a'", 'c:true': 'true', 'c:null': 'null', 'm:1=>2': '1 => 2'}


def text_spelling(name, recv_i, argf, kwf, recv_mk, lab_of):
    """-> (expression text, {variable: factory}) of one spelling of `spellings()`"""
    binds = {}

    for a in argf:
        p = getattr(a, 'default_of', None)
        if p is not None and (p.default is utils.NO_VALUE or isinstance(p.value_type, yaqltypes.LazyParameterType)):
            return None, None       # a default that is no value an expression can denote (the marker / a lazy slot)

    def t(mk, head=False):
        lab = lab_of.get(id(mk))
        if lab is not None and not is_plain(lab):
            txt = _TEXT_OF.get(lab) or lab.split(':', 1)[1]
            return '(%s)' % txt if head else txt
        v = '$v%d' % len(binds)
        binds[v] = mk
        return v
    head = name + '(' if recv_i is None else t(recv_mk, True) + '.' + name + '('
    parts = ['' if a is utils.NO_VALUE else t(a) for a in argf]
    parts += ['%s => %s' % (k, t(f)) for k, f in kwf.items()]
    return head + ', '.join(parts) + ')', binds


def text_call_spelling(name, argf, kwf, lab_of):
    """the same spelling through call(name, [args], {kwargs}), written as text"""
    binds = {}

    def t(mk):
        v = '$v%d' % len(binds)
        binds[v] = mk
        return v
    return "call('%s', [%s], {%s})" % (name, ', '.join(t(a) for a in argf),
                                       ', '.join('%s => %s' % (k, t(f)) for k, f in kwf.items())), binds


# A parsed statement is reusable (C09) and the arguments of the text spellings are the variables $v0.. - so ONE statement per
# text serves every tuple, every overload of the name and every context of the process: the same call node meets receivers and
# arguments of changing types.  What a node remembers of an earlier evaluation (an overload, a mapping, a laziness
# decision) then shows up as a spelling that answers differently from the others.  `_REUSE_HIST` keeps, per text, the
# (definition, tuple) pairs it was evaluated for, so that a replay can rebuild the history.
_STATEMENTS = {}
_REUSE_HIST = {}


def eval_text(text, binds, ctx, who=None):
    def thunk():
        c2 = ctx.create_child_context()
        for v, mk in binds.items():
            c2[v] = mk()
        st = _STATEMENTS.get(text)
        if st is None:
            st = _STATEMENTS[text] = ENGINE(text)
        return st.evaluate(context=c2)
    try:
        return outcome(thunk)
    finally:
        if who is not None:
            h = _REUSE_HIST.setdefault(text, [])
            if who not in h:
                h.append(who)
                del h[:-8]


def reuse_prev(texts, who):
    """the earlier (definition, tuple) pairs the statements of `texts` were evaluated for, oldest first"""
    out = []
    for t in texts:
        for w in _REUSE_HIST.get(t, []):
            if w != who and w not in out:
                out.append(w)
    return [list(w) for w in out]


def sweep_context(conv, root, rng, per_fd, sink, replay=None, model_reqs=None, where=None, call_budget=3, focus=(),
                  text_tuples=40, rbase=None):
    """(A) over every definition of the context `root`, whose naming convention is `conv`"""
    global _CTX_VALUE
    defs = greg.all_definitions(root)
    ctx = root.create_child_context()
    ctx['$'] = (1, 2, 3)
    _CTX_VALUE = root.create_child_context()
    bump = sink.bump
    names_count = {}
    for _, n2, _ in defs:
        names_count[n2] = names_count.get(n2, 0) + 1
    rbase = rng.random() if rbase is None else rbase
    for di, (li, name, fd) in enumerate(defs):
        if replay and replay.get('def') != di and not any(w[0] == di for w in replay.get('reuse_prev', [])):
            continue
        rng = common.make_rng(rbase, 'def/%d' % di)       # per definition, so that a replay draws the same tuples
        if fd.payload.__name__ in ('now', 'random', 'random__', 'random_', 'random_int') or name in NONDETERMINISTIC:
            bump('skipped-nondeterministic')
            continue
        vis, kwonly = visible_params(fd)
        cands = {p.name: candidates(p, ctx) for p in vis + kwonly}
        bump('definitions')
        if any(not cands[p.name] and p.default is specs.NO_DEFAULT for p in vis + kwonly):
            bump('no-corpus-value')
            continue
        tuples = set()
        for _ in range(per_fd * 3):
            ch = []
            for p in vis + kwonly:
                if p.default is not specs.NO_DEFAULT and (not cands[p.name] or rng.random() < 0.4):
                    ch.append(None)
                else:
                    ch.append(rng.randrange(len(cands[p.name])))
            tuples.add(tuple(ch))
            if len(tuples) >= per_fd:
                break
        if name in focus and all(cands[p.name] for p in vis + kwonly):
            # the translator flagged a parameter name of this function: make sure every parameter is given in some tuples
            bump('focus-definitions')
            for _ in range(6):
                tuples.add(tuple(rng.randrange(len(cands[p.name])) for p in vis + kwonly))
        for ti, ch in enumerate(sorted(tuples, key=repr)):
            if replay and not (replay.get('def') == di and list(ch) == replay['choice']) and \
                    [di, list(ch)] not in replay.get('reuse_prev', []):
                continue
            crng = common.make_rng(rbase, 'case/%d/%r' % (di, ch))
            pending = []
            seen_before = TIMEOUTS['seen']

            def report(kind, key, what, rp, pending=pending):
                pending.append((kind, key, what, rp))
            choice = {p.name: (None if c is None else cands[p.name][c]) for p, c in zip(vis + kwonly, ch)}
            labels = {p.name: (None if c is None else cands[p.name][c][0]) for p, c in zip(vis + kwonly, ch)}
            sp = spellings(fd, vis, kwonly, choice, conv)
            if not sp:
                continue
            case = dict(**{'def': di}, name=name, choice=list(ch), labels=labels,
                        params=[p.name for p in vis + kwonly], conv=conv)
            if where:
                case.update(where)
            only_fd = (lambda f, c, fd=fd: f is fd)
            outs = []       # through the real resolver, overloads restricted to THIS definition
            outs_u = []     # the same through plain name resolution (all overloads of the name)
            for tag, recv_i, argf, kwf in sp:
                if outs and outs[0][1] == 'err:Timeout':
                    break                   # a non-terminating tuple: one spelling is enough to find that out

                def thunk(flt, recv_i=recv_i, argf=argf, kwf=kwf):
                    args = [a if a is utils.NO_VALUE else a() for a in argf]
                    kw = {k: f() for k, f in kwf.items()}
                    recv = choice[vis[0].name][1]() if recv_i is not None else utils.NO_VALUE
                    return ctx(name, ENGINE, recv, function_filter=flt)(*args, **kw)
                outs.append((tag, outcome(lambda: thunk(only_fd))))
                outs_u.append((tag, outcome(lambda: thunk(None))))
            # the same spellings WRITTEN AS TEXT and parsed (plain name resolution): every one that can be written must give
            # what the positional text spelling gives
            text_outs = []
            if IDENT.match(name) and outs and outs[0][1] != 'err:Timeout' and (ti < text_tuples or name in focus or replay):
                lab_of = {id(c[1]): c[0] for c in choice.values() if c is not None}
                recv_mk = choice[vis[0].name][1] if vis and choice[vis[0].name] is not None else None
                for tag, recv_i, argf, kwf in sp:
                    txt, binds = text_spelling(name, recv_i, argf, kwf, recv_mk, lab_of)
                    if txt is None:
                        continue
                    text_outs.append((tag, txt, eval_text(txt, binds, ctx, (di, list(ch))), argf, kwf))
                    bump('text-spelling:' + tag.split('@')[0])
            base = outs[0][1]
            # call(name, args, kwargs): only plain values can go through a list / dict.  It resolves by name, so each
            # spelling is compared with the SAME spelling made directly through name resolution (outs_u)
            plain = all(l is None or is_plain(l) for l in labels.values()) and fd.is_function and base != 'err:Timeout'
            call_fail = []
            if plain:
                usable = [i for i, (tag, recv_i, argf, kwf) in enumerate(sp)
                          if recv_i is None and all(a is not utils.NO_VALUE for a in argf) and i < len(outs_u)]
                picked = usable[:1] + crng.sample(usable[1:], min(len(usable) - 1, call_budget - 1)) if usable else []
                for i in picked:
                    tag, _, argf, kwf = sp[i]
                    direct = outs_u[i][1]
                    variants = [('call()', [], [])]
                    variants += junk_sets(crng, list(kwf))[:call_budget]
                    if crng.random() < 0.5:
                        lab, mk = crng.choice(JUNK_OTHER)
                        variants.append(('nonstring:' + lab, [mk], []))
                    for vtag, first, lastk in variants:
                        def thunk2(argf=argf, kwf=kwf, first=first, lastk=lastk):
                            args = tuple(a() for a in argf)
                            d = {}
                            for k in first:
                                d[k() if callable(k) else k] = 0
                            for k, f in kwf.items():
                                d[k] = f()
                            for k in lastk:
                                d[k() if callable(k) else k] = 0
                            return ctx('call', ENGINE)(name, args, utils.FrozenDict(d))
                        o = outcome(thunk2)
                        stag = '%s/%s' % (tag, vtag)
                        outs.append((stag, direct))     # counted as a spelling; compared below against `direct`
                        bump('call:' + vtag.split(':')[0])
                        if o != direct:
                            call_fail.append((stag, vtag, direct, o, [k if not callable(k) else '<%r>' % (k(),) for k in first + lastk]))
                # a function with **kwargs: extra keywords arrive through call() as they arrive directly
                if '**' in fd.parameters and not fd.no_kwargs and usable:
                    tag, _, argf, kwf = sp[usable[0]]
                    for extra in ([EXTRA_KW[:3], EXTRA_KW[3:]] + [crng.sample(EXTRA_KW, 2) for _ in range(2)]):
                        def args_kw(argf=argf, kwf=kwf, extra=extra):
                            kw = {k: f() for k, f in kwf.items()}
                            kw.update({k: 7 for k in extra if k not in kw})
                            return tuple(a() for a in argf), kw

                        def direct_ss():
                            a, kw = args_kw()
                            return ctx(name, ENGINE)(*a, **kw)

                        def call_ss():
                            a, kw = args_kw()
                            return ctx('call', ENGINE)(name, a, utils.FrozenDict(kw))
                        d1, o = outcome(direct_ss), outcome(call_ss)
                        bump('call:starstar-extra')
                        outs.append(('starstar/call()', d1))
                        if o != d1:
                            call_fail.append(('starstar/call()', 'extra-keywords', d1, o, extra))
            resolved = base not in NOT_RESOLVED
            bump('tuples')
            bump('spellings', len(outs))
            for tag, o in outs:
                bump('spelling:' + ('call()' if '/' in tag else tag.split('@')[0]))
            bump('result:' + ('error' if base.startswith('err:') else 'value'))
            sink.case(common.digest(case), resolved and len(outs) >= 2, sample=case)
            for stag, vtag, direct, o, keys in call_fail:
                nonstring = vtag.startswith('nonstring:')
                report('oracle', 'call-nonstring-key:' + name if nonstring else 'call:' + name,
                          '[%s context] %s %r spelling %s: made directly -> %s but call(%s, args, kwargs%s) -> %s' % (
                              conv, name, labels, stag.split('/')[0], direct[:100], name,
                              ' + keys %r that are no keywords' % (keys,) if keys else '', o[:100]),
                          dict(case, call=stag, keys=[repr(k) for k in keys]))
            if resolved:
                diff = [(t, o) for t, o in outs if o != base and '/' not in t]
                if diff:
                    kws = next((sorted(kwf) for tag, _, _, kwf in sp if tag == diff[0][0]), [])
                    report('oracle', 'spelling:' + name,
                              '[%s context%s] %s %r: positional -> %s but %s (keywords %s) -> %s' % (
                                  conv, ' #%d of %s' % (where['ctx_index'], '>'.join(where['order'])) if where else '',
                                  name, labels, base[:120], diff[0][0], ', '.join(kws), diff[0][1][:120]), case)
                elif outs_u[0][1] == base:
                    # plain name resolution picks this definition positionally; a keyword spelling that then is
                    # AMBIGUOUS (not: answered by another overload that owns these names) contradicts the statement
                    amb = [(t, o) for t, o in outs_u if o.startswith('err:Ambiguous')]
                    if amb:
                        report('oracle', 'kw-ambiguous:' + name,
                                  '[%s context] %s %r: positional -> %s but by keyword (%s) -> %s' % (
                                      conv, name, labels, base[:80], amb[0][0], amb[0][1]), case)
                    else:
                        # ... and every other spelling through plain name resolution (all overloads of the name
                        # compete, the arguments are run-time values) must give what the positional one gives
                        du = [(t, o) for t, o in outs_u if o != base]
                        bump('name-resolution-spellings', len(outs_u))
                        if du:
                            kws = next((sorted(kwf) for tag, _, _, kwf in sp if tag == du[0][0]), [])
                            report('oracle', 'spelling-overloaded:' + name,
                                      '[%s context] %s %r through name resolution (all overloads of the name): positional '
                                      '-> %s but %s (keywords %s) -> %s' % (conv, name, labels, base[:120], du[0][0],
                                                                            ', '.join(kws), du[0][1][:120]), case)
            if text_outs and text_outs[0][2] not in NOT_RESOLVED and not text_outs[0][2].startswith('err:Yaql'):
                tbase = text_outs[0]
                bump('text-tuples')
                tdiff = [t for t in text_outs if t[2] != tbase[2]]
                if plain and fd.is_function and names_count.get(name) == 1:
                    # call() written as text, for one keyword spelling of the tuple (kwargs keys are bare words there too)
                    cand = [t for t in text_outs if t[4] and all(a is not utils.NO_VALUE for a in t[3]) and
                            not t[0].startswith('method')]
                    if cand:
                        t = crng.choice(cand)
                        txt, binds = text_call_spelling(name, t[3], t[4], None)
                        o = eval_text(txt, binds, ctx, (di, list(ch)))
                        bump('text-spelling:call()')
                        if o != tbase[2]:
                            tdiff.append((t[0] + '/call()', txt, o, t[3], t[4]))
                if tdiff:
                    d = tdiff[0]
                    report('oracle', 'text-spelling:' + name,
                              '[%s context%s] %s %r written as text: `%s` -> %s but `%s` -> %s' % (
                                  conv, ' #%d of %s' % (where['ctx_index'], '>'.join(where['order'])) if where else '',
                                  name, labels, tbase[1], tbase[2][:100], d[1], d[2][:100]),
                              dict(case, text=d[1], text_base=tbase[1], reuse_prev=reuse_prev([tbase[1], d[1]], (di, list(ch)))))
            if pending and TIMEOUTS['seen'] > seen_before and TIMEOUTS['limit'] < 5.0:
                # a spelling of this tuple ran into the wall-clock limit: on a loaded machine a stalled process looks like a
                # call that does not terminate.  The whole tuple once more with a generous limit; what it reports counts
                TIMEOUTS['tuples_rerun'] += 1
                TIMEOUTS['limit'] = 8.0
                try:
                    again = Sink()
                    sweep_context(conv, root, None, per_fd, again, replay=dict(case, **{'def': di, 'choice': list(ch)}),
                                  where=where, call_budget=call_budget, focus=focus, text_tuples=text_tuples, rbase=rbase)
                finally:
                    TIMEOUTS['limit'] = TIMEOUTS['base']
                pending[:] = [tuple(f) for f in again.fails]
                TIMEOUTS['confirmed'] += 1 if pending else 0
            for f in pending:
                sink.fail(*f)
            # (B) the model on the same spellings, against the real definition's own binding
            if model_reqs is not None:
                calls = []
                for tag, recv_i, argf, kwf in sp:
                    objs = [a if a is utils.NO_VALUE else a() for a in argf]
                    kwo = [(k, f()) for k, f in kwf.items()]
                    recv = utils.NO_VALUE
                    if recv_i is not None:
                        recv = choice[vis[0].name][1]()
                        objs = [recv] + objs
                    calls.append((tag, recv, objs, kwo))
                calls += corner_calls(fd, vis, calls, di + len(calls))
                model_reqs.append((di, name, fd, case, calls, ctx))
    if not replay:
        starstar_sweep(conv, root, common.make_rng(rbase, 'starstar'), 8 * per_fd if where is None else 12 * per_fd, sink, where)


# ---- keyword names that bind to **kwargs are DATA -----------------------------------------------------------------

# names a naming convention would rewrite (snake_case, trailing underscores), next to the names they would be rewritten
# into, names that differ by case only, python names / aliases of the probe's own parameters, names of hidden parameters
SS_POOL = ['my_var', 'myVar', 'x1', 'x_1', 'a_', 'a', 'a__b', 'a_b', 'aB', 'ab', '_x', 'x', 'X', 'x_', 'k_v', 'kV', 'my_var_',
           'it_em', 'itEm', '_', 'a_1', 'a1', 'key_selector', 'keySelector', 'len', 'args', 'kwargs', 'context', 'engine',
           'receiver', 'p_one', 'pOne', 'p_one_', 'POne', 'second', 'second_', 'Second', 'default', 'default_', 'some_arg']


def kwprobe(*args, **kwargs):
    """a host function that shows what it receives"""
    return ('kwprobe', tuple(args), utils.FrozenDict(kwargs))


def kwprobe2(p_one, second=0, *args, **kwargs):
    return ('kwprobe2', p_one, second, tuple(args), utils.FrozenDict(kwargs))


def _ss_names(rng):
    import evalgen
    names = []
    base = rng.choice(SS_POOL)
    names.append(base)
    rel = evalgen.relatives(base)
    if rel and rng.random() < 0.65:
        names.append(rng.choice(rel))
    for _ in range(rng.choice((0, 0, 1, 2))):
        n = rng.choice(SS_POOL)
        if n not in names:
            names.append(n)
    rng.shuffle(names)
    reads = list(names)
    for n in names:
        for r in rng.sample(evalgen.relatives(n), min(2, len(evalgen.relatives(n)))):
            if r not in reads:
                reads.append(r)
    return names, reads


def _lit(v):
    return repr(v) if not isinstance(v, str) else "'%s'" % v


def starstar_sweep(conv, root, rng, n_cases, sink, where=None):
    """every way of handing the same keywords to a function that collects them in **kwargs - written in the expression
    (`f(.., name => v)`), through `call(f, [..], {name => v})`, as Python keywords of the delegate - gives the function
    the SAME names, and these are the names as written (whatever the naming convention of the context)"""
    ctx = root.create_child_context()
    ctx.register_function(kwprobe)
    ctx.register_function(kwprobe2)
    a_one, a_two = greg.promised_kw(conv, None, 'p_one'), greg.promised_kw(conv, None, 'second')
    bump = sink.bump

    def text(t):
        return lambda: ENGINE(t).evaluate(context=ctx.create_child_context())

    for ci in range(n_cases):
        crng = common.make_rng(rng.random(), 'ss/%d' % ci)
        names, reads = _ss_names(crng)
        vals = {n: 10 + i for i, n in enumerate(names)}
        npos = crng.choice((0, 1, 1, 2, 3))
        pos = [100 + i for i in range(npos)]
        kind = crng.choice(('kwprobe', 'kwprobe', 'kwprobe2', 'let', 'def'))
        if kind == 'kwprobe2':
            for forced, p in ((a_one, 0.6), (a_two, 0.3)):
                if crng.random() < p and forced not in names:
                    names.insert(crng.randrange(len(names) + 1), forced)
                    vals[forced] = 50 + len(names)
            # a keyword that is the PYTHON name of a declared parameter without being its name in this context would
            # collide inside Python's own call (TypeError: multiple values); nothing is promised about it
            names = [n for n in names if n not in ('p_one', 'second') or n in (a_one, a_two)]
            if not names:
                continue
        kws = ', '.join('%s => %d' % (n, vals[n]) for n in names)
        args_t = ', '.join(str(p) for p in pos)
        sep = ', ' if pos and names else ''
        rd = '[%s]' % ', '.join(['$1', '$2'] + ['$' + r for r in reads])
        spell = []
        expected = None
        if kind in ('kwprobe', 'kwprobe2'):
            spell.append(('written', text('%s(%s%s%s)' % (kind, args_t, sep, kws))))
            spell.append(('call()', text('call(%s, [%s], {%s})' % (kind, args_t, kws))))
            spell.append(('delegate', lambda: ctx(kind, ENGINE)(*pos, **{n: vals[n] for n in names})))
            spell.append(('call-delegate', lambda: ctx('call', ENGINE)(kind, tuple(pos), utils.FrozenDict(
                (n, vals[n]) for n in names))))
            if kind == 'kwprobe':
                expected = ('kwprobe', tuple(pos), utils.FrozenDict((n, vals[n]) for n in names))
            else:
                kw = {n: vals[n] for n in names}
                ok = True
                if pos:
                    one = pos[0]
                    ok = a_one not in kw
                elif a_one in kw:
                    one = kw.pop(a_one)
                else:
                    ok = False
                if len(pos) > 1:
                    two = pos[1]
                    ok = ok and a_two not in kw
                else:
                    two = kw.pop(a_two, 0)
                if ok:
                    expected = ('kwprobe2', one, two, tuple(pos[2:]), utils.FrozenDict(kw))
        elif kind == 'let':
            spell.append(('written', text('let(%s%s%s) -> %s' % (args_t, sep, kws, rd))))
            spell.append(('call()', text('call(let, [%s], {%s}) -> %s' % (args_t, kws, rd))))
            spell.append(('delegate', lambda: ENGINE(rd).evaluate(context=ctx('let', ENGINE)(
                *pos, **{n: vals[n] for n in names}))))
            expected = tuple((pos + [None, None])[:2]) + tuple(vals.get(r) for r in reads)
        else:
            fn = crng.choice(('probeFn', 'pf1', 'P'))      # (names def() itself mangles are C04's business)
            df = 'def(%s, %s) -> ' % (fn, rd)
            spell.append(('written', text('%s%s(%s%s%s)' % (df, fn, args_t, sep, kws))))
            spell.append(('call()', text('%scall(%s, [%s], {%s})' % (df, fn, args_t, kws))))
            expected = tuple((pos + [None, None])[:2]) + tuple(vals.get(r) for r in reads)
        outs = [(tag, outcome(th)) for tag, th in spell]
        case = dict(starstar=kind, conv=conv, names=names, reads=reads, pos=pos)
        if where:
            case.update(where)
        bump('starstar:' + kind)
        bump('starstar-spellings', len(outs))
        for n in names:
            for cls in _name_classes(n):
                bump('starstar-name:' + cls)
        sink.case(common.digest(case), len(outs) >= 2)
        loc = '[%s context%s]' % (conv, ' #%d of %s' % (where['ctx_index'], '>'.join(where['order'])) if where else '')
        written = outs[0][1]
        shown = '%s with keywords %s%s' % (kind, kws, ' after %d positional' % npos if npos else '')
        if expected is not None:
            exp = outcome(lambda: expected)
            if written != exp:
                sink.fail('oracle', 'starstar-verbatim:' + kind,
                          '%s %s written in the expression: the function receives %s, the names as written are %s' % (
                              loc, shown, pretty(written), pretty(exp)), case)
        elif not written.startswith('err:'):
            sink.fail('oracle', 'starstar-verbatim:' + kind, '%s %s: a required parameter is missing or passed twice, yet '
                      'the call returns %s' % (loc, shown, pretty(written)), case)
        diff = [(t, o) for t, o in outs[1:] if o != written]
        if diff:
            sink.fail('oracle', 'starstar-spelling:' + kind,
                      '%s %s: written in the expression -> %s but through %s -> %s' % (
                          loc, shown, pretty(written), diff[0][0], pretty(diff[0][1])), case)
        if kind == 'kwprobe2' and not written.startswith('err:') and not written.startswith('unencodable'):
            # tie to Yaql.Naming.splitKeywords: which keywords the named parameters take, which go to **kwargs
            try:
                got = json.loads(written)
                sink.ties.append(dict(c=conv, decl=[['p_one', None], ['second', None]], kw=names, npos=npos,
                                      real=sorted(_dict_keys(got))))
            except Exception:
                pass


def pretty(o):
    """an outcome string in readable form"""
    if o.startswith('err:') or o.startswith('unencodable'):
        return o

    def dec(j):
        if isinstance(j, dict) and len(j) == 1:
            (k, x), = j.items()
            if k == 's':
                return x if isinstance(x, str) else ''.join(chr(c) for c in x)
            if k == 'i':
                return int(x)
            if k in ('tu', 'li', 'it', 'se'):
                return [dec(t) for t in x]
            if k == 'd':
                return {repr(dec(a)) if not isinstance(dec(a), str) else dec(a): dec(b) for a, b in x}
        return j
    try:
        return json.dumps(dec(json.loads(o)))[:240]
    except Exception:
        return o[:240]


def _dict_keys(canon_json):
    """the keys of the LAST dict inside the canonical encoding of kwprobe2's result"""
    found = []

    def walk(j):
        if isinstance(j, dict):
            if 'd' in j:
                found.append([_str_of(k) for k, _ in j['d']])
            for v in j.values():
                walk(v)
        elif isinstance(j, list):
            for v in j:
                walk(v)
    walk(canon_json)
    return found[-1] if found else []


def _str_of(j):
    if isinstance(j, dict) and 's' in j:
        x = j['s']
        return x if isinstance(x, str) else ''.join(chr(c) for c in x)
    return repr(j)


def _name_classes(n):
    out = []
    core = n.rstrip('_')
    if core != n:
        out.append('trailing-underscore')
    if n.startswith('_'):
        out.append('leading-underscore')
    if re.search(r'(?!^)_\w', core):
        out.append('inner-underscore')
    if any(c.isupper() for c in n):
        out.append('upper-case')
    if any(c.isdigit() for c in n):
        out.append('digit')
    return out or ['plain']


def split_ties(drv, sink):
    """(T5) Yaql.Naming.splitKeywords against what the host function kwprobe2 received in **kwargs"""
    items = [t for t in sink.ties if t['npos'] == 0] 
    if not items or drv is None:
        return 0
    out = drv.ask(dict(p='C12', op='split', items=[dict(c=t['c'], decl=t['decl'], kw=t['kw']) for t in items]))['out']
    for t, m in zip(items, out):
        model = sorted(k for k, _ in m['starstar'])
        if model != t['real']:
            sink.fail('mismatch', 'naming:splitKeywords', '[%s context] kwprobe2(%s): **kwargs received %r, the model hands over %r'
                      % (t['c'], ', '.join(t['kw']), t['real'], model), dict(t))
    sink.bump('tie:split-keywords', len(items))
    return len(items)


# ---- worker interpreters: one per creation order ---------------------------------------------------------------

ORDERS_QUICK = (('camel', 'python', 'none', 'camel', 'python'),
                ('python', 'camel', 'none', 'python'),
                ('none', 'python', 'camel', 'none'))
ORDERS_THOROUGH = ORDERS_QUICK + (('python', 'none', 'camel', 'python', 'camel'), ('none', 'camel', 'python'),
                                  ('camel', 'none', 'python', 'camel'))
WORKER = os.path.join(os.path.dirname(os.path.dirname(os.path.abspath(__file__))), 'c12_worker.py')


def start_worker(order, seed, per_fd, replay=None, focus=()):
    p = subprocess.Popen([sys.executable, '-W', 'ignore', WORKER], stdin=subprocess.PIPE, stdout=subprocess.PIPE,
                         stderr=subprocess.PIPE, cwd='/tmp')
    p.stdin.write(json.dumps(dict(order=list(order), seed=seed, per_fd=per_fd, replay=replay, focus=sorted(focus))).encode())
    p.stdin.close()
    p.stdin = None
    return p


def worker_main(req, ctxs):
    """runs in harness/c12_worker.py, which has created `ctxs` (one per entry of req['order'], in this order) BEFORE
    this module - and with it any other context - was imported"""
    sink = Sink()
    order = req['order']
    rp = req.get('replay')
    for i, (conv, root) in enumerate(zip(order, ctxs)):
        if rp and rp['ctx_index'] != i:
            continue
        rng = common.make_rng(req['seed'], 'C12/%s/%d' % ('>'.join(order), i))
        before = dict(sink.hist)
        sweep_context(conv, root, rng, req['per_fd'], sink, replay=rp, where=dict(order=order, ctx_index=i), call_budget=2,
                      focus=set(req.get('focus') or ()))
        sink.bump('context:%s' % conv)
        sink.bump('tuples:%s#%d-of-%s' % (conv, i, '>'.join(o[0] for o in order)),
                  sink.hist.get('tuples', 0) - before.get('tuples', 0))
    for k in ('seen', 'tuples_rerun', 'confirmed'):
        sink.bump('timeouts-' + k, TIMEOUTS[k])
    return dict(hist=sink.hist, cases=sink.cases, fails=sink.fails, ties=sink.ties)


def collect_worker(order, p, sink, res, timeout):
    try:
        out, err = p.communicate(timeout=timeout)
    except subprocess.TimeoutExpired:
        p.kill()
        raise RuntimeError('C12 worker %r timed out' % (order,))
    if p.returncode != 0:
        raise RuntimeError('C12 worker %r failed: %s' % (order, err.decode()[-600:]))
    r = json.loads(out.decode())
    for k, n in r['hist'].items():
        sink.bump('conv/' + k, n)
    for sig, nt in r['cases']:
        res.case(sig, nt)
    for kind, key, what, rp in r['fails']:
        sink.fail(kind, key, what, rp)
    sink.ties += r.get('ties', [])


# ---- ties of Yaql.Naming to the real naming / filtering functions --------------------------------------------------

def _conv_obj(c):
    return {'camel': conventions.CamelCaseConvention, 'python': conventions.PythonConvention}[c]() if c != 'none' else None


def gen_name(rng):
    parts = []
    for _ in range(rng.randrange(0, 4)):
        parts.append(rng.choice(['a', 'b', 'key', 'X', 'sel', '1', 'z9', '', 'Q']))
    s = rng.choice(['', '', '', '_', '__', '#', '#operator_', '#property#', '*', '1', '-'])
    s += rng.choice(['_', '__', '_', '_', '-', '#'] if rng.random() < 0.25 else ['_']).join(parts)
    s += rng.choice(['', '', '_', '__', '#', ' '])
    return s


def gen_key(rng):
    if rng.random() < 0.5:
        return rng.choice(JUNK_STR + EXTRA_KW + ['a', 'a b', 'a-b', '_', '_1', 'x', 'len', 'sequence', 'A.b', 'q\t'])
    return ''.join(rng.choice('ab_19 -#.$Z') for _ in range(rng.randrange(0, 5)))


class _Rec:
    """stands in for the context in call_func(context, ..): records what is handed to the resolver"""

    def __call__(self, name, engine, receiver=utils.NO_VALUE):
        def f(*a, **k):
            self.got = (a, k)
        return f


def naming_ties(drv, rng, sink, n, defs):
    names = set()
    for _, name, fd in defs:
        names.add(name)
        names.add(fd.payload.__name__)
        names.update(p.name for p in fd.parameters.values())
    names = sorted(names) + [gen_name(rng) for _ in range(n)]
    names = [x for x in names if all(32 <= ord(ch) < 127 for ch in x)]
    # (T1) convert_parameter_name / convert_function_name under each convention, fresh convention objects
    items, real = [], []
    for nm in names:
        for c in greg.CONVS:
            for k, f in (('p', specs.convert_parameter_name), ('f', specs.convert_function_name)):
                items.append(dict(c=c, k=k, n=nm))
                try:
                    real.append(f(nm, _conv_obj(c)))
                except IndexError:
                    real.append({'err': 'IndexError'})
    out = drv.ask(dict(p='C12', op='conv', items=items))['out']
    for it, r, m in zip(items, real, out):
        if r != m:
            sink.fail('mismatch', 'naming:convert', 'convert_%s_name(%r, %s): real %r, model %r' % (
                'parameter' if it['k'] == 'p' else 'function', it['n'], it['c'], r, m), it)
    sink.bump('tie:convert-name', len(items))
    # (T2) is_keyword
    keys = sorted({gen_key(rng) for _ in range(n * 3)} | set(names))
    out = drv.ask(dict(p='C12', op='kw', items=keys))['out']
    for k, m in zip(keys, out):
        if bool(utils.is_keyword(k)) != m:
            sink.fail('mismatch', 'naming:is_keyword', 'is_keyword(%r): real %r, model %r' % (k, utils.is_keyword(k), m), k)
    sink.bump('tie:is_keyword', len(keys))
    # (T3) what call_func hands to the resolver
    items, real = [], []
    for _ in range(n):
        ks = []
        for _ in range(rng.randrange(0, 6)):
            k = gen_key(rng) if rng.random() < 0.93 else rng.choice([1, None, (1, 2), 2.5])
            if k not in ks:
                ks.append(k)
        nargs = rng.randrange(0, 3)
        items.append(dict(nargs=nargs, kw=[dict(s=k) if isinstance(k, str) else dict(o=i) for i, k in enumerate(ks)]))
        rec = _Rec()
        try:
            std_system.call_func(rec, ENGINE, 'f', tuple(1000 + i for i in range(nargs)),
                                 utils.FrozenDict((k, i) for i, k in enumerate(ks)))
            real.append(dict(args=list(rec.got[0]), kw=[[k, v] for k, v in rec.got[1].items()]))
        except Exception as e:
            real.append(dict(err=type(e).__name__))
    out = drv.ask(dict(p='C12', op='filter', items=items))['out']
    for it, r, m in zip(items, real, out):
        sink.bump('tie:call-hand-over:' + ('raises' if 'err' in r else 'filters' if len(r['kw']) < len(it['kw']) else 'keeps'))
        if r != m:
            sink.fail('mismatch', 'naming:call_func', 'call_func(.., kwargs with keys %r): real hands over %r, model %r' % (
                it['kw'], r, m), it)
    # (T4) get_function_definition: the name and the aliases a registration gets, the SAME function registered under
    # one convention after the other (the model is a function of the declaration alone)
    items_reg, real_reg, items_al, real_al = [], [], [], []
    for j in range(n // 4):
        pnames = []
        for _ in range(rng.randrange(1, 4)):
            pn = re.sub(r'[^A-Za-z0-9_]', '', gen_name(rng))
            if pn and not pn[0].isdigit() and not pn.startswith('__') and pn not in pnames and pn not in (
                    'context', 'engine', 'yaql_interface'):
                pnames.append(pn)
        if not pnames:
            continue
        pyname = 'f_' + re.sub(r'[^A-Za-z0-9_]', '', gen_name(rng))
        ns = {}
        exec('def %s(%s):\n    return 0\n' % (pyname, ', '.join(pnames)), ns)
        f = ns[pyname]
        decl_alias = {}
        for pn in pnames:
            al = rng.choice([None, None, None, 'al_' + pn, 'A'])
            if al in decl_alias.values():
                al = None
            decl_alias[pn] = al
            if al is not None or rng.random() < 0.5:
                specs.parameter(pn, alias=al)(f)
        decl_name = rng.choice([None, None, gen_name(rng) or None])
        if decl_name is not None:
            specs.name(decl_name)(f)
        convs = [rng.choice(greg.CONVS) for _ in range(3)]
        for c in convs:
            reg_as = rng.choice([None, None, None, gen_name(rng)])
            items_reg.append(dict(c=c, regAs=reg_as, decl=decl_name, py=pyname))
            try:
                fd = specs.get_function_definition(f, name=reg_as, convention=_conv_obj(c))
            except IndexError:
                real_reg.append({'err': 'IndexError'})
                continue
            real_reg.append(fd.name)
            for pn in pnames:
                items_al.append(dict(c=c, decl=decl_alias[pn], n=pn, after=convs))
                q = fd.parameters[pn]
                real_al.append(dict(alias=q.alias or None, kw=q.alias or q.name))
    ascii_ok = lambda it: all(32 <= ord(ch) < 127 for v in it.values() if isinstance(v, str) for ch in v)  # noqa: E731
    out = drv.ask(dict(p='C12', op='reg', items=items_reg))['out']
    for it, r, m in zip(items_reg, real_reg, out):
        if r != m and ascii_ok(it):
            sink.fail('mismatch', 'naming:registered-name', 'get_function_definition(%r): real name %r, model %r' % (it, r, m), it)
    out = drv.ask(dict(p='C12', op='alias', items=items_al))['out']
    for it, r, m in zip(items_al, real_al, out):
        if r != m:
            sink.fail('mismatch', 'naming:alias', 'get_function_definition alias %r: real %r, model %r' % (it, r, m), it)
    sink.bump('tie:registered-name', len(items_reg))
    sink.bump('tie:alias', len(items_al))
    return len(items) + len(keys) + len(items_reg) + len(items_al)


def run(env, res):
    drv = env['driver']
    tier = env['tier']
    rng = common.make_rng(env['seed'], 'C12')
    per_fd = 60 if tier == 'quick' else 400
    per_fd_conv = 10 if tier == 'quick' else 40
    sink = Sink(res)
    res.rule = ('every registered definition x argument tuples from a typed corpus (values that pass the parameter\'s own '
                'check; each defaulted parameter given or left out) x spellings (all positional, every positional/keyword '
                'split, the names the convention promises, explicit defaults, method form, call() with and without keys '
                'that are no keywords) x contexts of every naming convention in several creation orders; plus the starstar sweep: '
                'functions that collect keywords in **kwargs (a host probe that returns what it received, let, def) x keyword '
                'names a convention would rewrite next to their rewritings x written-in-the-expression / call() / delegate; '
                'distinct = (context, definition, tuple); non-trivial = at least two spellings and the positional '
                'spelling resolves')
    replay = json.load(open(env['replay']))['case'] if env['replay'] else None
    if replay and 'def' not in replay:
        replay = None                   # a tie-only finding: run everything
    # the other conventions and creation orders, in interpreters of their own (started first, collected last)
    # functions with a parameter whose promised keyword name the translator's transcription of the lexer rule finds
    # unwritable (`Props/C12Spell.keyword_names_spellable` fails to build then): the sweep gives them more tuples
    unsp = ((env.get('gen') or {}).get('conv') or {}).get('unspellable') or []
    focus = {r[1] for r in unsp}
    if unsp:
        res.extra['unspellable_keyword_names'] = unsp
    workers = []
    if replay is None:
        for order in (ORDERS_QUICK if tier == 'quick' else ORDERS_THOROUGH):
            workers.append((order, start_worker(order, env['seed'], per_fd_conv, focus=focus)))
    elif replay.get('order'):
        workers.append((replay['order'], start_worker(replay['order'], env['seed'], per_fd_conv, replay, focus)))
    model_reqs = []
    root = yaql.create_context()
    defs = greg.all_definitions(root)
    if replay is None or not replay.get('order'):
        sweep_context('camel', root, rng, per_fd, sink, replay=replay, model_reqs=model_reqs if drv is not None else None,
                      focus=focus)
    for order, p in workers:
        collect_worker(order, p, sink, res, 240 if tier == 'quick' else 1500)
    hist = sink.hist
    bump = sink.bump
    if drv is not None and replay is None:
        res.traces += naming_ties(drv, common.make_rng(env['seed'], 'C12/naming'), sink, 300 if tier == 'quick' else 3000, defs)
        res.traces += split_ties(drv, sink)
    # ---- (B)
    if drv is not None:
        nb = 0
        TAG0 = 20000

        def encode_chunk(chunk):
            encs, metas = [], []
            for di, name, fd, case, calls, ctx in chunk:
                pr = rl.Probes()
                ecalls, cm = [], []
                for tag, recv, objs, kwo in calls:
                    allobjs = objs + [o for _, o in kwo]
                    tags, probes = {}, {}

                    def enc(o, allobjs=allobjs, tags=tags, probes=probes):
                        i = index_of(o, allobjs)
                        if isinstance(o, expressions.Expression) and not isinstance(
                                o, (expressions.Constant, expressions.MappingRuleExpression)):
                            pr.add(o, rl.SILENT + i, None)
                            probes[rl.SILENT + i] = i
                        d = rl.enc_arg(o, pr)
                        if d.get('k') in ('v', 'c') and d.get('v') is not None:
                            d['v'] = dict(d['v'], t=TAG0 + i)
                            tags[TAG0 + i] = i
                        return d
                    ecalls.append(dict(args=[enc(o) for o in objs], kw=[[k, enc(o)] for k, o in kwo]))
                    cm.append((allobjs, tags, probes))
                encs.append(dict(fd=enc_fd_any(fd, di, ctx), calls=ecalls))
                metas.append(cm)
            return encs, metas

        for start in range(0, len(model_reqs), 100):
            chunk = model_reqs[start:start + 100]
            encode_chunk(chunk)                 # first pass registers every class / validator
            encs, metas = encode_chunk(chunk)   # second pass: `passes` lists are complete
            req = dict(p='Resolve', op='bind', defs=encs)
            req['lat'] = rl.T.lattice()
            out = drv.ask(req)['out']
            for (di, name, fd, case, calls, ctx), mres, cm in zip(chunk, out, metas):
                for (tag, recv, objs, kwo), m, (allobjs, tags, probes) in zip(calls, mres, cm):
                    rmap, rbound = real_bind(fd, objs, kwo, ctx, recv)
                    nb += 1
                    if tag.startswith('corner:'):
                        bump('%s map_args=%s get_delegate=%s' % (tag.split('@')[0], 'none' if rmap is None else 'ok',
                                                                 'raises' if rbound is None else 'binds'))
                    mmap = None if m['map'] is None else dict(pos=m['map']['pos'], kwd=sorted(m['map']['kwd']))
                    if mmap != rmap:
                        sink.fail('mismatch', 'map_args:' + name, '%s %s spelling %s: real map_args %r, model %r' % (
                            name, case['labels'], tag, rmap, mmap), case)
                        continue
                    if (m['del'] is None) != (rbound is None):
                        sink.fail('mismatch', 'get_delegate:' + name, '%s %s spelling %s: real get_delegate %s, model %s' % (
                            name, case['labels'], tag, 'fails' if rbound is None else 'binds',
                            'fails' if m['del'] is None else 'binds'), case)
                        continue
                    if rbound is None:
                        continue
                    rpos, rkw = rbound
                    real_pos = [describe_real(p, v, allobjs) for p, v in rpos]
                    mod_pos = [describe_model(s, allobjs, tags, probes) for s in m['del']['pos'] + m['del']['extra']]
                    real_kw = {k: describe_real(p, v, allobjs) for k, (p, v) in rkw.items()}
                    mod_kw = {k: describe_model(s, allobjs, tags, probes) for k, s in m['del']['kw']}
                    def eq(r, mm, pv):
                        # a small int / None argument may be the very object that is also the parameter's default
                        return r == mm or (mm in (['other'], ['none']) and pv[1] is pv[0].default) or \
                            (mm == ['none'] and pv[1] is None)
                    same = len(real_pos) == len(mod_pos) and all(eq(r, mm, pv) for r, mm, pv in zip(real_pos, mod_pos, rpos)) \
                        and set(real_kw) == set(mod_kw) and all(eq(real_kw[k], mod_kw[k], rkw[k]) for k in real_kw)
                    if not same:
                        sink.fail('mismatch', 'bound:' + name, '%s %s spelling %s: real bound %r %r, model %r %r' % (
                            name, case['labels'], tag, real_pos, real_kw, mod_pos, mod_kw), case)
        res.traces += nb
        bump('bind-comparisons', nb)
    if not replay or replay.get('kind') == 'arglist':
        import props.c12args as c12args
        c12args.run(env, res, hist)
    hist['timeouts (main interpreter)'] = dict(TIMEOUTS)
    res.extra['histogram'] = hist
    return res



LEVEL_TEXT = ('Lean 4 (round 5: C12Spell - kwarg_name_token, spellable_sound / spellable_complete over the lexer model for every '
              'configuration and word; keyword_names_spellable by decide +kernel: every keyword-passable parameter name of every '
              'registered definition under each convention is a word the lexer leaves a KEYWORD_STRING under the default and the '
              'legacy operator table); call_equiv, ext_both_ways, kind_exclusive, spelling_equiv (= spelling_equiv_full, the whole argument vector: '
              'any two spellings that give every named parameter the same value - in its slot, by keyword in any order, or '
              'defaulted: left out / empty slot / written out - bind the same vector in get_delegate or fail alike; via '
              'getDelegate_eq_of_received), spelling_kw_move / spelling_default_move (the one-parameter moves), '
              'mapArgs_of_getDelegate / spelling_mapArgs_agree (a vector that get_delegate binds passes map_args in every '
              'such spelling) over the model of translate_args / map_args / get_delegate for every well-formed definition '
              '(WFDef); call_junk_invariant (= call_junk_invariant_full) / '
              'call_resolver_input over the model of call()\'s keyword filter; toCamel_fixed / toCamel_idempotent / '
              'camel_of_python over the model of the naming conventions; generated-table theorems registry_wf, '
              'alias_convention, alias_convention_each, keyword_names_are_keywords, registered_names_converted (decide +kernel '
              'over all 284 registered definitions as found in contexts of every convention, created in several orders in '
              'fresh interpreters; regenerated per run). Tie: every registered definition called through the real resolver '
              'in every spelling on typed corpus tuples (same result / error class) in contexts of every convention and '
              'creation order, call() with extra non-keyword keys, map_args/get_delegate of the real definition against the '
              'model per spelling, and the naming / filtering functions against the model.  Keyword names that bind to **kwargs '
              'are data (starstar_names_verbatim / starstar_keywords_partition / starstar_all_verbatim over Naming.splitKeywords '
              'for every convention, starstar_delegate_verbatim at get_delegate level); tie: what a **kwargs function receives '
              'for adversarial names written in the expression, through call() and as delegate keywords, in every convention.')
LEVEL_NOTE = ('trusted: Lean kernel; Model/Types, Resolve, RegistryRow, Naming; the registry dump; the corpus. spelling_equiv is '
              'proved for the whole vector (spelling_equiv_full, with the guards named in ASSUMPTIONS); map_args by itself is '
              'shown not to be spelling-invariant (constants passed by keyword are not checked there; an empty slot whose '
              'parameter comes by keyword is rejected), as in the real code. '
              'call_junk_invariant_full (keys that are no keywords, strings or not, never change call()) is proved for the '
              'code since d6863d4.')
TECHNIQUE = 'Lean 4 proof + generated registry tables (decide +kernel) + differential testing over the full registry'
DESIGN_REF = 'DESIGN.md section 5, C12'
