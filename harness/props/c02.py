"""C02 - the operator table decides the parse tree (and the parser half of C03's totality).

Tie (model vs code), independent of the lexer model: texts are tokenised by the REAL ply lexer of the
engine under test; the token list goes to the compiled Lean parser model (Yaql.Model.Parser, an
operator-precedence shift/reduce machine over the precedence tuple computed by the Lean model of
`_build_operator_table` + `_generate_operator_funcs` from the operator list, itself produced by the
Lean model of `insert_operator`); the answer is compared with the tree under
`Statement.expression` / with `YaqlGrammarException.position`.

Oracle (real code alone): a Python transcription of the Lean predicate `WF` (Props/C02.lean), phrased
with the GROUP numbers and declared associativities of the operator list in force (not with ply's
tuple), evaluated on the real tree, plus `yield(tree) == tokens`.  By `C02.parse_roundtrip` at most
one tree satisfies both, so a tree that fails either is not the tree the table dictates.
"""
import copy
import itertools
import json
import time

import zlib
import common
import pyfacts
import srcobl
from gens import optables

from yaql.language import exceptions, expressions, factory, utils
from yaql import legacy

ID = 'C02'
LEAN_MODULES = ['Yaql.Props.C02', 'Yaql.Props.C02Table', 'Yaql.Props.C02Levels', 'Yaql.Props.C02Order',
                'Yaql.Props.C02Iso', 'Yaql.Props.C02Gen', 'Yaql.Props.C03Parse', 'Yaql.Props.C02Hist', 'Yaql.Props.C02Chain'] + \
    srcobl.modules('C02')   # Props/SrcOpTable
REQUIRED_THEOREMS = [
    'Yaql.Props.C02.parse_sound', 'Yaql.Props.C02.parse_roundtrip', 'Yaql.Props.C02.parse_unique',
    'Yaql.Props.C02.yield_injective', 'Yaql.Props.C02.parse_complete', 'Yaql.Props.C02.parse_iff',
    'Yaql.Props.C02Gen.live_no_amb', 'Yaql.Props.C02Gen.default_engine_trees', 'Yaql.Props.C02Gen.legacy_engine_trees',
    'Yaql.Props.C02Table.insert_same_group', 'Yaql.Props.C02Table.insert_new_group',
    'Yaql.Props.C02Table.insert_front',
    'Yaql.Props.C02Levels.levels_contiguous', 'Yaql.Props.C02Levels.populated_insert',
    'Yaql.Props.C02Levels.reachable_populated', 'Yaql.Props.C02Levels.standard_populated',
    'Yaql.Props.C02Order.keyedRows_sorted', 'Yaql.Props.C02Order.ply_order_iso',
    'Yaql.Props.C02Iso.reduce_by_key', 'Yaql.Props.C02Iso.reduce_by_group', 'Yaql.Props.C02Iso.keys_in_range',
    'Yaql.Props.C02Gen.live_tables_populated', 'Yaql.Props.C02Gen.live_names_disjoint',
    'Yaql.Props.C03Parse.parse_total_classified', 'Yaql.Props.C03Parse.error_at_first_rejected_token',
    'Yaql.Props.C03Parse.error_none_only_at_end',
    'Yaql.Props.C02Gen.default_tuple', 'Yaql.Props.C02Gen.legacy_tuple',
    'Yaql.Props.C02Gen.defaultDelegates_tuple', 'Yaql.Props.C02Gen.legacyDelegates_tuple',
    'Yaql.Props.C02Gen.default_ops', 'Yaql.Props.C02Gen.legacy_ops',
    'Yaql.Props.C02Hist.engine_stable', 'Yaql.Props.C02Hist.snapshot_kept', 'Yaql.Props.C02Hist.later_inserts_irrelevant',
    'Yaql.Props.C02Hist.copy_parses_like_origin', 'Yaql.Props.C02Hist.demo_snapshots',
    'Yaql.Props.C02Hist.regenerating_copy_differs',
    'Yaql.Props.C02Chain.parse_leftChain', 'Yaql.Props.C02Chain.parse_rightChain', 'Yaql.Props.C02Chain.no_right_nesting',
    'Yaql.Props.C02Chain.no_left_nesting', 'Yaql.Props.C02Chain.parse_repeat_left', 'Yaql.Props.C02Chain.parse_repeat_right',
    'Yaql.Props.C02Chain.demo_left', 'Yaql.Props.C02Chain.demo_right', 'Yaql.Props.C02Chain.live_and_or_left',
    'Yaql.Props.C02Chain.default_and_chain', 'Yaql.Props.C02Chain.default_or_chain',
] + srcobl.theorems('C02')
TRUSTED = ["ply's LALR(1) table construction and precedence-based conflict resolution (differentially tested only)",
           'the real ply lexer is used to tokenise (the lexer model belongs to C01/C03/C16)']
ASSUMPTIONS = ['custom tables are built through insert_operator only; new symbols are ASCII and differ from the '
               'name/value operator',
               "a delegate call `value ( args )` binds looser than every operator ('(' has no ply precedence); "
               'the operator table is silent about it, modelled as implemented']

OT = factory.OperatorType
BIN_TYPES = (OT.BINARY_LEFT_ASSOCIATIVE, OT.BINARY_RIGHT_ASSOCIATIVE)
UN_TYPES = (OT.PREFIX_UNARY, OT.SUFFIX_UNARY)


def generate():
    info = dict(pyfacts.run(['OpTables']))
    info.update(srcobl.generate('C02'))      # re-translate YaqlFactory.insert_operator
    return info


# ---------------------------------------------------------------- engines

class Eng:
    """an engine under test with everything the comparison needs"""

    def __init__(self, kind, delegates, inserts=()):
        self.kind, self.delegates, self.inserts = kind, delegates, list(inserts)
        fac = (factory.YaqlFactory if kind == 'default' else legacy.YaqlFactory)(allow_delegates=delegates)
        self.base = [list(r) for r in fac.operators]
        self.steps = []
        # a factory with a HISTORY (Model/EngineHist): engines are created from it BEFORE (some of) the inserts, copies of
        # them are made at once and again after all edits, and `engine(text, options=..)` is used after all edits; the
        # engine under test (`self.engine`) is created last and must follow the table as it is then.  `self.hist` lists
        # every engine in creation order: how it was made, the index of the create()d engine it descends from (`root`),
        # how many insert_operator calls had been made when that root was created (`k`) and the factory's list then.
        hfac = None
        if any(i.get('created') for i in self.inserts):
            hfac = (factory.YaqlFactory if kind == 'default' else legacy.YaqlFactory)(allow_delegates=delegates)
        self.hist, self.hops = [], []
        for idx, ins in enumerate(self.inserts):
            if hfac is not None and ins.get('created'):
                recs = [tuple(r) for r in hfac.operators]
                # one engine that is not touched at all until the factory has been edited (first USE after the edits) ...
                self.hist.append(dict(how='create(), first used after all edits', engine=hfac.create(), root=len(self.hist),
                                      k=idx, records=recs))
                self.hops.append(dict(op='create'))
                # ... and one that is copied at once
                root = len(self.hist)
                early = hfac.create()
                self.hist.append(dict(how='create()', engine=early, root=root, k=idx, records=recs))
                self.hops.append(dict(op='create'))
                self.hist.append(dict(how='copy() made before the factory was edited',
                                      engine=early.copy({'yaql.limitIterators': 1000 + idx}), root=root, k=idx, records=recs))
                self.hops.append(dict(op='copy', i=root))
            try:
                fac.insert_operator(ins['ex'], ins['bin'], ins['sym'], ins['ty'], ins['cg'], ins['alias'])
                self.steps.append([list(r) for r in fac.operators])
            except ValueError:
                self.steps.append(None)
            if hfac is not None:
                self.hops.append(dict(ins, op='insert'))
                try:
                    hfac.insert_operator(ins['ex'], ins['bin'], ins['sym'], ins['ty'], ins['cg'], ins['alias'])
                except ValueError:
                    pass
        self.fac = fac
        self.records = [tuple(r) for r in fac.operators]
        self.engine, self.cap = optables.capture(fac)
        if hfac is not None:
            self.twin_of_final = self.engine
            self.engine = hfac.create()
            self.hist.append(dict(how='create() after all edits', engine=self.engine, root=len(self.hist),
                                  k=len(self.inserts), records=[tuple(r) for r in hfac.operators]))
            self.hops.append(dict(op='create'))
            # descendants made AFTER the factory was edited, of every engine there is
            for j, h in enumerate(list(self.hist)):
                self.hist.append(dict(h, how='copy() made after all edits of [%s]' % h['how'],
                                      engine=h['engine'].copy({'yaql.memoryQuota': 100000 + j})))
                self.hops.append(dict(op='copy', i=j))
                self.hist.append(dict(h, how='engine(text, options=..) after all edits of [%s]' % h['how'],
                                      engine=(lambda text, e=h['engine'], j=j: e(text, options={'yaql.limitIterators': 77 + j}))))
                self.hops.append(dict(op='copy', i=j))
        try:
            self.engine_copy = self.engine.copy({'yaql.memoryQuota': 1000000})
        except Exception:       # noqa
            self.engine_copy = None
        self.table = self.cap['table'].operators          # sym -> (up, bp, name, alias)
        self.name2sym = {v[2]: k for k, v in self.table.items()}
        # group data of the operator list (the property's vocabulary)
        self.assoc = {}
        g = 1
        kinds = {}
        for r in self.records:
            if len(r) < 2:
                g += 1
                continue
            kinds.setdefault(g, set()).add(r[1])
            if r[1] == OT.BINARY_LEFT_ASSOCIATIVE:
                self.assoc.setdefault(g, set()).add('left')
            elif r[1] == OT.BINARY_RIGHT_ASSOCIATIVE:
                self.assoc.setdefault(g, set()).add('right')
        self.group_kinds = kinds
        self.homogeneous = all(homogeneous_group(k) for k in kinds.values())
        self.ambiguous = [s for s, (up, bp, _, _) in self.table.items() if up < 0 and bp]

    def spec(self):
        return dict(base=[rec_json(r) for r in self.base],
                    inserts=[dict(i) for i in self.inserts], delegates=self.delegates)

    def label(self):
        return '%s%s%s' % (self.kind, '+delegates' if self.delegates else '',
                           ''.join(' %sins(%s,%s,%s,%s,%s)' % ('create() ' if i.get('created') else '', i['ex'], i['bin'],
                                                                i['sym'], i['ty'][:8], i['cg'])
                                   for i in self.inserts))


def homogeneous_group(kinds):
    kinds = set(kinds) - {OT.NAME_VALUE_PAIR}
    if OT.SUFFIX_UNARY in kinds:
        return kinds == {OT.SUFFIX_UNARY}
    return not (OT.BINARY_LEFT_ASSOCIATIVE in kinds and OT.BINARY_RIGHT_ASSOCIATIVE in kinds)


def rec_json(r):
    r = list(r)
    if len(r) < 2:
        return []
    return [r[0], r[1], r[2] if len(r) > 2 else None]


# ---------------------------------------------------------------- tokens and trees

def cps(s):
    return [ord(c) for c in s]


def val_json(v):
    if isinstance(v, bool) or v is None:
        return None
    if isinstance(v, str):
        return {'text': cps(v)}
    if isinstance(v, int):
        return {'int': str(v)}
    if isinstance(v, float):
        import struct
        return {'flt': cps(repr(v)), 'bits': str(struct.unpack('>Q', struct.pack('>d', v))[0])}
    raise TypeError(type(v))


KIND = {'KEYWORD_STRING': 'keyword', 'QUOTED_STRING': 'quoted', 'NUMBER': 'number', 'FUNC': 'func',
        'DOLLAR': 'dollar', 'INDEXER': 'indexer', 'MAPPING': 'mapping', 'MAP': 'map',
        'TRUE': 'true', 'FALSE': 'false', 'NULL': 'null'}


def lex(eng, text):
    lx = eng.engine.lexer.clone()
    lx.input(text)
    out = []
    while True:
        t = lx.token()
        if t is None:
            return out
        out.append(t)


def tok_json(eng, t):
    if t.type in KIND:
        carries = t.type in ('KEYWORD_STRING', 'QUOTED_STRING', 'NUMBER', 'FUNC', 'DOLLAR')
        return {'k': KIND[t.type], 'v': val_json(t.value) if carries else None, 'p': t.lexpos}
    if t.type in ('(', ')', ']', ',', '}'):
        return {'k': 'lit', 's': t.type, 'p': t.lexpos}
    return {'k': 'op', 's': eng.name2sym[t.type], 'p': t.lexpos}


def tok_sig(tj):
    """token without its position (what `yield` reproduces)"""
    return (tj['k'], tj.get('s'), json.dumps(tj.get('v')))


def const_json(v):
    if v is True:
        return ['const', 'true', None]
    if v is False:
        return ['const', 'false', None]
    if v is None:
        return ['const', 'null', None]
    if isinstance(v, str):
        return ['const', 'quoted', val_json(v)]
    return ['const', 'number', val_json(v)]


def alias_of(name, prefix, op):
    if name == prefix + op:
        return None
    if name.startswith('*'):
        return name[1:]
    return 'UNEXPECTED-NAME:' + name


def tree_json(e):
    """the real tree in the model's S-expression encoding"""
    E = expressions
    if e is utils.NO_VALUE:
        return 'NO_VALUE'
    if isinstance(e, E.BinaryOperator):
        return ['bin', e.operator, alias_of(e.name, '#operator_', e.operator)] + [tree_json(a) for a in e.args]
    if isinstance(e, E.UnaryOperator):
        return ['un', e.operator, alias_of(e.name, '#unary_operator_', e.operator)] + [tree_json(a) for a in e.args]
    if isinstance(e, E.IndexExpression):
        return ['index'] + [tree_json(a) for a in e.args]
    if isinstance(e, E.ListExpression):
        return ['list'] + [tree_json(a) for a in e.args]
    if isinstance(e, E.MapExpression):
        return ['map'] + [tree_json(a) for a in e.args]
    if isinstance(e, E.GetContextValue):
        return ['ctx', val_json(e.path.value)]
    if isinstance(e, E.Function):
        if e.name == '#call':
            return ['call'] + [tree_json(a) for a in e.args]
        return ['func', val_json(e.name)] + [tree_json(a) for a in e.args]
    if isinstance(e, E.KeywordConstant):
        return ['kw', val_json(e.value)]
    if isinstance(e, E.Constant):
        return const_json(e.value)
    if isinstance(e, E.Wrap):
        return ['wrap', tree_json(e.expr)]
    if isinstance(e, E.MappingRuleExpression):
        return ['mr', tree_json(e.source), tree_json(e.destination)]
    raise TypeError('unexpected node %r' % type(e))


PROVENANCE = {}


def real_parse(eng, text):
    """('ok', tree-json, statement) | ('grammar', position) | ('lexical', position) | ('foreign', repr)"""
    try:
        # engine provenance: most texts through the engine itself, a quarter through a copy() of it, a few through
        # engine(text, options=..) - the table in force is the same for all three
        h = zlib.crc32(text.encode('utf8', 'replace')) % 200
        cp = getattr(eng, 'engine_copy', None)
        if h == 0 and cp is not None:
            PROVENANCE['engine(text, options=..)'] = PROVENANCE.get('engine(text, options=..)', 0) + 1
            st = eng.engine(text, options={'yaql.limitIterators': 1000})
        elif h % 4 == 1 and cp is not None:
            PROVENANCE['engine.copy(..)(text)'] = PROVENANCE.get('engine.copy(..)(text)', 0) + 1
            st = cp(text)
        else:
            st = eng.engine(text)
        return ('ok', tree_json(st.expression))
    except exceptions.YaqlGrammarException as ex:
        return ('grammar', ex.position)
    except exceptions.YaqlLexicalException as ex:
        return ('lexical', ex.position)
    except Exception as ex:     # noqa
        return ('foreign', repr(ex))


# ---------------------------------------------------------------- the oracle: WF on the real tree

KNOWN_SUFFIX_KEY = 'suffix-binary-symbol'
CALL_LEVEL = 10 ** 9        # '(' of a delegate call: looser than every operator


class NotApplicable(Exception):
    pass


class Oracle:
    """Transcription of `Yaql.Props.C02.WF` with (group number, declared associativity) in place of
    ply's (level, row associativity): smaller group = tighter."""

    def __init__(self, eng, token_level_suffix=False):
        self.eng = eng
        # the table as the operator LIST states it (group = 1 + number of separators before the record; the
        # record type gives the role) - deliberately not the output of _build_operator_table
        self.t = {}
        g = 1
        for r in eng.records:
            if len(r) < 2:
                g += 1
                continue
            if r[1] == OT.NAME_VALUE_PAIR:
                continue
            up, bp, aliases = self.t.get(r[0], (0, 0, ()))
            if r[1] == OT.PREFIX_UNARY:
                up = g
            elif r[1] == OT.SUFFIX_UNARY:
                up = -g
            elif r[1] == OT.BINARY_LEFT_ASSOCIATIVE:
                bp = g
            elif r[1] == OT.BINARY_RIGHT_ASSOCIATIVE:
                bp = -g
            self.t[r[0]] = (up, bp, aliases + ((r[2] if len(r) > 2 else None),))
        # False: the statement (a suffix operator binds as its own group says).  True: what one ply token can
        # do - a symbol that is also binary has ONE shift precedence, that of its binary group.
        self.token_level_suffix = token_level_suffix

    def suffix_group(self, sym):
        if self.token_level_suffix and self.t[sym][1]:
            return self.bin_group(sym)
        return self.un_group(sym)

    def is_prefix(self, sym):
        return self.t[sym][0] > 0

    def bin_group(self, sym):
        return abs(self.t[sym][1])

    def un_group(self, sym):
        return abs(self.t[sym][0])

    def group_left(self, g):
        a = self.eng.assoc.get(g)
        if not a or len(a) != 1:
            raise NotApplicable('group %d has no single associativity' % g)
        return a == {'left'}

    def reduces(self, rule_g, tok_g):
        """does an open operator of group rule_g close before a following operator token of group tok_g?"""
        if tok_g != rule_g:
            return tok_g > rule_g
        return self.group_left(rule_g)

    def right_rules(self, e):
        """groups of the operators still open at the right edge of e"""
        if e[0] == 'bin':
            return [self.bin_group(e[1])] + self.right_rules(e[4])
        if e[0] == 'un' and self.is_prefix(e[1]):
            return [self.un_group(e[1])] + self.right_rules(e[3])
        return []

    def left_post(self, e):
        """groups of the postfix operations applied along the left edge of e"""
        if e[0] == 'bin':
            return [self.bin_group(e[1])] + self.left_post(e[3])
        if e[0] == 'un' and not self.is_prefix(e[1]):
            return [self.suffix_group(e[1])] + self.left_post(e[3])
        if e[0] == 'index':
            return [abs(self.t['[]'][1])] + self.left_post(e[1])
        if e[0] == 'call':
            return [CALL_LEVEL] + self.left_post(e[1])
        return []

    def check_left(self, operand, tok_g, what):
        for g in self.right_rules(operand):
            if not self.reduces(g, tok_g):
                return '%s: an operator of group %d inside its left operand should have taken it (group %d)' % (
                    what, g, tok_g)
        return None

    def check_right(self, operand, rule_g, what):
        for g in self.left_post(operand):
            if self.reduces(rule_g, g):
                return '%s (group %d): its right operand contains an operator of group %s that binds no tighter' % (
                    what, rule_g, 'call' if g == CALL_LEVEL else g)
        return None

    def value(self, e):
        """None if WF, else a description of the first violation"""
        if isinstance(e, str):
            return 'NO_VALUE outside an argument list'
        k = e[0]
        if k in ('const', 'kw', 'ctx'):
            return None
        if k == 'wrap':
            return self.value(e[1])
        if k == 'mr':
            return 'mapping rule outside an argument list'
        if k == 'bin':
            sym = e[1]
            if sym not in self.t or not self.t[sym][1]:
                return 'binary operator %r is not in the table' % sym
            if e[2] not in self.t[sym][2]:
                return 'operator %r carries alias %r, its records say %r' % (sym, e[2], self.t[sym][2])
            g = self.bin_group(sym)
            return (self.value(e[3]) or self.value(e[4]) or
                    self.check_left(e[3], g, 'binary %r' % sym) or self.check_right(e[4], g, 'binary %r' % sym))
        if k == 'un':
            sym = e[1]
            if sym not in self.t or not self.t[sym][0]:
                return 'unary operator %r is not in the table' % sym
            if e[2] not in self.t[sym][2]:
                return 'operator %r carries alias %r, its records say %r' % (sym, e[2], self.t[sym][2])
            g = self.un_group(sym)
            if self.is_prefix(sym):
                return self.value(e[3]) or self.check_right(e[3], g, 'prefix %r' % sym)
            return self.value(e[3]) or self.check_left(e[3], self.suffix_group(sym), 'suffix %r' % sym)
        if k == 'index':
            return (self.value(e[1]) or self.check_left(e[1], abs(self.t['[]'][1]), 'indexer') or
                    self.args(e[2:]))
        if k == 'call':
            if not self.eng.delegates:
                return 'delegate call although delegates are not allowed'
            return self.value(e[1]) or self.check_left(e[1], CALL_LEVEL, 'call') or self.args(e[2:])
        if k in ('list', 'map'):
            return self.args(e[1:])
        if k == 'func':
            return self.args(e[2:])
        return 'unknown node %r' % (k,)

    def args(self, items):
        """the `args` grammar: positional slots (possibly empty, not the last), then name => value slots;
        a named slot may follow a value directly or after exactly one empty slot"""
        if not items:
            return None
        budget, named = 1, False
        for i, a in enumerate(items):
            last = i == len(items) - 1
            if a == 'NO_VALUE':
                if named or last:
                    return 'empty slot in a wrong place'
                budget = max(budget - 1, 0)
            elif a[0] == 'mr':
                if not (named or budget >= 1):
                    return 'named argument after empty slots'
                r = self.value(a[1]) or self.value(a[2])
                if r:
                    return r
                named, budget = True, 0
            else:
                if named:
                    return 'positional argument after a named one'
                r = self.value(a)
                if r:
                    return r
                budget = 2
        return None

    # yield: the token sequence (without positions) a tree spells
    def yield_(self, e):
        if isinstance(e, str):
            return []
        k = e[0]
        if k == 'const':
            return [(e[1], None, json.dumps(e[2]))]
        if k == 'kw':
            return [('keyword', None, json.dumps(e[1]))]
        if k == 'ctx':
            return [('dollar', None, json.dumps(e[1]))]
        if k == 'wrap':
            return [lit('(')] + self.yield_(e[1]) + [lit(')')]
        if k == 'mr':
            return self.yield_(e[1]) + [('mapping', None, 'null')] + self.yield_(e[2])
        if k == 'bin':
            return self.yield_(e[3]) + [('op', e[1], 'null')] + self.yield_(e[4])
        if k == 'un':
            if self.is_prefix(e[1]):
                return [('op', e[1], 'null')] + self.yield_(e[3])
            return self.yield_(e[3]) + [('op', e[1], 'null')]
        if k == 'index':
            return self.yield_(e[1]) + [('indexer', None, 'null')] + self.yield_args(e[2:]) + [lit(']')]
        if k == 'call':
            return self.yield_(e[1]) + [lit('(')] + self.yield_args(e[2:]) + [lit(')')]
        if k == 'list':
            return [('indexer', None, 'null')] + self.yield_args(e[1:]) + [lit(']')]
        if k == 'map':
            return [('map', None, 'null')] + self.yield_args(e[1:]) + [lit('}')]
        if k == 'func':
            return [('func', None, json.dumps(e[1]))] + self.yield_args(e[2:]) + [lit(')')]
        raise TypeError(k)

    def yield_args(self, items):
        out = []
        for i, a in enumerate(items):
            if i:
                out.append(lit(','))
            out += self.yield_(a)
        return out


def lit(c):
    return ('lit', c, 'null')


LEAVES = [(['ctx', {'text': cps('$a')}], '$a'), (['const', 'number', {'int': '1'}], '1'),
          (['const', 'quoted', {'text': cps('s')}], "'s'"), (['kw', {'text': cps('b')}], 'b'),
          (['ctx', {'text': cps('$')}], '$'), (['const', 'true', None], 'true'),
          (['const', 'number', val_json(2.5)], '2.5'), (['const', 'null', None], 'null'),
          (['kw', {'text': cps('c')}], 'c')]
LEAF_TEXT = {json.dumps(t): x for t, x in LEAVES}


def strip_alias(e):
    if isinstance(e, list):
        if e and e[0] in ('bin', 'un'):
            return [e[0], e[1], None] + [strip_alias(x) for x in e[3:]]
        if e and e[0] in ('const', 'kw', 'ctx'):
            return e
        return [strip_alias(x) if isinstance(x, list) else x for x in e]
    return e


def render(orc, e, kw='=>'):
    """text of a tree (tokens separated by blanks)"""
    if isinstance(e, str):
        return ''
    k = e[0]
    if k in ('const', 'kw', 'ctx'):
        return LEAF_TEXT[json.dumps(e)]
    r = lambda x: render(orc, x, kw)

    def args(items):
        return ' , '.join(r(a) for a in items)
    if k == 'wrap':
        return '( ' + r(e[1]) + ' )'
    if k == 'mr':
        return r(e[1]) + ' ' + kw + ' ' + r(e[2])
    if k == 'bin':
        return r(e[3]) + ' ' + e[1] + ' ' + r(e[4])
    if k == 'un':
        return (e[1] + ' ' + r(e[3])) if orc.is_prefix(e[1]) else (r(e[3]) + ' ' + e[1])
    if k == 'index':
        return r(e[1]) + ' [ ' + args(e[2:]) + ' ]'
    if k == 'call':
        return r(e[1]) + ' ( ' + args(e[2:]) + ' )'
    if k == 'list':
        return '[ ' + args(e[1:]) + ' ]'
    if k == 'map':
        return '{ ' + args(e[1:]) + ' }'
    if k == 'func':
        return ''.join(chr(c) for c in e[1]['text']) + '( ' + args(e[2:]) + ' )'
    raise TypeError(k)


def rand_tree(rng, orc, depth, delegates, kw):
    """a random tree that satisfies the oracle's WF by construction: operands that would be grouped against the
    table are put in parentheses (and some others too)"""
    t = orc.t
    syms = [s for s in t if s not in ('[]', '{}')]
    bins = [s for s in syms if t[s][1]]
    pres = [s for s in syms if t[s][0] > 0]
    sufs = [s for s in syms if t[s][0] < 0]

    def paren(x, bad):
        return ['wrap', x] if bad or rng.random() < 0.08 else x

    def args(d):
        n = rng.randrange(0, 4)
        items = []
        for _ in range(n):
            q = rng.random()
            if q < 0.15:
                items.append('NO_VALUE')
            elif q < 0.35 and kw:
                items.append(['mr', g(d - 1), g(d - 1)])
            else:
                items.append(g(d - 1))
        # make the slot list legal: positional part must end with a value (or a value and one empty slot before
        # named ones), named ones last
        pos = [a for a in items if not (isinstance(a, list) and a[0] == 'mr')]
        named = [a for a in items if isinstance(a, list) and a[0] == 'mr']
        while pos and pos[-1] == 'NO_VALUE':
            pos.pop()
        if pos and named and rng.random() < 0.2:
            pos.append('NO_VALUE')
        if pos and all(a == 'NO_VALUE' for a in pos):
            pos = []
        return pos + named

    def g(d):
        r = rng.random()
        if d <= 0 or r < 0.2:
            return rng.choice(LEAVES)[0]
        if r < 0.55 and bins:
            sym = rng.choice(bins)
            grp = abs(t[sym][1])
            l, rr = g(d - 1), g(d - 1)
            l = paren(l, orc.check_left(l, grp, '') is not None)
            rr = paren(rr, orc.check_right(rr, grp, '') is not None)
            return ['bin', sym, None, l, rr]
        if r < 0.67 and pres:
            sym = rng.choice(pres)
            x = g(d - 1)
            return ['un', sym, None, paren(x, orc.check_right(x, abs(t[sym][0]), '') is not None)]
        if r < 0.73 and sufs:
            sym = rng.choice(sufs)
            x = g(d - 1)
            return ['un', sym, None, paren(x, orc.check_left(x, orc.suffix_group(sym), '') is not None)]
        if r < 0.78:
            return ['wrap', g(d - 1)]
        if r < 0.84 and '[]' in t:
            x = g(d - 1)
            return ['index', paren(x, orc.check_left(x, abs(t['[]'][1]), '') is not None)] + args(d)
        if r < 0.88 and '[]' in t:
            return ['list'] + args(d)
        if r < 0.91 and '{}' in t:
            return ['map'] + args(d)
        if r < 0.96 or not delegates:
            return ['func', {'text': cps(rng.choice(['f', 'g', 'len']))}] + args(d)
        x = g(d - 1)
        return ['call', paren(x, orc.check_left(x, CALL_LEVEL, '') is not None)] + args(d)
    return g(depth)


# ---------------------------------------------------------------- generators

OPERANDS = ['$a', '1', "'s'", 'b', '$', 'true', '2.5', 'null', 'c']


def flat_expr(bins, prefixes_at, operands=OPERANDS, suffixes_at=None):
    """operand (op operand)*, with prefix operators stacked in front of / suffix operators behind chosen operands"""
    parts = []
    for i in range(len(bins) + 1):
        parts += prefixes_at.get(i, [])
        parts.append(operands[i % len(operands)])
        if suffixes_at:
            parts += suffixes_at.get(i, [])
        if i < len(bins):
            parts.append(bins[i])
    return ' '.join(parts)


def placements(n_positions, prefixes, max_prefix=2):
    """every way of putting <= max_prefix prefix operators in front of operands"""
    yield {}
    for p in range(n_positions):
        for a in prefixes:
            yield {p: [a]}
    if max_prefix >= 2:
        for p in range(n_positions):
            for a in prefixes:
                for b in prefixes:
                    yield {p: [a, b]}
        for p, q in itertools.combinations(range(n_positions), 2):
            for a in prefixes:
                for b in prefixes:
                    yield {p: [a], q: [b]}


def exhaustive(eng):
    syms = [s for s in eng.table if s not in ('[]', '{}')]
    bins = [s for s in syms if eng.table[s][1]]
    pres = [s for s in syms if eng.table[s][0] > 0]
    for n in (0, 1, 2, 3):
        for seq in itertools.product(bins, repeat=n):
            for pl in placements(n + 1, pres):
                yield flat_expr(seq, pl)


def rand_expr(rng, eng, depth):
    """grammar-directed random expression over all forms"""
    syms = [s for s in eng.table if s not in ('[]', '{}')]
    bins = [s for s in syms if eng.table[s][1]]
    pres = [s for s in syms if eng.table[s][0] > 0]
    sufs = [s for s in syms if eng.table[s][0] < 0]
    kw = eng.cap['table'].name_value_op

    def g(d):
        r = rng.random()
        if d <= 0 or r < 0.22:
            return rng.choice(OPERANDS)

        def args():
            parts = []
            for _ in range(rng.randrange(0, 4)):
                q = rng.random()
                if q < 0.15:
                    parts.append('')
                elif q < 0.35 and kw:
                    parts.append(g(d - 1) + ' ' + kw + ' ' + g(d - 1))
                else:
                    parts.append(g(d - 1))
            return ' , '.join(parts)
        if r < 0.52 and bins:
            return g(d - 1) + ' ' + rng.choice(bins) + ' ' + g(d - 1)
        if r < 0.64 and pres:
            return rng.choice(pres) + ' ' + g(d - 1)
        if r < 0.70 and sufs:
            return g(d - 1) + ' ' + rng.choice(sufs)
        if r < 0.76:
            return '( ' + g(d - 1) + ' )'
        if r < 0.82:
            return g(d - 1) + ' [ ' + args() + ' ]'
        if r < 0.86:
            return '[ ' + args() + ' ]'
        if r < 0.89:
            return '{ ' + args() + ' }'
        if r < 0.94:
            return rng.choice(['f(', 'g(', 'len(']) + ' ' + args() + ' )'
        if r < 0.97:
            return g(d - 1) + ' . ' + rng.choice(['f(', 'where(']) + ' ' + args() + ' )'
        return g(d - 1) + ' ( ' + args() + ' )'
    return g(depth)


def rand_flat(rng, eng, nmax=12):
    syms = [s for s in eng.table if s not in ('[]', '{}')]
    bins = [s for s in syms if eng.table[s][1]]
    pres = [s for s in syms if eng.table[s][0] > 0]
    sufs = [s for s in syms if eng.table[s][0] < 0]
    n = rng.randrange(1, nmax + 1)
    seq = [rng.choice(bins) for _ in range(n)] if bins else []
    pl, sl = {}, {}
    for i in range(len(seq) + 1):
        if pres and rng.random() < 0.3:
            pl[i] = [rng.choice(pres) for _ in range(rng.choice([1, 1, 2]))]
        if sufs and rng.random() < 0.3:
            sl[i] = [rng.choice(sufs) for _ in range(rng.choice([1, 1, 2]))]
    return flat_expr(seq, pl, suffixes_at=sl)


def chain_tree(orc, ops, operands):
    """the tree the table dictates for `x0 ops[0] x1 ops[1] ...` when all ops belong to ONE group and every operand is
    closed against that group: left-deep or right-deep, as the group is declared - for every length"""
    if orc.group_left(orc.bin_group(ops[0])):
        t = operands[0]
        for op, x in zip(ops, operands[1:]):
            t = ['bin', op, None, t, x]
        return t
    t = operands[-1]
    for op, x in zip(reversed(ops), reversed(operands[:-1])):
        t = ['bin', op, None, x, t]
    return t


CHAIN_LENGTHS = [(9, 9), (10, 12), (13, 17), (18, 33), (34, 64)]


def long_chains(rng, eng, orc, per_op=3, lengths=CHAIN_LENGTHS, only=None):
    """LONG flat chains (>= 9 operands) of every binary operator of the table in force: one operator repeated, operators
    of one group mixed; bare, under a prefix operator, in parentheses / argument lists / index expressions, with tighter
    or looser operators at the ends, with parenthesised sub-chains as operands.  Yields (text, dictated tree or None):
    the tree is given where it can be written down directly (all operands closed)."""
    t = eng.table
    syms = [s for s in t if s not in ('[]', '{}')]
    bins = [s for s in syms if t[s][1]]
    pres = [s for s in syms if t[s][0] > 0]
    sufs = [s for s in syms if t[s][0] < 0]
    by_group = {}
    for s in bins:
        by_group.setdefault(abs(t[s][1]), []).append(s)
    n_leaf = len(LEAVES)
    for s in bins:
        if only is not None and s not in only:
            continue
        mates = by_group[abs(t[s][1])]
        picks = rng.sample(lengths, min(per_op, len(lengths)))
        if (9, 9) not in picks and rng.random() < 0.5:
            picks[0] = (9, 9)
        for k, (lo, hi) in enumerate(picks):
            n = rng.randint(lo, hi)
            ops = [s] * (n - 1) if k % 2 == 0 or len(mates) < 2 else [rng.choice(mates) for _ in range(n - 1)]
            off = rng.randrange(n_leaf)
            leaves = [LEAVES[(off + i) % n_leaf] for i in range(n)]
            words = [x for _, x in leaves]
            tree = None
            if orc is not None and not eng.ambiguous:
                try:
                    tree = chain_tree(orc, ops, [x for x, _ in leaves])
                except NotApplicable:
                    tree = None
            q = rng.random()
            if q < 0.3:
                # parenthesised sub-chains and stacked prefix / suffix operators on some operands
                tree = None
                for i in range(n):
                    r = rng.random()
                    if r < 0.12:
                        m = rng.randint(2, 4)
                        words[i] = '( ' + (' %s ' % rng.choice(mates)).join(rng.choice(OPERANDS) for _ in range(m)) + ' )'
                    elif r < 0.2 and pres:
                        words[i] = rng.choice(pres) + ' ' + words[i]
                    elif r < 0.26 and sufs:
                        words[i] = words[i] + ' ' + rng.choice(sufs)
            parts = [words[0]]
            for op, w in zip(ops, words[1:]):
                parts += [op, w]
            body = ' '.join(parts)
            q = rng.random()
            if q < 0.3:
                yield body, tree
                continue
            tree_in = tree
            tree = None
            if q < 0.42 and pres:
                yield rng.choice(pres) + ' ' + body, None
            elif q < 0.52:
                yield '( ' + body + ' )', (['wrap', tree_in] if tree_in is not None else None)
            elif q < 0.60:
                yield 'f( ' + body + ' , ' + body + ' )', None
            elif q < 0.68:
                yield '$a [ ' + body + ' ]', None
            elif q < 0.74 and eng.delegates:
                yield 'b ( ' + body + ' )', None
            elif q < 0.80:
                yield '[ 1 , ' + body + ' ]', None
            else:
                # other operators (tighter, looser, same group) at the ends
                a, b = rng.choice(bins), rng.choice(bins)
                w = rng.random()
                if w < 0.35:
                    yield "$b %s %s" % (a, body), None
                elif w < 0.7:
                    yield "%s %s 's'" % (body, b), None
                else:
                    yield "$b %s %s %s 's'" % (a, body, b), None


def add_symbol_roles(b, family):
    """every operator of the list is usable in every role it is declared in: the smallest trees (operator over leaves, and
    under / over one standard neighbour) are dictated, so their spelling must come back as exactly these trees"""
    orc = b.oracle
    if orc is None or b.eng.ambiguous:
        return
    la, lb, lc = LEAVES[0][0], LEAVES[1][0], LEAVES[3][0]
    for s, (up, bp, _aliases) in orc.t.items():
        if s in ('[]', '{}'):
            continue
        trees = []
        if bp:
            trees += [['bin', s, None, la, lb], ['bin', s, None, ['wrap', ['bin', s, None, la, lb]], lc],
                      ['bin', s, None, la, ['wrap', ['bin', s, None, lb, lc]]], ['list', ['bin', s, None, lc, la]]]
        if up:
            trees += [['un', s, None, la], ['un', s, None, ['wrap', ['un', s, None, lc]]], ['wrap', ['un', s, None, lb]]]
        if up and bp:
            trees += [['bin', s, None, la, ['wrap', ['un', s, None, lb]]]]
        for t in trees:
            b.add_tree(t, family)


def add_long_chains(b, rng, family, per_op=3, lengths=CHAIN_LENGTHS, only=None):
    for text, tree in long_chains(rng, b.eng, b.oracle, per_op, lengths, only):
        if tree is not None:
            b.add_tree(tree, family)
        else:
            b.add(text, family)


def mutate(rng, eng, text):
    """token-level damage: delete / insert / replace one word"""
    syms = [s for s in eng.table if s not in ('[]', '{}')]
    junk = syms + [',', ')', '(', ']', '[', '{', '}', '1', '$x', 'a', 'f(', '=>', "'q'"]
    ws = text.split(' ')
    for _ in range(rng.choice([1, 1, 2])):
        j = rng.randrange(len(ws) + 1)
        q = rng.random()
        if q < 0.35 and ws and j < len(ws):
            del ws[j]
        elif q < 0.7:
            ws.insert(j, rng.choice(junk))
        elif j < len(ws):
            ws[j] = rng.choice(junk)
    return ' '.join(ws)


def soup(rng, eng, nmax):
    syms = [s for s in eng.table if s not in ('[]', '{}')]
    atoms = OPERANDS + ['f(', '(', ')', '[', ']', '{', '}', ',', '=>', ')', ']', ','] + syms
    return ' '.join(rng.choice(atoms) for _ in range(rng.randrange(1, nmax + 1)))


# custom tables
SYMBOL_POOL = ['!', '!!', '~', '**', '==', '<>', '|', '||', '&', '&&', 'xor', 'is', 'div', '@', '%', '^', '-->',
               '>>', '<<', '?', ':', '..', '...', 'isnt', 'then', '=>>', '<-', '-', '+', '*', '/', 'not', 'and', '=',
               '<', '.', '->', 'in', '#', '+++', '?..', '=~~'] + [
    # identifier-shaped operator words: with underscores, digits, capitals (the lexer reads them with its keyword rule and
    # has to find them in the operator table exactly as spelled)
    'not_in', 'is_set', 'div2', 'starts_with', 'x_1', 'Is', 'AND', 'Not', 'mod2', '_in', 'in_', 'b2b', 'isNull', 'Xor_2',
    '_', 'o0']


def group_of_record(records, idx):
    return 1 + sum(1 for r in records[:idx] if len(r) < 2)


def rand_inserts(rng, kind, delegates, homogeneous, nmax=5):
    """a sequence of insert_operator calls; when `homogeneous`, each call keeps every group homogeneous and
    the table valid (no symbol twice unary / twice binary)"""
    fac = (factory.YaqlFactory if kind == 'default' else legacy.YaqlFactory)(allow_delegates=delegates)
    out = []
    for _ in range(rng.randrange(1, nmax + 1)):
        for _attempt in range(30):
            recs = [r for r in fac.operators if len(r) > 1 and r[1] != OT.NAME_VALUE_PAIR and
                    r[0] not in ('[]', '{}')]
            ex = rng.choice(recs + [None]) if rng.random() < 0.9 else ('nosuch', OT.PREFIX_UNARY)
            sym = rng.choice(SYMBOL_POOL)
            ty = rng.choice([OT.PREFIX_UNARY, OT.SUFFIX_UNARY, OT.BINARY_LEFT_ASSOCIATIVE,
                             OT.BINARY_RIGHT_ASSOCIATIVE])
            cg = rng.random() < 0.5
            if sym == fac.keyword_operator:
                continue
            ins = dict(ex=ex[0] if ex else None, bin=(ex[1] in BIN_TYPES) if ex else rng.random() < 0.5,
                       sym=sym, ty=ty, cg=cg, alias=rng.choice([None, None, 'al_' + str(len(out))]))
            trial = [tuple(r) for r in fac.operators]
            scratch = factory.YaqlFactory()
            scratch.operators = [tuple(r) for r in trial]
            try:
                scratch.insert_operator(ins['ex'], ins['bin'], ins['sym'], ins['ty'], ins['cg'], ins['alias'])
            except ValueError:
                if rng.random() < 0.5:
                    out.append(ins)         # a failing call is part of the history (list unchanged)
                    break
                continue
            try:
                scratch._build_operator_table(scratch._name_generator())
            except exceptions.InvalidOperatorTableException:
                continue
            if homogeneous:
                kinds = {}
                g = 1
                for r in scratch.operators:
                    if len(r) < 2:
                        g += 1
                    else:
                        kinds.setdefault(g, set()).add(r[1])
                if not all(homogeneous_group(k) for k in kinds.values()):
                    continue
            fac.insert_operator(ins['ex'], ins['bin'], ins['sym'], ins['ty'], ins['cg'], ins['alias'])
            if rng.random() < 0.25:
                ins['created'] = True       # the factory had already produced an engine when this insert was made
            out.append(ins)
            break
    return out


# ---------------------------------------------------------------- comparison

def tighten(text, symbols):
    """drop the single blanks of `a b` where `a`'s last and `b`'s first character are of different kinds (word
    character vs punctuation) and no operator symbol, number, `$name` or `name(` could form across the seam"""
    toks = text.split(' ')
    if any(t == '' for t in toks):
        return text
    word = lambda ch: ch.isalnum() or ch == '_'          # noqa: E731
    out = toks[0]
    for t in toks[1:]:
        a, b = out[-1], t[0]
        glue = word(a) != word(b) and a not in '\'"`' and b not in '\'"`'
        if glue and not word(b):
            # left is a word / number / $name, right punctuation: `1.` + digit, `f(` (a call token), `$x(`
            if b in '.(' or any((a + b) in s for s in symbols):
                glue = False
        if glue and not word(a):
            # left punctuation, right a word: `$` + name, `.5`, an operator symbol that continues into the word
            tail = out[-3:]
            if a in '$.' and b.isdigit() or a == '$' or any(s.startswith(tail[-k:] + b) for s in symbols for k in (1, 2, 3) if len(tail) >= k and s != tail[-k:]):
                glue = False
        out += ('' if glue else ' ') + t
    return out


class Batch:
    """collects texts for one engine, runs real parser + oracle, then one model request"""

    def __init__(self, eng, drv, res, hist, use_oracle=True):
        self.eng, self.drv, self.res, self.hist = eng, drv, res, hist
        self.oracle = Oracle(eng) if use_oracle and eng.homogeneous else None
        self.pending = []      # (text, toks_json, real)
        self.seen = set()

    def add_random_tree(self, rng, depth, family):
        if self.oracle is None or self.eng.ambiguous:
            return
        try:
            tree = rand_tree(rng, self.oracle, depth, self.eng.delegates, self.eng.cap['table'].name_value_op)
        except NotApplicable:
            return
        self.add_tree(tree, family)

    def add_tree(self, tree, family):
        """a tree that satisfies WF by construction: its spelling must parse to exactly that tree"""
        text = render(self.oracle, tree, self.eng.cap['table'].name_value_op or '=>')
        self.add(text, family, expect=tree)
        # blanks between tokens are irrelevant (C02.whitespace_irrelevant): the same tree is dictated for the spelling
        # with the blanks removed wherever two neighbouring tokens cannot run into one another
        tight = tighten(text, [s for s in self.oracle.t])
        if tight != text and zlib.crc32(text.encode('utf8', 'replace')) % 2 == 0:
            self.add(tight, family + '-tight', expect=tree)

    def add(self, text, family, expect=None):
        if text in self.seen:
            return
        self.seen.add(text)
        eng = self.eng
        try:
            toks = lex(eng, text)
        except exceptions.YaqlLexicalException:
            self.hist['skipped_lexical'] = self.hist.get('skipped_lexical', 0) + 1
            return
        tj = [tok_json(eng, t) for t in toks]
        real = real_parse(eng, text)
        self.hist[family] = self.hist.get(family, 0) + 1
        self.hist['real_' + real[0]] = self.hist.get('real_' + real[0], 0) + 1
        self.res.case(common.digest([eng.label(), text]), nontrivial=len(tj) >= 3,
                      sample=dict(engine=eng.label(), text=text, outcome=real[0]) if self.res.evaluations % 5000 == 7 else None)
        # --- oracle on the real code alone
        if expect is not None and (real[0] != 'ok' or strip_alias(real[1]) != strip_alias(expect)):
            self.fail('oracle', 'dictated-tree', text, 'the table dictates %s, the parser gave %s' % (
                json.dumps(strip_alias(expect)), json.dumps(real[1] if real[0] == 'ok' else list(real))), tree=expect)
        elif real[0] == 'foreign' or real[0] == 'lexical':
            self.fail('oracle', 'not-a-grammar-error', text, 'parsing raised %s' % (real[1],))
        elif real[0] == 'grammar':
            pos = real[1]
            if pos is not None and pos not in [t.lexpos for t in toks]:
                self.fail('oracle', 'error-position', text,
                          'grammar error position %r is not the position of a token' % (pos,))
        elif self.oracle is not None:
            try:
                why = self.oracle.value(real[1])
                if why is None and self.oracle.yield_(real[1]) != [tok_sig(t) for t in tj]:
                    why = 'the tree does not spell the token sequence'
            except NotApplicable:
                why = None
            if why:
                key = 'tree-against-table'
                if eng.ambiguous:
                    try:
                        if Oracle(eng, token_level_suffix=True).value(real[1]) is None:
                            key = KNOWN_SUFFIX_KEY
                    except NotApplicable:
                        pass
                self.fail('oracle', key, text, 'real tree %s: %s' % (json.dumps(real[1]), why))
        self.pending.append((text, tj, real))
        if len(self.pending) >= 4000:
            self.flush()

    def fail(self, kind, key, text, what, tree=None):
        if key == KNOWN_SUFFIX_KEY:
            if getattr(self.res, 'suffix_binary_reported', False):
                return
            self.res.suffix_binary_reported = True
        self.res.fail(kind, key, '[%s] %r: %s' % (self.eng.label(), text, what),
                      dict(kind=self.eng.kind, delegates=self.eng.delegates, inserts=self.eng.inserts, text=text,
                           tree=tree))

    def flush(self):
        if not self.pending or self.drv is None:
            self.pending = []
            return
        req = dict(p='C02', op='parse', cases=[tj for _, tj, _ in self.pending])
        req.update(self.eng.spec())
        ans = self.drv.ask(req)
        if 'results' not in ans:
            self.fail('mismatch', 'model-table', self.pending[0][0], 'model cannot build the table: %r' % (ans,))
            self.pending = []
            return
        for (text, tj, real), m in zip(self.pending, ans['results']):
            self.res.traces += 1
            if real[0] == 'ok':
                same = m.get('ok') == real[1]
            elif real[0] == 'grammar':
                same = 'grammar' in m and m['grammar'] == real[1]
            else:
                same = True     # already reported by the oracle
            if not same:
                self.fail('mismatch', 'tree-or-position', text,
                          'real %s, model %s' % (json.dumps(real[1] if real[0] == 'ok' else list(real)), json.dumps(m)))
        self.pending = []


def split_groups(records):
    groups = [[]]
    for r in records:
        if len(r) < 2:
            groups.append([])
        else:
            groups[-1].append(tuple(r))
    return groups


def insert_contract(before, ins, after):
    """Transcription of C02.insert_same_group / insert_new_group / insert_front on the real lists: where the
    new record must be, everything else unchanged.  None if fine or not applicable, else a description."""
    gb = split_groups(before)
    if any(not g for g in gb):
        return None                      # empty groups: the theorems are stated for tidy lists
    new = (ins['sym'], ins['ty'], ins['alias'])
    if ins['ex'] is None:
        want = [[new]] + gb if ins['cg'] else [[new] + gb[0]] + gb[1:]
    else:
        types = BIN_TYPES if ins['bin'] else UN_TYPES
        gi = next((i for i, g in enumerate(gb) for r in g if r[0] == ins['ex'] and r[1] in types), None)
        if gi is None:
            return None if after is None else 'existing operator %r not in the list but no ValueError' % ins['ex']
        gi = next(i for i, g in enumerate(gb) if any(r[0] == ins['ex'] and r[1] in types for r in g))
        want = gb[:gi + 1] + [[new]] + gb[gi + 1:] if ins['cg'] else gb[:gi] + [gb[gi] + [new]] + gb[gi + 1:]
    if after is None:
        return 'ValueError although %r is in the list' % ins['ex']
    got = split_groups(after)
    if [[tuple(r) for r in g] for g in got] != [[tuple(r) for r in g] for g in want]:
        return 'groups after the call %s, expected %s' % (got, want)
    return None


EARLY_HIST = {}


class Routed:
    """stands for an engine that is reached some other way (a copy, a per-call copy): texts are tokenised by `lexer`,
    parsed by `call`"""

    def __init__(self, lexer, call):
        self.lexer, self.call = lexer, call

    def __call__(self, text):
        return self.call(text)


def history_texts(rng, eng, twin, n):
    """probe texts for an engine with a past: flat sequences over the symbols of its own table AND the symbols inserted
    into the factory at any time (under the engine's own table those spell other tokens - or nothing), blanks dropped
    at random"""
    syms = [r[0] for r in twin.records if len(r) > 1 and r[0] not in ('[]', '{}')]
    later = [i['sym'] for i in eng.inserts]
    out = []
    for _ in range(n):
        k = rng.randrange(1, 5)
        toks = []
        for i in range(k):
            if rng.random() < 0.3:
                toks.append(rng.choice(later + syms))
            toks.append(rng.choice(['$a', '1', '$b', '2', 'c', "'s'"]))
            if rng.random() < 0.15:
                toks.append(rng.choice(later + syms))          # suffix position
            if i < k - 1:
                toks.append(rng.choice(later + later + syms))
        text = toks[0]
        for t in toks[1:]:
            text += ('' if rng.random() < 0.3 else ' ') + t
        out.append(text)
    return out


def check_history(eng, drv, rng, res, hist):
    """engine provenance x factory history: an engine parses by the operator table its factory had when create() made
    it (C02Hist.snapshot_kept) - the engine itself, copies of it made before and after the factory was edited, copies of
    copies, and engine(text, options=..) used after the edits.  Reference (real code alone): a fresh engine built from a
    fresh factory holding the operator list of that moment.  Model: `EngineHist.exec` names root and list per engine."""
    if not eng.hist:
        return
    fail_replay = dict(kind=eng.kind, delegates=eng.delegates, inserts=eng.inserts, text=None)
    if drv is not None:
        req = dict(p='C02', op='history', hops=eng.hops, inserts=[])
        req.update(base=[rec_json(r) for r in eng.base], delegates=eng.delegates)
        ans = drv.ask(req)
        res.traces += 1
        real = [dict(root=h['root'], snap=[rec_json(r) for r in h['records']], delegates=eng.delegates) for h in eng.hist]
        if ans.get('engines') != real:
            res.fail('mismatch', 'engine-history-model', '[%s] engines (root, operator list) real %s, model %s' % (
                eng.label(), json.dumps(real)[:300], json.dumps(ans.get('engines'))[:300]), fail_replay)
            return
    twins = {}
    for j, h in enumerate(eng.hist):
        root = h['root']
        if root not in twins:
            if h['k'] == len(eng.inserts) and hasattr(eng, 'twin_of_final'):
                twin = copy.copy(eng)
                twin.engine, twin.hist, twin.engine_copy = eng.twin_of_final, [], None
            else:
                try:
                    twin = Eng(eng.kind, eng.delegates, [dict(i, created=False) for i in eng.inserts[:h['k']]])
                except Exception:       # noqa - the list of that moment is not a valid table: nothing to compare
                    twin = None
            twins[root] = twin
            if twin is not None and [tuple(r) for r in twin.records] != [tuple(r) for r in h['records']]:
                twins[root] = None      # (cannot happen: the same calls on a fresh factory)
        twin = twins[root]
        if twin is None:
            continue
        routed = copy.copy(twin)
        routed.engine = Routed(twin.engine.lexer, h['engine'])
        routed.engine_copy = None
        routed.hist = []
        lab = '%s || engine #%d: %s; root engine #%d created after %d insert_operator calls' % (
            eng.label(), j, h['how'], root, h['k'])
        routed.label = lambda lab=lab: lab
        b = Batch(routed, drv, res, hist)
        b.replay_extra = dict(fail_replay)
        n0 = len(res.failures)
        for text in history_texts(rng, eng, twin, 30):
            a, t = real_parse_engine(h['engine'], text), real_parse_engine(twin.engine, text)
            hist['engine_history_texts'] = hist.get('engine_history_texts', 0) + 1
            hist['engine_history: ' + h['how'].split(' of [')[0]] = hist.get('engine_history: ' + h['how'].split(' of [')[0], 0) + 1
            if a != t:
                res.case('hist:%s:%s' % (lab, text), True)
                res.fail('oracle', 'engine-follows-later-table',
                         '[%s] parses %r as %s; the table the factory had when the root engine was created dictates %s '
                         '(a fresh engine from a fresh factory with that operator list)' % (
                             lab, text, json.dumps(a)[:200], json.dumps(t)[:200]),
                         dict(fail_replay, hist=j, probe=text))
                return
            b.add(text, 'engine_history')
        b.flush()
        for f in res.failures[n0:]:
            f.replay = dict(fail_replay, hist=j, probe=f.replay.get('text'))
        if len(res.failures) > n0:
            return


def real_parse_engine(engine, text):
    try:
        return dict(ok=tree_json(engine(text).expression))
    except exceptions.YaqlParsingException as e:
        return dict(err=type(e).__name__)
    except Exception as e:      # noqa
        return dict(foreign=type(e).__name__)


def check_inserts(eng, res):
    """oracle on the real insert_operator alone"""
    cur = eng.base
    for k, (ins, after) in enumerate(zip(eng.inserts, eng.steps)):
        why = insert_contract([tuple(r) for r in cur], ins, after)
        if why:
            res.fail('oracle', 'insert-operator', '[%s] insert_operator call #%d %r: %s' % (eng.label(), k, ins, why),
                     dict(kind=eng.kind, delegates=eng.delegates, inserts=eng.inserts[:k + 1], text=None))
            return
        if after is not None:
            cur = after


def check_table(eng, drv, res):
    """insert_operator / _build_operator_table / _generate_operator_funcs: model vs live objects"""
    check_inserts(eng, res)
    if getattr(eng, 'hist', None):
        check_history(eng, drv, common.make_rng(0, 'C02hist/' + eng.label()), res, EARLY_HIST)
    if drv is None:
        return
    req = dict(p='C02', op='table')
    req.update(eng.spec())
    ans = drv.ask(req)
    res.traces += 1
    rules = eng.cap['parser_rules']
    real = dict(
        steps=[None if s is None else [rec_json(r) for r in s] for s in eng.steps],
        operators=[rec_json(r) for r in eng.records],
        table=dict(ops=[[sym, up, bp, name, alias] for sym, (up, bp, name, alias) in eng.table.items()],
                   name_value_op=eng.cap['table'].name_value_op),
        generated=dict(precedence=[list(row) for row in rules.precedence],
                       binary_doc=rules.p_binary.__doc__, unary_doc=rules.p_unary.__doc__,
                       aliases=[[k, v] for k, v in rules._aliases.items()]))
    for key in ('steps', 'operators', 'table', 'generated'):
        if ans.get(key) != real[key]:
            res.fail('mismatch', 'operator-table', '[%s] %s: real %s, model %s' % (
                eng.label(), key, json.dumps(real[key]), json.dumps(ans.get(key))),
                dict(kind=eng.kind, delegates=eng.delegates, inserts=eng.inserts, text=None))
            return
    # oracle on the live tuple alone: ply levels order tokens by group (C02.ply_order_iso, on the real object)
    level = {}
    for i, row in enumerate(rules.precedence):
        for n in row[1:]:
            level[n] = (i + 1, row[0])
    for sym, (up, bp, name, alias) in eng.table.items():
        for sym2, (up2, bp2, name2, alias2) in eng.table.items():
            for (g1, n1) in ((abs(up), 'UNARY_' + name if bp else name), (abs(bp), name)):
                for (g2, n2) in ((abs(up2), 'UNARY_' + name2 if bp2 else name2), (abs(bp2), name2)):
                    if g1 and g2 and g1 < g2 and n1 in level and n2 in level and not level[n1][0] > level[n2][0]:
                        res.fail('oracle', 'tuple-order', '[%s] %r (group %d) is not tighter than %r (group %d) in the '
                                 'ply precedence tuple %r' % (eng.label(), sym, g1, sym2, g2, rules.precedence),
                                 dict(kind=eng.kind, delegates=eng.delegates, inserts=eng.inserts, text=None))
                        return
        for g, n, want in ((bp, name, None),):
            if g and n not in ('INDEXER', 'MAP'):
                if n not in level:
                    if eng.homogeneous:
                        res.fail('oracle', 'tuple-order', '[%s] binary operator %r has no ply precedence' % (
                            eng.label(), sym), dict(kind=eng.kind, delegates=eng.delegates, inserts=eng.inserts, text=None))
                        return
                elif level[n][1] != ('left' if g > 0 else 'right'):
                    res.fail('oracle', 'tuple-order', '[%s] binary operator %r declared %s but ply row says %s' % (
                        eng.label(), sym, 'left' if g > 0 else 'right', level[n][1]),
                        dict(kind=eng.kind, delegates=eng.delegates, inserts=eng.inserts, text=None))
                    return


def shrink(eng, drv, text, failing):
    """delete windows of 1-4 adjacent words while `failing(text)` stays true"""
    ws = text.split(' ')
    progress = True
    while progress and len(ws) > 1:
        progress = False
        for width in (4, 3, 2, 1):
            i = 0
            while i + width <= len(ws) and len(ws) > width:
                cand = ws[:i] + ws[i + width:]
                if failing(' '.join(cand)):
                    ws, progress = cand, True
                else:
                    i += 1
    return ' '.join(ws)


def subtrees(e):
    """smaller value trees to try instead of e: its value children, and e with one child replaced by a leaf"""
    if not isinstance(e, list) or e[0] in ('const', 'kw', 'ctx'):
        return
    start = {'bin': 3, 'un': 3, 'wrap': 1, 'index': 1, 'call': 1, 'list': 1, 'map': 1, 'func': 2, 'mr': 1}[e[0]]
    for i in range(start, len(e)):
        c = e[i]
        if isinstance(c, list) and c[0] != 'mr':
            yield c
        elif isinstance(c, list):
            yield c[1]
            yield c[2]
    for i in range(start, len(e)):
        c = e[i]
        if isinstance(c, list) and c[0] not in ('const', 'kw', 'ctx'):
            for sub in subtrees(c):
                if (c[0] == 'mr') == (isinstance(sub, list) and sub[0] == 'mr'):
                    yield e[:i] + [sub] + e[i + 1:]
            if c[0] != 'mr':
                yield e[:i] + [LEAVES[1][0]] + e[i + 1:]
    if e[0] in ('index', 'call', 'list', 'map', 'func') and len(e) > start + (1 if e[0] in ('index', 'call') else 0):
        yield e[:-1]


def shrink_tree(eng, drv, tree):
    def failing(t):
        r = common.Result()
        b = Batch(eng, drv, r, {})
        if b.oracle is None or b.oracle.value(t) is not None:
            return False
        b.add_tree(t, 'shrink')
        return any(f.key == 'dictated-tree' for f in r.failures)
    progress = True
    while progress:
        progress = False
        for cand in subtrees(tree):
            try:
                if failing(cand):
                    tree, progress = cand, True
                    break
            except Exception:       # noqa
                continue
    return tree


def first_failure(eng, drv, text):
    """(kind, key) of the failure this text provokes, or None"""
    r = common.Result()
    b = Batch(eng, drv, r, {})
    b.add(text, 'shrink')
    b.flush()
    return (r.failures[0].kind, r.failures[0].key) if r.failures else None


def run(env, res):
    drv = env['driver']
    tier = env['tier']
    thorough = tier == 'thorough'
    rng = common.make_rng(env['seed'], 'C02')
    hist = {}
    t0 = time.time()
    res.rule = ('a case = (engine, text); engines: default/legacy x delegates, and random custom tables built by '
                'insert_operator sequences; texts: exhaustive flat sequences of <=3 binary operators with <=2 prefix '
                'operators (thorough: all; quick: seeded slice), grammar-directed random expressions over all forms, '
                'flat sequences of up to 12 operators, token-level mutants and token soups; distinct = distinct '
                '(engine, text); non-trivial = at least 3 tokens')

    if env['replay']:
        rp = json.load(open(env['replay']))['case']
        eng = Eng(rp['kind'], rp['delegates'], rp['inserts'])
        check_table(eng, drv, res)
        if rp.get('text') is not None:
            b = Batch(eng, drv, res, hist)
            if rp.get('tree') is not None:
                b.add_tree(rp['tree'], 'replay')
            else:
                b.add(rp['text'], 'replay')
            b.flush()
        res.extra['histogram'] = hist
        return res

    engines = [Eng('default', False), Eng('default', True), Eng('legacy', False), Eng('legacy', True)]
    # the legacy factory's own insert_operator('or', True, '=>', BINARY_LEFT_ASSOCIATIVE, True)
    why = insert_contract([tuple(r) for r in factory.YaqlFactory(keyword_operator=None).operators],
                          dict(ex='or', bin=True, sym='=>', ty=OT.BINARY_LEFT_ASSOCIATIVE, cg=True, alias=None),
                          engines[2].base)
    if why:
        res.fail('oracle', 'insert-operator', "[legacy] YaqlFactory.__init__: insert_operator('or', True, '=>', "
                 "BINARY_LEFT_ASSOCIATIVE, True): %s" % why, dict(kind='legacy', delegates=False, inserts=[], text=None))
    for e in engines:
        check_table(e, drv, res)

    def finish_batch(b):
        b.flush()

    # 1. exhaustive family on the default and the legacy table
    frac = 1.0 if thorough else 0.035
    for e in engines[0], engines[2]:
        b = Batch(e, drv, res, hist)
        for text in exhaustive(e):
            if frac < 1.0 and rng.random() >= frac and text.count(' ') > 4:
                continue
            b.add(text, 'exhaustive_' + e.kind)
        finish_batch(b)
    hist['exhaustive_complete'] = thorough

    # 2. all forms, flat long sequences, mutants, soups on the four standard engines
    n_rand = 6000 if thorough else 1200
    for e in engines:
        b = Batch(e, drv, res, hist)
        for _ in range(n_rand):
            text = rand_expr(rng, e, rng.choice([2, 3, 3, 4]))
            b.add(text, 'forms')
            if rng.random() < 0.5:
                b.add(mutate(rng, e, text), 'mutant')
        for _ in range(n_rand // 2):
            text = rand_flat(rng, e)
            b.add(text, 'flat12')
            if rng.random() < 0.3:
                b.add(mutate(rng, e, text), 'mutant')
        for _ in range(n_rand):
            b.add(soup(rng, e, rng.choice([3, 5, 8, 14])), 'soup')
        for _ in range(n_rand):
            b.add_random_tree(rng, rng.choice([2, 3, 3, 4]), 'dictated_trees')
        # long chains: every binary operator of the table, 9 .. 64 operands (a few up to 150)
        add_long_chains(b, rng, 'long_chains', per_op=5 if thorough else 4)
        add_long_chains(b, rng, 'long_chains', per_op=1, lengths=[(65, 150)])
        add_symbol_roles(b, 'symbol_roles')
        finish_batch(b)

    # 3. custom tables
    n_tables = 300 if thorough else 34
    built = 0
    for k in range(n_tables):
        wild = k % 7 == 6
        kind = rng.choice(['default', 'default', 'legacy'])
        delegates = rng.random() < 0.4
        ins = rand_inserts(rng, kind, delegates, homogeneous=not wild)
        try:
            e = Eng(kind, delegates, ins)
        except exceptions.InvalidOperatorTableException:
            hist['custom_invalid'] = hist.get('custom_invalid', 0) + 1
            continue
        except Exception as ex:     # noqa - the factory cannot build an engine for a valid table
            res.fail('oracle', 'engine-build', '[%s %s] factory.create() raised %r' % (kind, ins, ex),
                     dict(kind=kind, delegates=delegates, inserts=ins, text=None))
            continue
        built += 1
        hist['custom_homogeneous' if e.homogeneous else 'custom_mixed_groups'] = \
            hist.get('custom_homogeneous' if e.homogeneous else 'custom_mixed_groups', 0) + 1
        if e.ambiguous:
            hist['custom_with_suffix_and_binary_symbol'] = hist.get('custom_with_suffix_and_binary_symbol', 0) + 1
        check_table(e, drv, res)
        b = Batch(e, drv, res, hist)
        new_syms = [i['sym'] for i in ins]
        per = 260 if thorough else 220
        for j in range(per):
            q = rng.random()
            if q < 0.45:
                text = rand_flat(rng, e, 8)
            elif q < 0.85:
                text = rand_expr(rng, e, 3)
            else:
                text = soup(rng, e, 8)
            if q < 0.85 and rng.random() < 0.25:
                text = mutate(rng, e, text)
            b.add(text, 'custom')
            if j % 2 == 0:
                b.add_random_tree(rng, 3, 'custom_dictated_trees')
        # every pair (new operator, any operator) in flat position
        syms = [s for s in e.table if s not in ('[]', '{}')]
        for ns in set(new_syms):
            if ns not in e.table:
                continue
            for other in syms:
                for text in pair_texts(e, ns, other):
                    b.add(text, 'custom_pairs')
        # long chains of every inserted operator, of the operators of the groups it went into, and of a sample of the others
        mates = [s_ for s_ in syms if e.table[s_][1] and any(
            ns in e.table and abs(e.table[ns][1] or e.table[ns][0]) == abs(e.table[s_][1]) for ns in new_syms)]
        add_long_chains(b, rng, 'custom_long_chains', per_op=2,
                        only=set(new_syms) | set(mates) | set(rng.sample(syms, min(6, len(syms)))))
        add_symbol_roles(b, 'custom_symbol_roles')
        finish_batch(b)
        if len([f for f in res.failures if f.key != KNOWN_SUFFIX_KEY]) >= 8:
            break
    hist['custom_tables_built'] = built

    # 3b. fixed probes for group shapes the random tables may miss in a short run
    probes = [
        # a prefix operator sharing a group with right-associative binaries (the r-before-l split of the tuple)
        ('default', False, [dict(ex='->', bin=True, sym='!', ty=OT.PREFIX_UNARY, cg=False, alias='bang')]),
        # a prefix operator sharing a group with left-associative binaries
        ('default', False, [dict(ex='*', bin=True, sym='~', ty=OT.PREFIX_UNARY, cg=False, alias=None)]),
        # suffix operators: tightest group, a middle group of their own, loosest group
        ('default', True, [dict(ex=None, bin=True, sym='!', ty=OT.SUFFIX_UNARY, cg=True, alias=None, created=True),
                           dict(ex='+', bin=True, sym='?', ty=OT.SUFFIX_UNARY, cg=True, alias='q'),
                           dict(ex='->', bin=True, sym='!!', ty=OT.SUFFIX_UNARY, cg=True, alias=None, created=True)]),
        # new groups at the front, in the middle, at the end; word operator; prefix of an existing symbol
        ('legacy', False, [dict(ex=None, bin=True, sym='**', ty=OT.BINARY_RIGHT_ASSOCIATIVE, cg=True, alias='pow', created=True),
                           dict(ex='and', bin=True, sym='xor', ty=OT.BINARY_LEFT_ASSOCIATIVE, cg=True, alias=None),
                           dict(ex='=>', bin=True, sym='=>>', ty=OT.BINARY_RIGHT_ASSOCIATIVE, cg=True, alias=None, created=True),
                           dict(ex='not', bin=False, sym='<-', ty=OT.PREFIX_UNARY, cg=False, alias=None)]),
    ]
    probes.append(
        # a factory that keeps being edited after engines were taken from it; the new symbols run into existing lexemes
        ('default', False, [dict(ex='-', bin=True, sym='--', ty=OT.BINARY_LEFT_ASSOCIATIVE, cg=False, alias=None, created=True),
                            dict(ex='*', bin=True, sym='div', ty=OT.BINARY_LEFT_ASSOCIATIVE, cg=False, alias=None, created=True),
                            dict(ex='not', bin=False, sym='++', ty=OT.PREFIX_UNARY, cg=False, alias=None)]))
    # identifier-shaped operator words with underscores / digits / capitals in every role, on each kind of engine
    for kind, delegates in (('default', False), ('default', True), ('legacy', False)):
        probes.append((kind, delegates, [
            dict(ex='in', bin=True, sym='not_in', ty=OT.BINARY_LEFT_ASSOCIATIVE, cg=False, alias=None, created=kind == 'legacy'),
            dict(ex='not', bin=False, sym='is_set', ty=OT.PREFIX_UNARY, cg=False, alias='isset'),
            dict(ex='*', bin=True, sym='div2', ty=OT.BINARY_LEFT_ASSOCIATIVE, cg=False, alias=None),
            dict(ex='or', bin=True, sym='Or_Else', ty=OT.BINARY_RIGHT_ASSOCIATIVE, cg=True, alias=None),
            dict(ex=None, bin=True, sym='is_null', ty=OT.SUFFIX_UNARY, cg=True, alias=None),
            dict(ex='->', bin=True, sym='x2', ty=OT.SUFFIX_UNARY, cg=True, alias=None)]))
    for kind, delegates, ins in probes:
        try:
            e = Eng(kind, delegates, ins)
        except Exception as ex:     # noqa
            res.fail('oracle', 'engine-build', '[%s %s] factory.create() raised %r' % (kind, ins, ex),
                     dict(kind=kind, delegates=delegates, inserts=ins, text=None))
            continue
        check_table(e, drv, res)
        b = Batch(e, drv, res, hist)
        syms = [s_ for s_ in e.table if s_ not in ('[]', '{}')]
        for ns in set(i['sym'] for i in ins):
            for other in syms:
                for text in pair_texts(e, ns, other):
                    b.add(text, 'probe_pairs')
        for _ in range(250):
            b.add(rand_flat(rng, e, 6), 'probe_flat')
            b.add(rand_expr(rng, e, 3), 'probe_forms')
            b.add_random_tree(rng, 3, 'probe_dictated_trees')
        add_long_chains(b, rng, 'probe_long_chains', per_op=3)
        add_symbol_roles(b, 'probe_symbol_roles')
        finish_batch(b)

    # 4. a fixed probe: a suffix operator that shares its symbol with a binary operator
    try:
        probe = Eng('default', False, [dict(ex='->', bin=True, sym='*', ty=OT.SUFFIX_UNARY, cg=True, alias=None)])
    except Exception as ex:     # noqa
        res.fail('oracle', 'engine-build', 'factory.create() raised %r for the suffix/binary probe' % (ex,),
                 dict(kind='default', delegates=False, inserts=[], text=None))
        res.extra['histogram'] = hist
        return res
    check_table(probe, drv, res)
    b = Batch(probe, drv, res, hist)
    for text in ['1 + 2 *', '1 . a *', '1 * * 2', '1 * - 2', '1 * -2 * 3', '1 -> 2 *', '$a * [ 1 ]', '$a * [ 1 ] * 2',
                 '- 1 *', 'not 1 *', '1 * ( 2 )', '1 * )', '( 1 * )', 'f( 1 * , 2 * => 3 * )']:
        b.add(text, 'suffix_binary_probe')
    for _ in range(300):
        b.add(rand_flat(rng, probe, 6), 'suffix_binary_probe')
    finish_batch(b)

    # shrink what failed
    shrunk = []
    for f in res.failures[:6]:
        rp = f.replay
        if rp.get('text') is None:
            shrunk.append(f)
            continue
        try:
            e = Eng(rp['kind'], rp['delegates'], rp['inserts'])
            want = (f.kind, f.key)
            r2 = common.Result()
            b = Batch(e, drv, r2, {})
            if rp.get('tree') is not None:
                b.add_tree(shrink_tree(e, drv, rp['tree']), 'shrink')
            else:
                small = shrink(e, drv, rp['text'], lambda t: first_failure(e, drv, t) == want)
                b.add(small, 'shrink')
            b.flush()
            shrunk.append(r2.failures[0] if r2.failures else f)
        except Exception:       # noqa
            shrunk.append(f)
    # oracle failures first
    res.failures = sorted(shrunk, key=lambda f: f.kind != 'oracle') + res.failures[6:]
    hist.update(EARLY_HIST)
    hist['provenance_of_standard_batches'] = dict(PROVENANCE)
    res.extra['histogram'] = hist
    res.extra['wall_correspondence_s'] = round(time.time() - t0, 1)
    return res


def pair_texts(e, a, b):
    """flat texts exercising the relative binding of symbols a and b in every role they have"""
    ta, tb = e.table[a], e.table[b]
    out = []
    roles_a = [r for r, on in (('pre', ta[0] > 0), ('suf', ta[0] < 0), ('bin', ta[1] != 0)) if on]
    roles_b = [r for r, on in (('pre', tb[0] > 0), ('suf', tb[0] < 0), ('bin', tb[1] != 0)) if on]
    for ra in roles_a:
        for rb in roles_b:
            for x, rx, y, ry in ((a, ra, b, rb), (b, rb, a, ra)):
                if rx == 'bin' and ry == 'bin':
                    out.append('$a %s 1 %s b' % (x, y))
                elif rx == 'pre' and ry == 'bin':
                    out += ['%s $a %s 1' % (x, y), '$a %s %s 1 %s b' % (y, x, y)]
                elif rx == 'bin' and ry == 'suf':
                    out += ['$a %s 1 %s' % (x, y), '$a %s 1 %s %s b' % (x, y, x)]
                elif rx == 'pre' and ry == 'suf':
                    out.append('%s $a %s' % (x, y))
                elif rx == 'bin' and ry == 'pre':
                    out.append('$a %s %s 1' % (x, y))
                elif rx == 'suf' and ry == 'bin':
                    out.append('$a %s %s 1' % (x, y))
    return out


LEVEL_TEXT = ('Lean 4 theorems over a code-shaped model of insert_operator, _build_operator_table, '
              '_generate_operator_funcs and of the parser (an operator-precedence shift/reduce machine that applies '
              "ply's conflict rule over the generated precedence tuple). For EVERY operator table and token list: a "
              'successful parse yields a tree that satisfies the precedence predicate WF and spells exactly the token '
              'list (parse_sound); for every table in which no symbol is both suffix and binary, every WF tree is what '
              'the parser returns for its own spelling, so the dictated tree exists iff the parse succeeds and is unique '
              '(parse_roundtrip, parse_iff, parse_unique). Table layer, all lists: insert_operator puts the record at '
              "the end of the existing operator's group / in a new group right after it / at the front and changes "
              'nothing else (insert_same_group, insert_new_group, insert_front); in every list reachable from the '
              'standard ones by inserts every group number owns a key of the precedence dictionary, so the generating '
              'loop drops no row (levels_contiguous, reachable_populated); the tuple orders names by (group, r-before-l) '
              'and ply\'s reduce decision is a function of group and token associativity (ply_order_iso, reduce_by_group). '
              'Parser totality (C03, parser level): outcome is a tree, Grammar none at end of input, or Grammar p with p '
              'the position of the first token the machine cannot take. Tied to the code by kernel-checked equality with '
              'the operator lists, tables, tuples, docstrings and alias maps dumped from the live Parser objects '
              '(default, legacy, with/without delegates) and by differential runs of the compiled model against the '
              'real engine (exhaustive <=3 binary x <=2 prefix operators on both standard tables in the thorough tier, '
              'random forms, custom tables, dictated trees, token soups).')
LEVEL_NOTE = ("round 6: C02Chain - chains of operators of one ply level are left-deep on a 'left' row and right-deep on a 'right' row for "
              "EVERY number of operands and any operands closed against the level (parse_leftChain / parse_rightChain, one operator repeated: "
              "parse_repeat_left/right), a tree nesting the other way is never WF (no_right_nesting / no_left_nesting), instances for the live "
              "default table (default_and_chain, default_or_chain); correspondence: every binary operator of every table in chains of 9..150 "
              "operands, bare and embedded; identifier-shaped operator words with underscores / digits / capitals in the symbol pool; the smallest "
              "dictated trees for every symbol in every declared role. "
              "round 5: EngineHist model of one factory over time (insert / create / copy) with C02Hist.snapshot_kept and "
              "later_inserts_irrelevant (an engine and all its copies, whenever made, parse by the table of create() time, for every later "
              "history); tied by replaying the same host operations on real factories and comparing every descendant with a fresh engine "
              "of creation time. trusted: Lean kernel; ply's LALR(1) construction and conflict resolution (the model is a precedence "
              'machine, equivalence is differential); the real ply lexer tokenises in the correspondence; hand-written '
              'models Yaql/Model/OpTable.lean and Parser.lean. ply_order_iso assumes lexeme names are distinct across '
              'rows (kernel-checked for the live tables, not proved for the name generator in general). Known finding: '
              'a suffix operator sharing its symbol with a binary operator binds at the binary group (suffix-binary-symbol).')
TECHNIQUE = 'Lean 4 proof (stack-machine invariants, induction over trees and lists) + generated tables (decide +kernel) + differential parsing'
DESIGN_REF = 'DESIGN.md section 5, C02 (and C03 parser-level totality)'
