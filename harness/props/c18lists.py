"""C18 part (H): raw mutable host values shared between concurrent evaluations.

The shared prepared context of a host holds whatever the host stored in it: `context['hosts'] = [...]` keeps the
Python list as it is (Context.__setitem__ does not convert), an engine with yaql.convertInputData=False hands the
document's own lists / dicts / sets to the functions, a host function returns whatever object it likes.  Such values
are shared by every thread that evaluates in a child of that context, so a library function that changes one - even
for a moment - is seen by the others, and "the shared context is unchanged afterwards" is about their CONTENT too.

Generator: a sweep over the live registry - every FunctionDefinition reachable from `yaql.create_context()`, every
visible parameter whose live type check admits a raw list / dict / set (or a nested container node of one), spelled as
a function and as a method, the shared value reached through three routes (variable of the shared context, document of
an engine with convertInputData off, result of a host function), lambdas that contain a function call (so that a
`runner.call` scheduling point falls inside every lambda invocation) - plus plain readers of each value.
Cases: 2-3 threads whose statements reach the SAME shared object (an actor from the sweep, mates from the sweep or
the plain readers), all interleavings when the traces are short, <= 3-preemption systematic and random schedules
otherwise (scheduling points: `runner.call` entry - i.e. also inside the lambdas - and instrumented sources).
Oracle (real code alone, the one of part A): every thread's outcome == the same statement evaluated alone on a fresh
equal shared context, and the deep snapshot (variable VALUES, not only keys) of the shared context is unchanged - also
after every statement evaluated alone.
"""
import time

import common

LAMS = ['idf($)', '$', '[idf($), 1]', 'idf($) = idf($)', 'idf($1)']
FLAT = ('hl_int', 'hl_str', 'hd_flat', 'hs_int', 'hs_str')
# scalar fillers of the other parameters: values that OCCUR in the host values (an existing key / index / member) and values
# that do not (a new key, a new member) - `set(a, 1)` on {'a': 1, ..} and `add(1)` on {1, 2, 3} change nothing even in place
SCALARS = [(1, '1'), ('a', "'a'"), (True, 'true'), (1.5, '1.5'), (None, 'null'), (0, '0')]
SCALARS_FRESH = [(7, '7'), ('q', "'q'"), (True, 'true'), (2.5, '2.5'), (None, 'null')]


def registry(root):
    """every FunctionDefinition reachable from the library context, in a stable order"""
    out, seen = [], set()
    c = root
    while c is not None:
        for name, lst in getattr(c, '_functions', {}).items():
            for fd in lst:
                if id(fd) not in seen:
                    seen.add(id(fd))
                    out.append(fd)
        c = c.parent

    def key(fd):
        p = fd.payload
        return (fd.name, getattr(p, '__module__', ''), getattr(p, '__qualname__', ''), len(fd.parameters))
    return sorted(out, key=key)


def container_nodes(hostvals):
    """[(root name, access path as yaql text after the root, value)] of every mutable container node"""
    nodes = []

    def walk(name, path, v, depth):
        if isinstance(v, (list, dict, set)):
            nodes.append((name, path, v))
        if depth >= 2:
            return
        if isinstance(v, (list, tuple)):
            for i, x in enumerate(v[:3]):
                walk(name, path + '[%d]' % i, x, depth + 1)
        elif isinstance(v, dict):
            for k, x in sorted(v.items(), key=repr):
                if isinstance(k, str) and k.isidentifier():
                    walk(name, path + '.' + k, x, depth + 1)
                elif isinstance(k, int):
                    walk(name, path + '.get(%d)' % k, x, depth + 1)
    for name, mk in sorted(hostvals.items()):
        walk(name, '', mk(), 0)
    return nodes


def passes(vt, v, ctx, engine):
    try:
        return bool(vt.check(v, ctx, engine))
    except Exception:  # noqa
        return False


def visible(fd):
    from yaql.language import yaqltypes
    pos = sorted(((p.position, n, p) for n, p in fd.parameters.items()
                  if n not in ('*', '**') and p.position is not None
                  and not isinstance(p.value_type, yaqltypes.HiddenParameterType)), key=lambda t: t[0])
    kw = [(n, p) for n, p in fd.parameters.items()
          if n not in ('*', '**') and p.position is None and not isinstance(p.value_type, yaqltypes.HiddenParameterType)]
    return [(n, p) for _, n, p in pos], kw


def spell(fd, args, kwargs, method):
    name = fd.name
    allargs = list(args) + ['%s => %s' % kv for kv in kwargs]
    if name in ('#operator_.', '#operator_?.') and len(args) == 2:
        return '%s%s%s' % (args[0], name[len('#operator_'):], args[1])
    if name.startswith('#operator_') and len(args) == 2:
        return '(%s %s %s)' % (args[0], name[len('#operator_'):], args[1])
    if name.startswith('#unary_operator_') and len(args) == 1:
        return '(%s %s)' % (name[len('#unary_operator_'):], args[0])
    if name == '*equal' and len(args) == 2:
        return '(%s = %s)' % tuple(args)
    if name == '*not_equal' and len(args) == 2:
        return '(%s != %s)' % tuple(args)
    if name == '#indexer' and args:
        return '%s[%s]' % (args[0], ', '.join(args[1:]))
    if name == '#list':
        return '[%s]' % ', '.join(args)
    if name == '#map':
        return '{%s}' % ', '.join(args)
    if name.startswith('#property#') and len(args) == 1:
        return '%s.%s' % (args[0], name[len('#property#'):])
    if name.startswith('#') or name.startswith('*'):
        return None
    if method:
        if not args:
            return None
        return '%s.%s(%s)' % (args[0], name, ', '.join(allargs[1:]))
    return '%s(%s)' % (name, ', '.join(allargs))


def route_text(route, name, path):
    if route == 'var':
        return '$%s%s' % (name, path)
    if route == 'doc':
        return '$.%s%s' % (name, path)
    return "hv('%s')%s" % (name, path)


def sweep(world, rng, per_param):
    """-> [dict(text=, root=, fn=, raw=bool)]: one statement per (definition, collection parameter, admitted shared
    node, spelling, route, lambda)"""
    from yaql.language import specs, yaqltypes
    from props import c18
    nodes = container_nodes(c18.HOSTVALS)
    eng, root = world.engine_raw, world.root
    out = []
    seen = set()
    for fd in registry(root):
        pos, kw = visible(fd)
        params = pos + kw
        var = fd.parameters.get('*')
        admits = {}
        for n, p in params + ([('*', var)] if var is not None else []):
            vt = p.value_type
            if isinstance(vt, (yaqltypes.Lambda, yaqltypes.Keyword, yaqltypes.Constant, yaqltypes.YaqlExpression,
                               yaqltypes.MappingRule, yaqltypes.HiddenParameterType)):
                continue
            adm = [nd for nd in nodes if passes(vt, nd[2], root, eng)]
            if adm:
                admits[n] = adm
        if not admits:
            continue

        def filler(n, p, lam, fresh=False):
            vt = p.value_type
            if isinstance(vt, yaqltypes.Lambda):
                return lam
            if isinstance(vt, yaqltypes.Keyword):
                return 'a'
            if isinstance(vt, yaqltypes.StringConstant):
                return "'a'"
            if isinstance(vt, yaqltypes.BooleanConstant):
                return 'true'
            if isinstance(vt, yaqltypes.Constant):
                return '1'
            if isinstance(vt, yaqltypes.YaqlExpression):
                return 'len()'
            if isinstance(vt, yaqltypes.MappingRule):
                return '1 => 2'
            for v, text in (SCALARS_FRESH if fresh else SCALARS):
                if passes(vt, v, root, eng):
                    return text
            if n in admits:
                nd = admits[n][0]
                return '$%s%s' % (nd[0], nd[1])
            return '1'

        has_lambda = any(isinstance(p.value_type, yaqltypes.Lambda) for _, p in params)
        # the function calls back into yaql (lambdas, injected delegates): scheduling points fall INSIDE it
        calls_back = has_lambda or any(isinstance(p.value_type, (yaqltypes.Delegate, yaqltypes.Super))
                                       for p in fd.parameters.values())
        spellings = ([False] if fd.is_function else []) + ([True] if fd.is_method else [])
        for target, adm in sorted(admits.items()):
            # per container type the type admits: a flat value of scalars (what most functions work on without an
            # error), then a sample of the other nodes (nested values, sub-nodes reached through an access path)
            picks = []
            for typ in (list, dict, set):
                of = [nd for nd in adm if type(nd[2]) is typ]
                flat = [nd for nd in of if nd[1] == '' and nd[0] in FLAT]
                if flat:
                    picks.append(rng.choice(flat))
                rest = [nd for nd in of if nd not in picks]
                rng.shuffle(rest)
                picks += rest[:per_param - 1 if flat else per_param]
            for nd in picks:
                for method in spellings:
                    lams = [LAMS[0], rng.choice(LAMS[1:])] if has_lambda else ['$']
                    for li, lam in enumerate(lams):
                        # both kinds of scalar fillers for the first lambda, one of them (seeded) for the others
                        for fresh in ((False, True) if li == 0 else (rng.random() < 0.5,)):
                            route = rng.choice(['var', 'var', 'doc', 'fn'])
                            tgt = route_text(route, nd[0], nd[1])
                            last = max([i for i, (n, p) in enumerate(pos)
                                        if p.default is specs.NO_DEFAULT or n == target
                                        or isinstance(p.value_type, yaqltypes.Lambda)] + [-1])
                            args = [(tgt if n == target else filler(n, p, lam, fresh))
                                    for i, (n, p) in enumerate(pos) if i <= last]
                            if target == '*':
                                args = [filler(n, p, lam, fresh) for n, p in pos] + [tgt]
                            elif var is not None and last == len(pos) - 1:
                                args.append(filler('*', var, lam, fresh))       # `*values`: at least one value
                            kwargs = [(p.alias or n, tgt if n == target else filler(n, p, lam, fresh)) for n, p in kw
                                      if n == target or p.default is specs.NO_DEFAULT]
                            text = spell(fd, args, kwargs, method)
                            if text is None or text in seen:
                                continue
                            seen.add(text)
                            out.append(dict(text=text, root=nd[0], fn=fd.name, raw=route == 'doc', inside=calls_back))
    # plain readers of every shared value: the value itself (finalised = read to the leaves), its size, its members
    for name in sorted(c18.HOSTVALS):
        for route in ('var', 'doc', 'fn'):
            t = route_text(route, name, '')
            for text in (t, '%s.len()' % t, '[%s.len(), %s]' % (t, t)):
                out.append(dict(text=text, root=name, fn='<reader>', raw=route == 'doc'))
    return out


def part_h(seed, tier, deadline):
    """-> dict(stats, fails, sigs, samples), like part_a"""
    import sched
    from props import c18
    rng = common.make_rng(seed, 'C18-H')
    owners = c18.Owners()
    owners.install()
    uninstall = c18.install_call_point()
    stats = dict(statements=0, cases=0, alone_checked=0, schedules_exhaustive=0, schedules_preempt=0, schedules_random=0,
                 threads={}, outcomes={}, routes={}, functions=0, roots={}, switches=0, dropped=0, bounded_engine=0)
    fails, sigs, samples, soft = [], [], [], {}
    t0 = time.time()
    try:
        R = c18.StmtRunner(owners, hostvals=True)
        pool = sweep(R.world, rng, 2 if tier == 'quick' else 6)
        stats['statements'] = len(pool)
        stats['functions'] = len(set(c['fn'] for c in pool))
        by_root = {}
        for c in pool:
            by_root.setdefault(c['root'], []).append(c)
        readers = dict((r, [c for c in cs if c['fn'] == '<reader>']) for r, cs in by_root.items())
        order = [i for i, c in enumerate(pool) if c['fn'] != '<reader>']
        rng.shuffle(order)
        # actors whose function has scheduling points inside it (lambdas, delegates) first: only there can another thread
        # run between two steps of the function under test
        order.sort(key=lambda i: not pool[i].get('inside'))
        stats['statements_with_points_inside'] = sum(1 for i in order if pool[i].get('inside'))
        alone_ok = {}

        def dkind(c):
            """the engine the statement runs on: a default one unless the statement does not end on its own"""
            if 'lim' not in c:
                o = R.baseline(c['text'], 'rawlim' if c['raw'] else 'lim')
                c['lim'] = o[0] == 'raise' and o[1] in ('CollectionTooLargeException', 'MemoryQuotaExceededException',
                                                         'RecursionError', 'MemoryError')
                stats['bounded_engine'] += c['lim']
            if c['lim']:
                return 'rawlim' if c['raw'] else 'lim'
            return 'raw' if c['raw'] else 0

        def alone(c):
            """the statement evaluated alone in a child of a fresh shared context: the context must be unchanged"""
            k = c['text']
            if k not in alone_ok:
                stats['alone_checked'] += 1
                try:
                    f, s = R.run([c['text']], [dkind(c)], ['own'], [])
                except c18.HarnessProblem:
                    alone_ok[k] = False
                    stats['dropped'] += 1
                    return False
                o = R.baseline(c['text'], dkind(c))
                ok = o[0] if o[0] == 'ret' else o[1]
                stats['outcomes'][ok] = stats['outcomes'].get(ok, 0) + 1
                if f is not None:
                    f['what'] = 'one evaluation, no other thread: ' + f['what']
                    if f['kind'] == 'oracle':
                        fails.append(f)
                    else:
                        soft.setdefault(f['key'], f)
                alone_ok[k] = f is None or f['kind'] != 'oracle'
            return alone_ok[k]

        def one(texts, datas, styles, schedule, kind):
            f, s = R.run(texts, datas, styles, schedule)
            stats['schedules_' + kind] += 1
            sw = sum(1 for a, b in zip(s.trace, s.trace[1:]) if a != b)
            stats['switches'] += sw
            sigs.append([common.digest(['H', texts, datas, styles, s.trace]), len(set(texts)) > 1 and sw >= 2])
            if len(samples) < 2 and sw >= 2:
                samples.append(dict(kind='stmt', texts=texts, datas=datas, styles=styles, schedule=s.trace, hostvals=True))
            if f is not None and f['kind'] == 'oracle':
                fails.append(c18.shrink_stmt(R, f))
                return False
            if f is not None:
                soft.setdefault(f['key'], f)
            return True

        # phase 1: EVERY statement of the sweep alone (the shared context must be unchanged afterwards)
        for c in pool:
            if fails:
                break
            alone(c)
        stats['seconds_alone'] = round(time.time() - t0, 1)
        # phase 2: groups of statements that reach the same shared object, interleaved
        for ci in order:
            if fails or time.time() > deadline:
                break
            actor = pool[ci]
            if not alone(actor):
                continue
            k = rng.choice([2, 2, 2, 3])
            mates = []
            for _ in range(k - 1):
                r = rng.random()
                if r < 0.45:
                    m = rng.choice(readers[actor['root']])         # a plain reader of the same shared value
                elif r < 0.6:
                    m = actor                                       # the same statement in two threads
                else:
                    m = rng.choice(by_root[actor['root']])         # another function over the same shared value
                mates.append(m)
            if not all(alone(m) for m in mates):
                continue
            group = [actor] + mates
            texts = [c['text'] for c in group]
            datas = [dkind(c) for c in group]
            styles = [rng.choice(['shared', 'own']) for _ in group]
            try:
                counts = [R.steps(t, d) for t, d in zip(texts, datas)]
            except c18.HarnessProblem:
                stats['dropped'] += 1
                continue
            stats['cases'] += 1
            stats['threads'][str(k)] = stats['threads'].get(str(k), 0) + 1
            stats['roots'][actor['root']] = stats['roots'].get(actor['root'], 0) + 1
            for c in group:
                r = 'doc' if c['raw'] else 'fn' if c['text'].find("hv('") >= 0 else 'var'
                stats['routes'][r] = stats['routes'].get(r, 0) + 1
            total = sum(counts)
            if total <= (9 if tier == 'quick' else 11) and k == 2:
                alls = list(sched.interleavings(counts))
                if len(alls) > 40:
                    rng.shuffle(alls)
                    alls = alls[:40]
                for sc in alls:
                    if not one(texts, datas, styles, sc, 'exhaustive'):
                        break
            else:
                # the actor is stopped at one of its scheduling points (after its 1st, 2nd, ... dispatch: inside the
                # lambdas of the function under test), the mates run to completion, the actor finishes: every position
                # when there are few, a spread sample otherwise; then <= 3-preemption and random schedules
                a = counts[0]
                npos = 6 if tier == 'quick' else 10
                cuts = list(range(1, a)) if a - 1 <= npos else sorted(rng.sample(range(1, a), npos))
                scheds = [[0] * j + [i for i in range(1, k) for _ in range(counts[i])] for j in cuts]
                scheds = [(sc, 'preempt') for sc in scheds]
                scheds += [(sc, 'preempt') for sc in c18.preemption_schedules(counts, 3, 3 if tier == 'quick' else 8, rng)]
                for _ in range(2):
                    sc = [i for i, c in enumerate(counts) for _ in range(c)]
                    rng.shuffle(sc)
                    scheds.append((sc, 'random'))
                for sc, kd in scheds:
                    if not one(texts, datas, styles, sc, kd):
                        break
        stats['ctx_writes'] = owners.writes['context']
    finally:
        uninstall()
        owners.uninstall()
    fails += list(soft.values())
    for f in fails:
        f['what'] = f['what'][:1500]
    return dict(stats=stats, fails=fails, sigs=sigs, samples=samples)


# ====================================================================== (C2) correspondence with Model/SharedList.lean

def gen_list_case(rng, size):
    nl = rng.choice([1, 1, 2, 3])
    shared = [[[rng.randrange(4), rng.randrange(4)] for _ in range(rng.choice([0, 1, 2, 3, 4, 5] if size != 'tiny' else [0, 1, 2, 3]))]
              for _ in range(nl)]
    k = 2 if size == 'tiny' else rng.choice([2, 2, 3])
    progs = []
    for _ in range(k):
        prog = []
        for _ in range(rng.randrange(1, 3 if size == 'tiny' else 4)):
            if rng.random() < 0.55:
                prog.append(['sortBy', rng.randrange(nl), rng.choice(['fst', 'snd', 'sum']), rng.random() < 0.6])
            else:
                prog.append(['read', rng.randrange(nl)])
        progs.append(prog)
    return dict(shared=shared, progs=progs)


def list_bodies(case):
    """the real objects: Python lists shared by the threads, the real queries.order_by over them with a key selector
    whose every call is a scheduling point"""
    import operator
    from yaql.standard_library import queries
    from props import c18
    lists = [[tuple(r) for r in l] for l in case['shared']]
    sels = {'fst': lambda r: r[0], 'snd': lambda r: r[1], 'sum': lambda r: r[0] + r[1]}

    def body(prog):
        def run():
            outs = []
            for op in prog:
                if op[0] == 'sortBy':
                    sel = sels[op[2]]

                    def selector(r, sel=sel):
                        c18._point()
                        return sel(r)
                    f = queries.order_by if op[3] else queries.order_by_descending
                    it = f(lists[op[1]], selector, operator.lt, operator.gt)
                    outs.append(['rows', [list(r) for r in it]])
                else:
                    outs.append(['rows', [list(r) for r in lists[op[1]]]])
                c18._point()
            return outs
        return run
    return lists, [body(p) for p in case['progs']]


def run_list_case(case, schedule):
    from props import c18
    lists, bodies = list_bodies(case)
    s = c18.Scheduler(bodies, timeout=30.0)
    c18.CUR[0] = s
    try:
        results = s.run(schedule)
    finally:
        c18.CUR[0] = None
    if s.hung:
        raise c18.HarnessProblem('list programs did not finish: %r' % (case,))
    real = [list(r[1]) if r and r[0] == 'ret' else ['RAISED'] + list(r[1:]) for r in results]
    return lists, s, real


def compare_lists(env, case, recs):
    """recs: [(trace, real results, real lists afterwards)] -> failure dict or None"""
    import json
    solo = None
    init = [[list(r) for r in l] for l in case['shared']]
    drv = env['driver']
    reps = [None] * len(recs)
    if drv is not None:
        reps = drv.ask({'p': 'C18', 'lists': [dict(mode='copy', shared=case['shared'], threads=case['progs'], sched=list(tr))
                                              for tr, _, _ in recs]})['lists']
    for (trace, real, after), rep in zip(recs, reps):
        rcase = dict(kind='lists', case=case, schedule=list(trace))
        real = json.loads(json.dumps(real))
        # the property's own oracle on the real code: results == alone, shared lists unchanged
        if solo is None:
            solo = []
            for i in range(len(case['progs'])):
                _, _, r1 = run_list_case(dict(shared=case['shared'], progs=[case['progs'][i]]), [])
                solo.append(json.loads(json.dumps(r1[0])))
        for i in range(len(real)):
            if real[i] != solo[i]:
                return dict(kind='oracle', key='interference',
                            what='programs %r over the shared host lists %r: thread %d under schedule %r returned %r; alone it '
                                 'returns %r' % (case['progs'], init, i, list(trace), real[i], solo[i]), case=rcase)
        if after != init:
            return dict(kind='oracle', key='shared-context-changed',
                        what='programs %r under schedule %r: the shared host lists were %r, are now %r' % (
                            case['progs'], list(trace), init, after), case=rcase)
        if rep is None:
            continue
        if rep['res'] != real or rep['wasted'] != 0 or rep['den'] != real or rep['shared'] != after:
            return dict(kind='mismatch', key='model-vs-code',
                        what='SharedList model and real order_by disagree under schedule %r: model %r (den %r, wasted steps %d, '
                             'shared %r), real %r (shared %r), programs %r' % (
                                 list(trace), rep['res'], rep['den'], rep['wasted'], rep['shared'], real, after, case['progs']),
                        case=rcase)
    return None


def part_c2(env, res, rng, hist, deadline):
    import sched
    from props import c18
    tier = env['tier']
    st = dict(cases=0, schedules=0, ops={}, threads={}, list_lengths={})
    n0 = len(res.failures)
    for ci in range(200 if tier == 'quick' else 5000):
        if len(res.failures) > n0 or time.time() > deadline:
            break
        case = gen_list_case(rng, ['tiny', 'mid', 'tiny', 'mid'][ci % 4])
        counts = []
        for p in case['progs']:
            _, s1, _ = run_list_case(dict(shared=case['shared'], progs=[p]), [])
            counts.append(s1.steps[0])
        st['cases'] += 1
        st['threads'][str(len(counts))] = st['threads'].get(str(len(counts)), 0) + 1
        for p in case['progs']:
            for op in p:
                st['ops'][op[0]] = st['ops'].get(op[0], 0) + 1
        for l in case['shared']:
            st['list_lengths'][str(len(l))] = st['list_lengths'].get(str(len(l)), 0) + 1
        if sum(counts) <= (10 if tier == 'quick' else 12) and len(counts) == 2:
            scheds = list(sched.interleavings(counts))
            if len(scheds) > 60:
                rng.shuffle(scheds)
                scheds = scheds[:60]
        else:
            scheds = c18.preemption_schedules(counts, 3, 12 if tier == 'quick' else 50, rng)
        for _ in range(2):
            sc = [i for i, c in enumerate(counts) for _ in range(c)]
            rng.shuffle(sc)
            scheds.append(sc)
        recs = []
        for sc in scheds:
            lists, s, real = run_list_case(case, sc)
            st['schedules'] += 1
            res.traces += 1
            sw = sum(1 for a, b in zip(s.trace, s.trace[1:]) if a != b)
            res.case(('lists', common.digest(case), tuple(s.trace)), nontrivial=sw >= 2,
                     sample=dict(kind='lists', case=case, schedule=s.trace) if st['cases'] == 2 and not recs else None)
            recs.append((list(s.trace), real, [[list(r) for r in l] for l in lists]))
        f = compare_lists(env, case, recs)
        if f is not None:
            res.fail(f['kind'], f['key'], f['what'], f['case'])
    hist['C2_shared_list_model'] = st
