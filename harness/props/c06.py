"""C06 - resolution does not depend on registration or iteration order.

Correspondence: overload families biased to several simultaneously compatible candidates (lattice types,
keyword-only parameters with and without defaults, */**, defaults the call leaves out) are
(a) registered on `ListContext`s (a Context subclass whose get_functions returns the overloads in a
prescribed order); every call is resolved under all permutations of every layer with <= 4 overloads
(random ones beyond) by the real `runner.call` and by the Lean model (whose layer lists are given in
the same order);
(b) registered - the same FunctionDefinition objects with their exclusive flags, some layers with only SOME
registrations saying exclusive=True - in every order (all permutations of the whole sequence for <= 4
overloads, per-layer permutations and random interleavings beyond) into fresh plain set-backed Context
chains through the public register_function, and the Lean model of register_function
(`Yaql.ResolveCtx.run`) is told the same registrations in the same order.
(c) held by OTHER CONTEXT SHAPES denoting the same family - a layer as a MultiContext whose members' overload
sets are unioned (1-3 members, every split, the member list in every order, members with one or with a common
parent) or as a LinkedContext - under enumeration orders of the members and registration orders (through the
MultiContext / LinkedContext or directly on the members); the Lean model is told the same construction
(`Op.multi` / `Op.linked`).  Payloads are plain defs, closures of ONE factory, lambdas or functions of a
factory-made class (same __module__ / __qualname__): an overload is its definition object, never its name.
(d) families over a class graph with MULTIPLE INHERITANCE over unrelated classes and with tuple-typed parameters
(shapes 'multi-inherit', 'nontransitive'): every overload accepts one value vector, and "more specific than" is
not transitive on the matches (A > B, B > C, A and C incomparable; histogram families:non-transitive-triple) -
all permutations as in (a)-(c).
(e) the phase AFTER winner selection: 'picky' parameter types (a PythonType subclass whose check() looks at the class
and whose convert() turns some VALUES down with ArgumentValueException, as date / identifier / JSON string types do),
so that the chosen overload's argument conversion fails while other overloads of the layer match - the outcome is
that ArgumentException in every order (model: Yaql.Resolve.callFinal, driver field "final").
Oracle (real code alone): ONE outcome - overload or error class, evaluation log, bound arguments - per
family and call across all enumeration AND registration orders; supported by plain set-backed
Contexts in subprocesses with different PYTHONHASHSEED / allocation patterns / registration orders."""
import itertools
import json
import os
import subprocess
import sys

import common
import resolvegen
import resolvelib as rl
import srcobl

ID = 'C06'
LEAN_MODULES = ['Yaql.Props.C06', 'Yaql.Props.C06Reg', 'Yaql.Props.C06Ctx', 'Yaql.Props.C06NonTrans',
                'Yaql.Props.C06Invoke'] + srcobl.modules('C06')   # Props/SrcResolve
P = 'Yaql.Props.C06.'
REQUIRED_THEOREMS = [P + n for n in (
    'perm_invariant', 'spec_perm_invariant', 'old_order_dependent', 'old_tuple_order_dependent',
    'visible_perm', 'stage_perm', 'choose_perm')] + [
    'Yaql.Props.C06Reg.' + n for n in (
        'register_perm_invariant', 'family_register_perm', 'resolve_register_perm_invariant', 'exclusive_any',
        'last_registration_wins_order_dependent')] + [
    'Yaql.Props.C06Ctx.' + n for n in (
        'run_nodup', 'ownLayerL_members_perm', 'resolve_members_perm_invariant',
        'resolve_child_of_members_perm_invariant', 'resolve_multi_register_perm_invariant',
        'keyed_merge_order_dependent')] + [
    'Yaql.Props.C06NonTrans.' + n for n in (
        'moreSpecific_asymm', 'nontransitive_triple_ambiguous', 'Ex.specialization_not_transitive',
        'Ex.nontransitive_every_order', 'Ex.pruned_order_dependent', 'Ex.pruned_agrees_on_transitive',
        'Ex.resolve_nontransitive_every_order')] + [
    'Yaql.Props.C06Invoke.' + n for n in (
        'callFinal_perm_invariant', 'conversion_failure_is_final', 'conversion_failure_every_order',
        'chooseFinal_perm', 'Ex.fallback_order_dependent')] + srcobl.theorems('C06')


def generate():
    return srcobl.generate('C06')     # re-translate runner._is_specialization_of


TRUSTED = ['resolvelib.ListContext: the enumeration order of a layer is what its get_functions returns',
           'resolvelib.enc_fd / enc_arg (encoding of the real objects for the model)',
           'the reading of exclusive=True: a layer is exclusive for a name when ANY registration of that name in it said '
           'so (a later non-exclusive registration does not take the flag back)',
           'resolvelib.Family: the same family held by plain Contexts, by MultiContexts (union of the members) and by '
           'LinkedContexts; the enumeration order of a MultiContext layer is controlled through its members']
ASSUMPTIONS = ['the enumeration order of one context is the same for the two passes of one choose_overload call '
               '(true for a set that is not mutated in between)']

LAT = ['Base', 'L', 'R', 'D', 'object']


def _p(name, ty, **kw):
    return dict(name=name, kind='pos', ty=ty, **kw)


def _o(fid, params, kind='function', nk=False):
    return dict(id=fid, kind=kind, nk=nk, params=params)


ABC = [_o(0, [_p('a', ['py', 'D', False]), _p('b', ['py', 'D', False])]),
       _o(1, [_p('a', ['py', 'L', False]), _p('b', ['py', 'Base', False])]),
       _o(2, [_p('a', ['py', 'Base', False]), _p('b', ['py', 'R', False])])]
HAND = [
    dict(layers=[dict(fns=ABC, x=False)], calls=[dict(args=[['tick', 1, 3], ['tick', 2, 3]], kw=[])]),
    # repaired by 9bf7e72 (was TypeError or Ambiguous by order): X(Base, object) A(object, Number) B(object, Integer)
    dict(layers=[dict(fns=[_o(0, [_p('a', ['py', 'Base', False]), _p('b', ['py', 'object', False])]),
                           _o(1, [_p('a', ['py', 'object', False]), _p('b', 'Number')]),
                           _o(2, [_p('a', ['py', 'object', False]), _p('b', 'Integer')])], x=False)],
         calls=[dict(args=[['tick', 1, 3], ['tick', 2, 6]], kw=[])]),
    # non-transitive specialization (Props/C06NonTrans): A(bool, L) > B(int, R) > C(object, LL), A || C; value (True, an E)
    dict(layers=[dict(fns=[_o(0, [_p('a', ['py', 'bool', False]), _p('b', ['py', 'L', False])]),
                           _o(1, [_p('a', ['py', 'int', False]), _p('b', ['py', 'R', False])]),
                           _o(2, [_p('a', ['py', 'object', False]), _p('b', ['py', 'LL', False])])], x=False)],
         calls=[dict(args=[['tick', 1, 7], ['tick', 2, 12]], kw=[])]),
    # the same through tuple types: A(bool, (L, str)) > B(int, LL) > C((int, str), L), A || C
    dict(layers=[dict(fns=[_o(0, [_p('a', ['py', 'bool', False]), _p('b', ['py', ['L', 'str'], False])]),
                           _o(1, [_p('a', ['py', 'int', False]), _p('b', ['py', 'LL', False])]),
                           _o(2, [_p('a', ['py', ['int', 'str'], False]), _p('b', ['py', 'L', False])])], x=False)],
         calls=[dict(args=[['tick', 1, 7], ['v', ['corpus', 12]]], kw=[])]),
]


RICH = ('kwonly-mix', 'star-mix', 'default-mix', 'rich')


# ---- multiple inheritance, unrelated classes, tuple-typed parameters (round 5: seeded change C06-10 was missed)
# the classes every value of the corpus is an instance of, most specific first (resolvelib: LL(L), E(LL, R), U, G(D, U))
SUPERS = {12: ['E', 'LL', 'L', 'R', 'Base', 'object'],              # an E
          13: ['G', 'D', 'L', 'R', 'Base', 'U', 'object'],          # a G
          3: ['D', 'L', 'R', 'Base', 'object'],                     # a D
          7: ['bool', 'int', 'object'],                             # True
          6: ['int', 'object']}                                     # 7
# for a value: triples (X, Y, Z) of its classes with X || Y, Y || Z and Z < X - the position that makes A(.., X),
# B(.., Y), C(.., Z) non-transitive when another position orders them A < B < C
TWISTS = {12: [('L', 'R', 'LL')],
          13: [('Base', 'U', 'D'), ('Base', 'U', 'L'), ('L', 'U', 'D'), ('R', 'U', 'D'), ('Base', 'U', 'R')]}
CHAINS = {12: [('E', 'LL', 'L'), ('LL', 'L', 'Base'), ('E', 'R', 'object'), ('LL', 'Base', 'object')],
          13: [('G', 'D', 'L'), ('D', 'R', 'Base'), ('G', 'U', 'object'), ('D', 'Base', 'object')],
          3: [('D', 'L', 'Base'), ('D', 'R', 'object'), ('L', 'Base', 'object')],
          7: [('bool', 'int', 'object')]}
OTHER = ['str', 'float', 'NoneType', 'U', 'LL', 'R']


def _py(c, nullable=False):
    return ['py', c, nullable]


def mi_type(rng, v):
    """a type the corpus value v satisfies: one of its classes, or a TUPLE of classes holding one of them"""
    c = rng.choice(SUPERS[v])
    r = rng.random()
    if r < 0.22:
        t = [c, rng.choice(OTHER)]
        rng.shuffle(t)
        return _py(t)
    if r < 0.30:
        return ['picky', c, False]          # convert() turns the G (and the second D) down
    return _py(c)


def gen_mi_family(rng, shape):
    """one layer (sometimes a second one behind it) of overloads that ALL accept one value vector; the types of a
    position are classes of its value (multiple inheritance: unrelated ones among them) or tuples of classes.
    'nontransitive': three of the overloads are built as A > B, B > C with A, C incomparable."""
    arity = rng.choice([2, 2, 3])
    vals = [rng.choice([12, 13, 12, 13, 3, 7]) for _ in range(arity)]
    names = ['a', 'b', 'c'][:arity]
    fns = []
    if shape == 'nontransitive':
        i, j = rng.sample(range(arity), 2)
        cols = [[_py(rng.choice(['object', SUPERS[v][-2]]))] * 3 for v in vals]
        if rng.random() < 0.6 and any(v in TWISTS for v in vals):
            # position i: a chain A < B < C; position j: X || Y, Y || Z, Z < X
            if vals[j] not in TWISTS:
                vals[j] = rng.choice([12, 13])
            if vals[i] not in CHAINS:
                vals[i] = rng.choice([12, 13, 3, 7])
            cols[i] = [_py(c) for c in rng.choice(CHAINS[vals[i]])]
            cols[j] = [_py(c) for c in rng.choice(TWISTS[vals[j]])]
        else:
            # tuple types are never ordered: A(a1, T), B(b1, b2), C(T', c2) with a1 < b1 and b2 < c2
            for k in (i, j):
                if vals[k] not in CHAINS:
                    vals[k] = rng.choice([12, 13, 3, 7])
            ci, cj = rng.choice(CHAINS[vals[i]]), rng.choice(CHAINS[vals[j]])
            a1, b1 = rng.choice([(0, 1), (1, 2), (0, 2)])
            b2, c2 = rng.choice([(0, 1), (1, 2), (0, 2)])
            tup = lambda v: _py(rng.sample([rng.choice(SUPERS[v]), rng.choice(OTHER)], 2))  # noqa: E731
            cols[i] = [_py(ci[a1]), _py(ci[b1]), tup(vals[i])]
            cols[j] = [tup(vals[j]), _py(cj[b2]), _py(cj[c2])]
        for r in range(3):
            fns.append([cols[k][r] for k in range(arity)])
        extra = rng.choice([0, 0, 0, 1, 2])
    else:
        extra = rng.choice([3, 3, 4, 4, 5])
    for _ in range(extra):
        fns.append([mi_type(rng, v) for v in vals])
    fid = 0
    out = []
    for tys in fns:
        out.append(_o(fid, [_p(n, t) for n, t in zip(names, tys)]))
        fid += 1
    rng.shuffle(out)
    layers = [dict(fns=out, x=False)]
    if rng.random() < 0.2:
        layers.append(dict(fns=[_o(fid, [_p(n, mi_type(rng, v)) for n, v in zip(names, vals)])], x=False))
    return layers, vals


def gen_family(rng):
    shape = rng.choice(['lattice', 'lattice', '1below2', 'lazy-mix', 'nk-mix', 'general', 'tuple-mix',
                        'kwonly-mix', 'kwonly-mix', 'star-mix', 'default-mix', 'rich', 'rich',
                        'multi-inherit', 'multi-inherit', 'nontransitive', 'nontransitive'])
    if shape in ('multi-inherit', 'nontransitive'):
        layers, vals = gen_mi_family(rng, shape)
        style = rng.choice(['def', 'def', 'factory', 'lambda', 'classfn'])
        if rng.random() < 0.5:
            for l in layers:
                for o in l['fns']:
                    o['py'] = dict(style=style, via=rng.choice(['fd', 'fd', 'fdconv', 'callable']),
                                   nameby=rng.choice(['arg', 'arg', 'deco']))
        return shape + ':' + ','.join(map(str, vals)), layers
    arity = rng.choice([1, 2, 2, 3])
    names = ['a', 'b', 'c'][:arity]
    fid = [0]
    p_kwonly = 0.45 if shape in ('kwonly-mix', 'rich') else 0.05
    p_star = 0.4 if shape in ('star-mix', 'rich') else 0.1
    p_default = 0.5 if shape in ('default-mix', 'rich') else 0.15

    def overload(tys, nk=False, kind='function'):
        ps = [_p(n, t) for n, t in zip(names, tys)]
        if rng.random() < p_default:
            for p in ps[rng.randrange(len(ps)):] if shape in RICH else ps[-1:]:
                p['default'] = ['corpus', rng.choice([3, 3, 4])]
        if rng.random() < 0.15:
            ps.insert(rng.randrange(len(ps) + 1), _p('h', rng.choice(['Context', 'Engine'])))
            seen = False
            for p in ps:
                if 'default' in p:
                    seen = True
                elif seen:
                    p['default'] = ['none']
        if rng.random() < p_star:
            ps.append(dict(name='rest', kind='star', ty=['py', rng.choice(['Base', 'Base', 'L', 'object']), False]))
        if rng.random() < p_kwonly:
            for k in range(rng.choice([1, 1, 2])):
                p = dict(name='k%d' % k, kind='kwonly', ty=['py', rng.choice(LAT), False])
                if rng.random() < 0.75:     # mostly defaulted: the call may leave it out
                    p['default'] = ['corpus', rng.choice([3, 3, 4])] if rng.random() < 0.9 else ['none']
                ps.append(p)
        if rng.random() < (0.3 if shape in RICH else 0.1):
            ps.append(dict(name='kws', kind='starstar', ty=['py', rng.choice(['object', 'Base']), False]))
        o = _o(fid[0], ps, kind, nk)
        fid[0] += 1
        return o

    p_picky = rng.choice([0.0, 0.15, 0.3, 0.45])

    def lat_types():
        # 'picky': a PythonType subclass of the same class whose convert() turns some values down (the second D, ..):
        # the phase after winner selection
        return [['picky' if rng.random() < p_picky else 'py', rng.choice(LAT), False] for _ in range(arity)]

    layers = []
    for li in range(rng.choice([1, 1, 1, 2, 2, 3])):
        n = rng.choice([2, 3, 3, 4, 4, 5, 6]) if li == 0 else rng.choice([1, 2, 3, 4])
        fns = []
        if shape == '1below2' and arity >= 2 and li == 0:
            extra = [['py', 'object', False]] * (arity - 2)
            fns = [overload([['picky' if rng.random() < p_picky else 'py', 'D', False],
                             ['picky' if rng.random() < p_picky else 'py', 'D', False]] + extra),
                   overload([['py', 'L', False], ['py', 'Base', False]] + extra),
                   overload([['py', 'Base', False], ['py', 'R', False]] + extra)]
            n = rng.choice([0, 0, 1, 2])
        for _ in range(n):
            tys = lat_types()
            nk = False
            if shape == 'lazy-mix' and rng.random() < 0.4:
                tys[rng.randrange(arity)] = 'Lambda'
            if shape == 'nk-mix':
                nk = rng.random() < 0.4
            if shape == 'tuple-mix' and rng.random() < 0.5:
                tys[rng.randrange(arity)] = rng.choice(['Number', 'Integer', ['py', 'object', False]])
            if shape == 'general':
                tys = [resolvegen.gen_type(rng) for _ in range(arity)]
            if li > 0 and rng.random() < 0.15:
                tys[rng.randrange(arity)] = 'Lambda'     # an outer layer whose laziness differs, if it is reached
            fns.append(overload(tys, nk))
        rng.shuffle(fns)
        layer = dict(fns=fns, x=False)
        r = rng.random()
        if r < 0.12:
            layer['x'] = True                           # every registration says exclusive=True
        elif r < 0.35:
            for o in rng.sample(fns, rng.randrange(1, len(fns) + 1)):
                o['x'] = True                           # only some of them do
        layers.append(layer)
    # how the payloads are written: plain defs, closures of ONE factory, lambdas, functions of a factory-made class
    # (the last three share __module__ and __qualname__ - an overload is identified by its definition object only)
    style = rng.choice(['def', 'def', 'factory', 'factory', 'lambda', 'classfn'])
    if rng.random() < 0.75:
        for l in layers:
            for o in l['fns']:
                o['py'] = dict(style=style, via=rng.choice(['fd', 'fd', 'fdconv', 'callable']),
                               nameby=rng.choice(['arg', 'arg', 'deco']))
                if rng.random() < 0.5:
                    o['py']['dseed'] = rng.randrange(1 << 30)
    return shape, layers


def gen_calls(rng, shape, layers):
    if ':' in shape:
        # the family's value vector, as probes / plain values / silent variables; sometimes one position differs
        vals = [int(v) for v in shape.split(':')[1].split(',')]
        pc = resolvegen.ProbeCounter()
        calls = []
        for k in range(2):
            vs = list(vals)
            if k == 1 and rng.random() < 0.5:
                vs[rng.randrange(len(vs))] = rng.choice([12, 13, 3, 4, 7, 14, 15])
            args = []
            for v in vs:
                form = rng.random()
                args.append(['tick', pc.next(), v] if form < 0.6 else ['v', ['corpus', v]] if form < 0.8 else
                            ['var', rl.SILENT + pc.next(), v])
            calls.append(dict(args=args, kw=[]))
        return calls
    allo = [o for l in layers for o in l['fns']]
    arity = max([len([p for p in o['params'] if p['kind'] == 'pos' and not resolvegen.is_hidden(p)])
                 for o in allo] + [1])
    kwonly = sorted({p['name'] for o in allo for p in o['params'] if p['kind'] == 'kwonly'})
    has_star = any(p['kind'] == 'star' for o in allo for p in o['params'])
    has_default = any('default' in p for o in allo for p in o['params'] if p['kind'] == 'pos')
    pc = resolvegen.ProbeCounter()
    calls = []

    def an_arg():
        v = rng.choice([3, 3, 4, 4, 1, 2, 0]) if shape != 'tuple-mix' else rng.choice([3, 6, 6, 5, 10])
        form = rng.random()
        a = ['tick', pc.next(), v] if form < 0.6 else ['v', ['corpus', v]] if form < 0.8 else \
            ['var', rl.SILENT + pc.next(), v]
        if shape == 'tuple-mix' and form > 0.9:
            a = ['c', 7]
        return a

    for _ in range(2):
        args, kw = [], []
        r = rng.random()
        if has_default and shape in RICH and r < 0.45:
            nargs = arity - rng.choice([1, 1, 2])           # defaults left to the overloads
        elif has_star and shape in RICH and r < 0.7:
            nargs = arity + rng.choice([1, 1, 2])           # extra arguments for *
        else:
            nargs = arity if r < 0.9 else rng.choice([arity - 1, arity + 1])
        for i in range(max(nargs, 0)):
            a = an_arg()
            if i >= 1 and rng.random() < 0.2 and i < 3:
                kw.append([['a', 'b', 'c'][i], a])
            elif has_default and shape in RICH and i < nargs - 1 and rng.random() < 0.06:
                args.append(['nv'])                         # skipped argument: needs a default
            else:
                args.append(a)
        for n in kwonly:
            if rng.random() < 0.25:
                kw.append([n, an_arg()])
        pykw = []
        for n, a in kw:
            if rng.random() < 0.5 and a[0] != 'v':
                args.append(['m', ['kwc', n], a])
            else:
                pykw.append([n, a])     # the way `call(name, args, kwargs)` passes keywords
        if rng.random() < 0.05:
            pykw.append(['zz', ['v', ['corpus', 3]]])
        calls.append(dict(args=args, kw=pykw))
    return calls


def reg_orders(rng, fam_spec, tier):
    """registration orders to try on fresh set-backed contexts: sequences of (layer, overload id).  All
    permutations of the whole sequence when the family has <= 4 overloads; otherwise every permutation of each
    layer of <= 4 overloads (the other layers before/after it in turn) plus random interleavings."""
    base = [(li, o['id']) for li in reversed(range(len(fam_spec))) for o in fam_spec[li]['fns']]
    if len(base) <= 4:
        return [list(p) for p in itertools.permutations(base)]
    out = [base]
    cap = 6 if tier == 'quick' else 24
    for li, layer in enumerate(fam_spec):
        ids = [(li, o['id']) for o in layer['fns']]
        rest = [x for x in base if x[0] != li]
        if len(ids) <= 1:
            continue
        perms = list(itertools.permutations(ids))
        if len(ids) > 3:
            perms = rng.sample(perms, cap) if len(ids) <= 5 else [tuple(rng.sample(ids, len(ids))) for _ in range(cap)]
        for k, p in enumerate(perms):
            out.append(list(p) + rest if k % 2 else rest + list(p))
    for _ in range(4):
        out.append(rng.sample(base, len(base)))
    return out


def orders(rng, fam_spec, tier):
    """enumeration orders to try: per layer all permutations if it has <= 4 overloads, else random ones;
    the other layers keep their order; plus random joint shuffles"""
    base = [[o['id'] for o in l['fns']] for l in fam_spec]
    out = [base]
    for li, ids in enumerate(base):
        if len(ids) <= 1:
            continue
        if len(ids) <= 4:
            perms = list(itertools.permutations(ids))[1:]
        else:
            perms = []
            for _ in range(12 if tier == 'quick' else 40):
                p = ids[:]
                rng.shuffle(p)
                perms.append(tuple(p))
        for p in perms:
            o = [x[:] for x in base]
            o[li] = list(p)
            out.append(o)
    if len(base) > 1:
        for _ in range(4):
            o = [x[:] for x in base]
            for x in o:
                rng.shuffle(x)
            out.append(o)
    return out


def enc_layers_in_order(fam, order):
    out = []
    for layer, ids in zip(fam.spec, order):
        fs = [rl.enc_fd(fam.fds[i], i) for i in ids if i in fam.fds]
        out.append(dict(fs=fs, x=fam.layer_exclusive(len(out))))
    return out


def outcome_key(r):
    return json.dumps([r.get('err', r.get('id')), r.get('delegate_error'), r['log'], r.get('bound')], sort_keys=True)


def realizations(rng, layers, tier):
    """other context shapes that denote the SAME family: per layer a shape ({} = plain Context)"""
    n = len(layers)
    out = []
    for _ in range(1 if tier == 'quick' else 3):
        shapes = [{} for _ in layers]
        r = rng.random()
        which = [0] if r < 0.55 else [rng.randrange(n)] if r < 0.8 else list(range(n))
        for li in which:
            nf = len(layers[li]['fns'])
            if rng.random() < 0.72:
                nm = rng.choice([2, 2, 3]) if nf > 1 else rng.choice([1, 2])
                split = [rng.randrange(nm) for _ in range(nf)]
                if rng.random() < 0.35:
                    split = [0] * nf            # all overloads in ONE member (the others are empty)
                shapes[li] = dict(k='multi', n=nm, split=split, morder=list(range(nm)),
                                  mparents=rng.choice(['first', 'first', 'all']))
            else:
                shapes[li] = dict(k='linked')
        out.append(shapes)
    return out


def with_shapes(layers, shapes):
    return [dict(l, shape=sh) if sh else l for l, sh in zip(layers, shapes)]


def member_orders(rng, shapes):
    """the same realization with the members of its MultiContexts listed in other orders"""
    out = []
    for li, sh in enumerate(shapes):
        if sh.get('k') == 'multi' and sh['n'] > 1:
            for p in list(itertools.permutations(range(sh['n'])))[1:]:
                s2 = [dict(x) for x in shapes]
                s2[li]['morder'] = list(p)
                out.append(s2)
    return out


def describe_shapes(shapes):
    return '/'.join('multi%d%s' % (sh['n'], sh['morder']) if sh.get('k') == 'multi' else sh.get('k', 'plain')
                    for sh in shapes)


def run_family(case, drv, rng, tier, hist=None, stats=None):
    """-> list of (kind, key, message)"""
    fam = rl.Family(case['layers'], ordered=True)
    ords = orders(rng, case['layers'], tier)
    calls = [rl.BuiltCall(c) for c in case['calls']]
    fails = []
    for fid, diffs in fam.table_fails[:1]:
        fails.append(('mismatch', 'definition-table', 'overload %d: %s' % (fid, '; '.join(diffs[:3]))))
    seen = [dict() for _ in calls]
    by_real = [dict() for _ in calls]        # per call: realization -> set of outcome keys

    def note(ci, label, what, r):
        seen[ci].setdefault(outcome_key(r), (what, r))
        by_real[ci].setdefault(label, set()).add(outcome_key(r))

    def against(m, r, what, key):
        if m is not None and 'final' in m:
            # the phase after choose_overload (Yaql.Resolve.callFinal): a convert() of the chosen overload that turns
            # the value down is the outcome - ArgumentException, no payload runs
            failed = r.get('delegate_error') == 'ArgumentException'
            if (m['final'] == 'conversion-failed') != failed and ('id' in r or failed):
                fails.append(('mismatch', 'conversion-phase', '%s: real %s, model %s' % (
                    what, 'ArgumentException out of the chosen delegate' if failed else
                    'payload %r ran' % r.get('id'), m['final'])))
        if m is None or 'delegate_error' in r:
            return
        m_out = m.get('err', m.get('id'))
        r_out = r.get('err', r.get('id'))
        mlog = [p for p in m['log'] if p < rl.SILENT]
        if m_out != r_out or mlog != r['log']:
            fails.append(('mismatch', key, '%s: real %r log %r, model %r log %r' % (what, r_out, r['log'], m_out, mlog)))
        elif 'id' in r and key == 'resolution' and rl.model_bound(fam.fds[r['id']], m) != r['bound']:
            fails.append(('mismatch', 'bound-vector', '%s: real bound %r, model %r' % (
                what, r['bound'], rl.model_bound(fam.fds[r['id']], m))))

    # ---- (a) enumeration orders on the chain of plain ListContexts
    models = None
    if drv:
        picky = rl.picky_rows(fam.fds)
        extra = dict(picky=picky, rejected=list(rl.REJECTED)) if picky else {}
        req = dict(p='Resolve', fams=[dict(layers=enc_layers_in_order(fam, o), calls=[c.enc() for c in calls], **extra)
                                      for o in ords])
        req['lat'] = rl.T.lattice()
        models = drv.ask(req)['out']
    for oi, o in enumerate(ords):
        for li, ids in enumerate(o):
            fam.set_order(li, ids)
        for ci, call in enumerate(calls):
            r = rl.run_real(fam, call)
            what = 'enumeration order %r' % (o,)
            note(ci, 'plain', what, r)
            against(models[oi][ci] if models is not None else None, r, '%s call %d' % (what, ci), 'resolution')
    if stats is not None:
        # how many candidates get past mapping / are type-compatible at once (rules transcription, base order)
        for li, layer in enumerate(case['layers']):
            fam.set_order(li, [o['id'] for o in layer['fns']])
        stats['mapped'] = max([rl.spec_resolve(fam, c).get('nmapped', 0) for c in calls] + [0])
        stats['compat'] = max([rl.spec_resolve(fam, c).get('nmatch', 0) for c in calls] + [0])
        stats['nontransitive'] = any(rl.spec_resolve(fam, c).get('nontransitive') for c in calls)
    n_orders = len(ords)
    # ---- (b) registration orders: the same overloads (with their exclusive flags) registered into fresh plain,
    # set-backed Contexts in every order; (c) the same family held by other context shapes - MultiContexts whose
    # members' sets make up a layer, LinkedContexts - under enumeration orders of the members, orders of the member
    # list and registration orders.  One outcome, and the one the model gives.
    runs = []           # (realization label, description, Family, enumeration order or None)
    if not case.get('no_reg_orders'):
        for ro in reg_orders(rng, case['layers'], tier):
            runs.append(('plain', 'registration order %r' % (ro,),
                         rl.Family(case['layers'], reg_order=ro, reuse=fam), None))
    if not case.get('no_shapes'):
        for shapes in (case['shapes'] if 'shapes' in case else realizations(rng, case['layers'], tier)):
            label = describe_shapes(shapes)
            lay = with_shapes(case['layers'], shapes)
            f3 = rl.Family(lay, ordered=True, reuse=fam)
            eo = orders(rng, case['layers'], tier)
            if len(eo) > 10:
                eo = eo[:1] + rng.sample(eo[1:], 9)
            for o in eo:
                runs.append((label, '%s, enumeration order %r' % (label, o), f3, o))
            for s2 in member_orders(rng, shapes):
                runs.append((label, 'members listed as %s' % describe_shapes(s2),
                             rl.Family(with_shapes(case['layers'], s2), ordered=True, reuse=fam), None))
            ros = reg_orders(rng, case['layers'], tier)
            for ro in ([ros[0]] + rng.sample(ros[1:], min(3, len(ros) - 1))):
                runs.append((label, '%s, registration order %r' % (label, ro),
                             rl.Family(lay, reg_order=ro, reuse=fam), None))
    n_orders += len(runs)
    rmodels = None
    if drv and runs:
        # the model of the context constructors and of register_function (Yaql.ResolveCtx.run) is told the same
        # construction and the same registrations in the same order
        rmodels = drv.ask(dict(p='Resolve', op='hist', lat=rl.T.lattice(),
                               hists=[f.model_hist(calls) for _, _, f, _ in runs]))['out']
    for ri, (label, what, f2, o) in enumerate(runs):
        if o is not None:
            for li, ids in enumerate(o):
                f2.set_order(li, ids)
        for ci, call in enumerate(calls):
            r = rl.run_real(f2, call)
            note(ci, label, what, r)
            against(rmodels[ri][ci] if rmodels is not None else None, r,
                    '%s call %d (model: exclusive = any registration said so; a MultiContext layer = union of its '
                    'members)' % (what, ci), 'registration-resolution')
    for ci, s in enumerate(seen):
        if hist is not None:
            r0 = next(iter(s.values()))[1]
            k = 'outcome:' + str(r0.get('err', 'conversion-failed-in-chosen-overload' if r0.get('delegate_error') ==
                                        'ArgumentException' else 'chosen'))
            hist[k] = hist.get(k, 0) + 1
            for label in by_real[ci]:
                k = 'realization:' + label.split('[')[0].split('/')[0]
                hist[k] = hist.get(k, 0) + 1
        if len(s) > 1:
            key = 'order-dependent' if any(len(v) > 1 for v in by_real[ci].values()) else 'context-shape-dependent'
            what = '; '.join('%s -> %s log %r' % (o, r.get('err', r.get('delegate_error', r.get('id'))), r['log'])
                             for o, r in list(s.values())[:3])
            fails.append(('oracle', key, 'call %d has %d outcomes across %d enumeration / registration orders and '
                          'context shapes holding the same family: %s' % (ci, len(s), n_orders, what)))
    return fails, n_orders, seen


def shrink(case, drv, rng, tier, kind, key):
    import copy

    def fails(c):
        try:
            fs, _, _ = run_family(c, drv, common.make_rng(0, 'shrink'), tier)
        except Exception:
            return False
        return any(f[0] == kind and f[1] == key for f in fs)
    import time
    deadline = time.time() + 25          # a shrunk input is a convenience: never spend minutes on it
    changed = True
    while changed and time.time() < deadline:
        changed = False
        cands = []
        for ci in range(len(case['calls'])):
            if len(case['calls']) > 1:
                c = copy.deepcopy(case)
                del c['calls'][ci]
                cands.append(c)
        for li, layer in enumerate(case['layers']):
            if len(case['layers']) > 1:
                c = copy.deepcopy(case)
                del c['layers'][li]
                for sh in c.get('shapes') or []:
                    del sh[li]
                cands.append(c)
            for oi in range(len(layer['fns'])):
                c = copy.deepcopy(case)
                del c['layers'][li]['fns'][oi]
                for sh in c.get('shapes') or []:
                    if sh[li].get('split') and oi < len(sh[li]['split']):
                        del sh[li]['split'][oi]
                cands.append(c)
                for pi in range(len(layer['fns'][oi]['params'])):
                    c = copy.deepcopy(case)
                    del c['layers'][li]['fns'][oi]['params'][pi]
                    cands.append(c)
                if layer['fns'][oi].get('x'):
                    c = copy.deepcopy(case)
                    del c['layers'][li]['fns'][oi]['x']
                    cands.append(c)
            if layer.get('x'):
                c = copy.deepcopy(case)
                c['layers'][li]['x'] = False
                cands.append(c)
        for si in range(len(case.get('shapes') or [])):
            c = copy.deepcopy(case)
            del c['shapes'][si]
            cands.append(c)
            for li, sh in enumerate(case['shapes'][si]):
                if sh:
                    c = copy.deepcopy(case)
                    c['shapes'][si][li] = {}
                    cands.append(c)
                if sh.get('k') == 'multi' and sh['n'] > 1:
                    c = copy.deepcopy(case)
                    c['shapes'][si][li]['n'] = sh['n'] - 1
                    c['shapes'][si][li]['morder'] = list(range(sh['n'] - 1))
                    cands.append(c)
                if sh.get('mparents') == 'all':
                    c = copy.deepcopy(case)
                    c['shapes'][si][li]['mparents'] = 'first'
                    cands.append(c)
        for li, layer in enumerate(case['layers']):
            for o in layer['fns']:
                if o.get('py'):
                    c = copy.deepcopy(case)
                    for l2 in c['layers']:
                        for o2 in l2['fns']:
                            o2.pop('py', None)
                    cands.append(c)
                    break
            break
        for ci, call in enumerate(case['calls']):
            for ai in range(len(call['args'])):
                c = copy.deepcopy(case)
                del c['calls'][ci]['args'][ai]
                cands.append(c)
            for ki in range(len(call.get('kw', []))):
                c = copy.deepcopy(case)
                del c['calls'][ci]['kw'][ki]
                cands.append(c)
        for c in cands:
            if time.time() > deadline:
                break
            if fails(c):
                case = c
                changed = True
                break
    return case


def subprocess_part(cases, nworkers, res, hist):
    """plain set-backed contexts in fresh interpreters: same outcome in every process"""
    payloads = []
    procs = []
    worker = os.path.join(os.path.dirname(os.path.dirname(os.path.abspath(__file__))), 'c06_worker.py')
    for w in range(nworkers):
        env = dict(os.environ, PYTHONHASHSEED=str(w * 7919 + 1))
        p = subprocess.Popen([sys.executable, '-W', 'ignore', worker], stdin=subprocess.PIPE, stdout=subprocess.PIPE,
                             env=env, text=True)
        procs.append(p)
        payloads.append(json.dumps(dict(seed=w, cases=cases)))
    outs = []
    for p, pl in zip(procs, payloads):
        try:
            o, _ = p.communicate(pl, timeout=300)
            outs.append(json.loads(o))
        except Exception as e:
            res.fail('mismatch', 'worker', 'subprocess worker failed: %r' % (e,), None)
            return
    hist['subprocess-workers'] = nworkers
    hist['subprocess-cases'] = len(cases)
    for ci, case in enumerate(cases):
        for k in range(len(case['calls'])):
            keys = {outcome_key(o[ci][k]) for o in outs}
            if len(keys) > 1:
                outsn = sorted({str(o[ci][k].get('err', o[ci][k].get('id'))) for o in outs})
                key = 'order-dependent'
                res.fail('oracle', key, 'set-backed contexts: call %d resolves differently in different processes: %r' % (
                    k, outsn), dict(layers=case['layers'], calls=case['calls'], mode='subprocess'))


def run(env, res):
    drv = env['driver']
    tier = env['tier']
    rng = common.make_rng(env['seed'], 'C06')
    n_fam = 1100 if tier == "quick" else 4500
    res.rule = ('overload families of 1-3 layers with 2-6 overloads of equal arity over the lattice Base>L,R>D (+ shapes: '
                'one-below-two-incomparable, lazy/eager mixes, no_kwargs mixes with keyword calls, general smart types, '
                'tuple/class mixes, keyword-only parameters with/without defaults, */**, defaults the call omits; layers '
                'exclusive through all or through only some of their registrations), 2 calls each with arguments that '
                'satisfy several overloads at once; every call under all permutations of the enumeration order of each '
                'layer of <= 4 overloads (random beyond) AND under all registration orders (<= 4 overloads: every '
                'permutation of the whole register_function sequence; beyond: per-layer permutations and random '
                'interleavings) on fresh set-backed contexts AND on another context shape holding the same family (a layer as '
                'a MultiContext of 1-3 members in every member order / as a LinkedContext; enumeration orders of the members, '
                'registration orders through the composite or on the members); payloads written as defs / closures of one '
                'factory / lambdas / class functions; distinct = distinct (family, calls); '
                'plus families over a class graph with multiple inheritance over unrelated classes (LL(L), E(LL, R), U, '
                'G(D, U)) and tuple-typed parameters in which every overload accepts one value vector, random or built as '
                'A > B, B > C, A || C (non-transitive specialization; counted in the histogram); 0-30 % of the class-typed '
                'parameters are PythonType subclasses whose convert() turns some values down after check() passed '
                '(conversion failure in the chosen overload); '
                'non-trivial = some call has >= 2 type-compatible candidates or an ambiguity')
    hist = {}
    if env['replay']:
        case = json.load(open(env['replay']))['case']
        fs, n, _ = run_family(case, drv, rng, tier, hist)
        res.case(common.digest(case), True, sample=case)
        res.traces += n
        for kind, key, msg in fs:
            res.fail(kind, key, msg, case)
        return res
    kept = []
    import time
    t0 = time.time()
    for k in range(len(HAND) + n_fam):
        if k < len(HAND):
            case, shape = HAND[k], 'hand'
        else:
            shape, layers = gen_family(rng)
            case = dict(layers=layers, calls=gen_calls(rng, shape, layers))
            case['shapes'] = realizations(rng, layers, tier)
        stats = {}
        try:
            fs, n, seen = run_family(case, drv, rng, tier, hist, stats)
        except rl.Unsupported:
            continue
        shape = shape.split(':')[0]
        hist['shape:' + shape] = hist.get('shape:' + shape, 0) + 1
        if stats.get('nontransitive'):
            # three simultaneously matching overloads of one layer with a > b, b > c, a and c incomparable
            hist['families:non-transitive-triple'] = hist.get('families:non-transitive-triple', 0) + 1
            hist['families:non-transitive-triple:' + shape] = hist.get('families:non-transitive-triple:' + shape, 0) + 1
        hist['orders'] = hist.get('orders', 0) + n
        for what in ('mapped', 'compat'):
            for lim in (2, 3, 4):
                if stats.get(what, 0) >= lim:
                    hist['families:%s>=%d' % (what, lim)] = hist.get('families:%s>=%d' % (what, lim), 0) + 1
        if stats.get('compat', 0) >= 3 and shape in RICH:
            hist['families:rich-shape,compat>=3'] = hist.get('families:rich-shape,compat>=3', 0) + 1
        for l in case['layers']:
            flags = [bool(l.get('x')) or bool(o.get('x')) for o in l['fns']]
            if any(flags):
                k2 = 'layer:exclusive-all' if all(flags) else 'layer:exclusive-some'
                hist[k2] = hist.get(k2, 0) + 1
            for o in l['fns']:
                for p_ in o['params']:
                    k2 = 'param:' + p_['kind'] + ('+default' if 'default' in p_ else '')
                    hist[k2] = hist.get(k2, 0) + 1
        nontrivial = any(next(iter(s.values()))[1].get('err') in (None, 'Ambiguous', 'TypeError') for s in seen)
        res.case(common.digest(case), nontrivial, sample=case if k < 2 else None)
        res.traces += n * len(case['calls']) if drv else 0
        if len(kept) < (150 if tier == 'quick' else 1000) and shape != 'hand':
            kept.append(case)
        done = set()
        for kind, key, msg in fs:
            if (kind, key) in done:
                continue
            done.add((kind, key))
            if len(res.failures) < 5:
                small = shrink(case, drv, rng, tier, kind, key)
                fs2, _, _ = run_family(small, drv, common.make_rng(0, 'shrink'), tier)
                msg = next((m for k2, ky, m in fs2 if k2 == kind and ky == key), msg)
                res.fail(kind, key, msg, small)
            else:
                res.fail(kind, key, msg, case)
        if len(res.failures) >= 10:
            break
    t1 = time.time()
    subprocess_part(kept, 4 if tier == 'quick' else 20, res, hist)
    hist['seconds:families'] = round(t1 - t0, 1)
    hist['seconds:subprocesses'] = round(time.time() - t1, 1)
    res.extra['histogram'] = hist
    return res


LEVEL_TEXT = ('Lean 4 theorems: perm_invariant - the code-shaped model of runner.call/choose_overload gives the same overload, '
              'bound arguments, evaluation log and error class for every layer-wise permutation of the overloads, in full, '
              'for every class graph, family and call (resolve = resolveSpec, and visible_perm, stage_perm, choose_perm show '
              'each stage of resolveSpec is a function of the overload set); C06NonTrans: "more specific than" is asymmetric '
              'but not transitive (unrelated classes under multiple inheritance, tuple-typed parameters), and three matches '
              'with A > B, B > C, not A > C are Ambiguous in EVERY enumeration order, for every class graph '
              '(nontransitive_triple_ambiguous; witnesses through the whole resolve by decide; pruned_order_dependent: a '
              'selection that drops candidates dominated by earlier matches is order dependent exactly there); C06Invoke: '
              'the phase after choose_overload - the chosen overload\'s argument conversion may fail after its check passed; '
              'log and FINAL outcome (payload ran / conversion failure of the chosen overload / error) are invariant under '
              'layer permutations for every conversion behaviour (callFinal_perm_invariant, conversion_failure_every_order; '
              'fallback_order_dependent: trying the other matches in enumeration order would not be); C06Ctx: in every reachable state each context holds '
              'a SET of definition objects (run_nodup), the layer of a MultiContext is the union of its members whatever the '
              'order of the member list (ownLayerL_members_perm), so calls from it and from its children do not depend on '
              'that order nor on the registration order (resolve_members_perm_invariant, '
              'resolve_multi_register_perm_invariant; keyed_merge_order_dependent: a merge keyed by payload name would); '
              'C06Reg.register_perm_invariant - the model of '
              'Context.register_function (sets of definitions, set of exclusive names) leaves the same contexts behind for '
              'every order of the same registrations, hence (family_register_perm, resolve_register_perm_invariant) every '
              'call from every context - plain, multi, linked - resolves the same; exclusive_any - a layer is exclusive '
              'iff some registration said so; old_order_dependent, old_tuple_order_dependent and '
              'last_registration_wins_order_dependent document the repaired / excluded sources of order dependence. Tie: '
              'real runner.call on contexts with a controlled enumeration order, all permutations, against the model given '
              'the same orders; the same families registered in all orders into fresh set-backed contexts against the '
              'model of register_function told the same orders; set-backed contexts in subprocesses.')
LEVEL_NOTE = ('trusted: Lean kernel; Yaql/Model/Types.lean, Resolve.lean, Context.lean, ResolveCtx.lean; ListContext as the '
              'means of controlling the enumeration order; the harness.')
TECHNIQUE = ('Lean 4 proof (permutation invariance stage by stage; commuting-fold argument for registrations) + exhaustive '
             'permutation replay of enumeration and registration orders on the real code')
DESIGN_REF = 'DESIGN.md section 5, C06'
