"""C16 - literals denote exactly the values they spell (+ the lexer half of C03).

Correspondence: the real ply lexer of a YaqlEngine (`engine.lexer.clone()` tokenisation) and the
parser's constants (`engine(text)` -> `Constant.value`, `.evaluate()`) against the compiled Lean
model `Yaql.Lexer.lexAll` / `nextTok` (lean/Yaql/Model/Lexer.lean) on the same texts, under the
default, the legacy and random custom operator tables.

Oracle (on the real code alone): "the literal built by the spelling function evaluates to exactly
the original value" - for strings in the three quote styles, integers, decimals, keywords; for
escape shapes the documented value, re-derived by the plain-Python transcription `ref_decode`
below; for every text the C03 lexer clause (only YaqlLexicalException, position inside the text
and naming the offending character).

Known finding K2 (`verbatim-unspellable`): a string with an odd run of backslashes before a back
quote, a newline or its end has no back-quoted spelling (theorem C16.verbatim_spellable_iff); the
oracle fails for exactly these strings in the verbatim style, anything else is a violation."""
import json
import zlib
import string
import sys
import unicodedata
from fractions import Fraction

import common
import floatref
import lexcfg
from yaql.language import exceptions, expressions
from yaql.language import factory as yfactory

ID = 'C16'
LEAN_MODULES = ['Yaql.Props.C16', 'Yaql.Props.C16Float', 'Yaql.Props.FloatRound', 'Yaql.Props.C03Lex', 'Yaql.Props.C16Result', 'Yaql.Props.C16Foreign']
REQUIRED_THEOREMS = [
    'Yaql.Props.C16.roundtrip_single', 'Yaql.Props.C16.roundtrip_double', 'Yaql.Props.C16.unescaped_self',
    'Yaql.Props.C16.escape_values', 'Yaql.Props.C16.unknown_escape_kept', 'Yaql.Props.C16.verbatim_identity',
    'Yaql.Props.C16.verbatim_spellable_iff', 'Yaql.Props.C16.verbatim_unspellable',
    'Yaql.Props.C16.int_literal', 'Yaql.Props.C16.dot_means_float', 'Yaql.Props.C16.keywords',
    'Yaql.Props.C16.func_before_keyword',
    'Yaql.Props.C16.literalFloat_spec',
    'Yaql.Props.FloatRound.roundRat_nearest', 'Yaql.Props.FloatRound.roundRat_exact', 'Yaql.Props.FloatRound.roundRat_tie_even',
    'Yaql.Props.FloatRound.roundRat_overflow_iff_rat', 'Yaql.Props.FloatRound.roundRat_mono_rat',
    'Yaql.Props.FloatRound.roundRat_congr_rat', 'Yaql.Props.FloatRound.roundRat_total',
    'Yaql.Props.C03Lex.nextTok_progress', 'Yaql.Props.C03Lex.lexical_position_inside',
    'Yaql.Props.C03Lex.conversions_total', 'Yaql.Props.C03Lex.lexFrom_step',
    'Yaql.Props.C16Result.literal_result_fixed',
    'Yaql.Props.C16Foreign.slash_is_no_escape', 'Yaql.Props.C16Foreign.foreign_word_is_keyword',
    'Yaql.Props.C16Foreign.exponent_is_no_number', 'Yaql.Props.C16Foreign.radix_separator_suffix_are_no_number',
    'Yaql.Props.C16Foreign.json_slash_escape_kept', 'Yaql.Props.C16Foreign.sign_is_an_operator',
]
TRUSTED = ["CPython's re engine, Unicode tables (\\w, \\d, int() of a digit), codecs 'unicode-escape', "
           "unicodedata name table: parameters / oracles of the model, read from the "
           "running interpreter for every code point sent (float() rounding is NOT trusted any more: the model computes the "
           "double of a literal itself, FloatRound.roundRat, proved nearest/ties-to-even/exact/monotone, and the real "
           "Constant.value is compared with it bit for bit)",
           'ply.lex rule ordering (function rules by line, string rules by decreasing regex length): modelled, '
           'differential only']
ASSUMPTIONS = ['lone surrogates are outside the model (Lean Char): an escape denoting one is reported as such by the '
               'model and compared separately; raw surrogates go to the real lexer only',
               'the CharCfg hypotheses (digit -> word, _ word, quotes/$/./(/blanks not word) are checked against '
               "the interpreter's classes at every run"]

STYLES = {'s': "'", 'd': '"', 'v': '`'}
SINGLE = {'\\': '\\', "'": "'", '"': '"', 'a': '\a', 'b': '\b', 'f': '\f', 'n': '\n', 'r': '\r', 't': '\t',
          'v': '\v'}


# ------------------------------------------------------------------ spelling functions + reference

def spell(style, s):
    """the spelling function of the property: the quoted literal that should read back as s"""
    q = STYLES[style]
    if style == 'v':
        return q + s.replace('`', '\\`') + q
    return q + s.replace('\\', '\\\\').replace(q, '\\' + q) + q


def verbatim_unspellable(s):
    """theorem C16.verbatim_spellable_iff: some maximal run of backslashes of odd length is followed
    by a back quote, a newline or the end of s"""
    i, n = 0, len(s)
    while i < n:
        if s[i] != '\\':
            i += 1
            continue
        j = i
        while j < n and s[j] == '\\':
            j += 1
        if (j - i) % 2 == 1 and (j == n or s[j] in '`\n'):
            return True
        i = j
    return False


def ref_decode(s, names):
    """plain-Python transcription of the documented escapes: returns str, or ('err', escape, offset).
    A backslash that starts none of the escape shapes stands for itself."""
    out, i, n = [], 0, len(s)
    while i < n:
        if s[i] != '\\' or i + 1 >= n:
            out.append(s[i])
            i += 1
            continue
        c = s[i + 1]
        if c in 'Uux':
            k = {'U': 8, 'u': 4, 'x': 2}[c]
            body = s[i + 2:i + 2 + k]
            if len(body) == k and '\n' not in body:
                if all(ch in string.hexdigits for ch in body) and int(body, 16) <= 0x10FFFF:
                    out.append(chr(int(body, 16)))
                    i += 2 + k
                    continue
                return ('err', s[i:i + 2 + k], i)
        elif c in '01234567':
            j = i + 1
            while j < n and j < i + 4 and s[j] in '01234567':
                j += 1
            out.append(chr(int(s[i + 1:j], 8)))
            i = j
            continue
        elif c == 'N' and s[i + 2:i + 3] == '{':
            j = s.find('}', i + 3)
            if j > i + 3:
                v = names(s[i + 3:j])
                if v is None:
                    return ('err', s[i:j + 1], i)
                out.append(v)
                i = j + 1
                continue
        elif c in SINGLE:
            out.append(SINGLE[c])
            i += 2
            continue
        out.append('\\')
        i += 1
    return ''.join(out)


def scans(style, content):
    """does `q content q` form ONE string token (every quote escaped, no backslash before \\n / end)"""
    q, i, n = STYLES[style], 0, len(content)
    while i < n:
        if content[i] == q:
            return False
        if content[i] == '\\':
            if i + 1 >= n or content[i + 1] == '\n':
                return False
            i += 2
        else:
            i += 1
    return True


# ------------------------------------------------------------------ engines

POOL_SYM = ['**', '--', '-->', '=>>', '~', '|', '||', '<>', '%', '^', '+x', '!', '@', '::', ':', '<=>', '&&', '&',
            '=~~', '..', '...', '.?', '#', '-', '>']
POOL_WORD = ['xor', 'is', 'div', 'isnot', 'andalso', 'o', 'ñ', 'и', 'true', 'null', 'x1', '_', '__eq', 'modulo', 'no']


def recipe_default():
    return dict(kind='default')


def build_factory(rc):
    if rc['kind'] == 'default':
        return yfactory.YaqlFactory()
    if rc['kind'] == 'legacy':
        import yaql.legacy
        return yaql.legacy.YaqlFactory()
    fac = yfactory.YaqlFactory(keyword_operator=rc['kw'])
    T = yfactory.OperatorType
    for ex, exbin, new, typ, grp in rc['ins']:
        fac.insert_operator(ex, exbin, new, getattr(T, typ), grp)
    if rc.get('drop'):
        fac.operators = [r for r in fac.operators if not (r and r[0] in rc['drop'])]
    return fac


def gen_recipe(rng):
    kw = rng.choice(['=>', '=>', ':', 'as', None, '->>', '='])
    ins = []
    existing = [('.', True), ('+', True), ('+', False), ('*', True), ('>', True), ('not', False), ('and', True),
                ('or', True), ('->', True), ('=~', True), (None, True)]
    for _ in range(rng.randrange(1, 6)):
        ex, exbin = rng.choice(existing)
        new = rng.choice(POOL_SYM + POOL_WORD)
        typ = rng.choice(['PREFIX_UNARY', 'SUFFIX_UNARY', 'BINARY_LEFT_ASSOCIATIVE', 'BINARY_RIGHT_ASSOCIATIVE'])
        ins.append([ex, exbin, new, typ, rng.random() < 0.5])
    drop = []
    if rng.random() < 0.3:
        drop = rng.sample(['[]', '{}', 'in', 'mod', '?.'], rng.randrange(1, 3))
    return dict(kind='custom', kw=kw, ins=ins, drop=drop)


class Eng:
    def __init__(self, rc):
        self.rc = rc
        self.fac = build_factory(rc)
        import contextlib
        import io
        with contextlib.redirect_stderr(io.StringIO()):      # ply reports unused precedence entries of custom tables
            self.engine = self.fac.create()
        ops, self.idx, self.map, self.nvo = lexcfg.table_of(self.fac)
        self.ops = set(ops) | ({'[]'} if self.idx else set()) | ({'{}'} if self.map else set())
        self.type_of = {}


def make_engines(rng, n_custom):
    engs = [Eng(recipe_default()), Eng(dict(kind='legacy'))]
    tries = 0
    while len(engs) < 2 + n_custom and tries < 10 * n_custom + 10:
        tries += 1
        rc = gen_recipe(rng)
        try:
            engs.append(Eng(rc))
        except Exception:      # invalid operator table (duplicate records), ply refusing the grammar ...
            continue
    return engs


# ------------------------------------------------------------------ cases
# a case: dict(fam, eng (index), text, exp, model (bool), src)
#   exp: None | ('val', KIND, python value) | ('err', value, pos) | ('toks', [canonical tokens])

NAMES = {}


def names_fn(n):
    if n not in NAMES:
        NAMES[n] = lexcfg.resolve_name(n)
    return NAMES[n]


def tok(kind, val, pos, sym=None):
    d = dict(k=kind, p=pos)
    if sym is not None:
        d['s'] = lexcfg.cps(sym)
    if val is None:
        d['v'] = None
    elif isinstance(val, str):
        d['v'] = dict(t=lexcfg.cps(val))
    elif isinstance(val, float):
        d['v'] = dict(f=val)
    else:
        d['v'] = dict(i=str(val))
    return d


def case_str(ei, s, style, fam='str'):
    return dict(fam=fam, eng=ei, text=spell(style, s), exp=('val', 'QUOTED_STRING', s),
                model=not lexcfg.has_surrogate(s), src=dict(s=lexcfg.cps(s), style=style))


def case_raw(ei, content, style, fam='raw'):
    """a quoted token with the given raw content (must scan as one token)"""
    q = STYLES[style]
    text = q + content + q
    if style == 'v':
        exp = ('val', 'QUOTED_STRING', content.replace('\\`', '`'))
    else:
        r = ref_decode(content, names_fn)
        exp = ('err', r[1], 1 + r[2]) if isinstance(r, tuple) else ('val', 'QUOTED_STRING', r)
    return dict(fam=fam, eng=ei, text=text, exp=exp, model=True, src=dict(content=lexcfg.cps(content), style=style))


SURR_ESC = __import__('re').compile(r'\\u[dD][89a-fA-F]|\\U0000[dD][89a-fA-F]')
STR_ALPHA = ['\\', '\\', '\\', "'", '"', '`', '`', 'U', 'u', 'x', 'N', '{', '}', '0', '7', '8', '1', 'a', 'b', 'f', 'n',
             'r', 't', 'v', 'q', 'z', ' ', '\n', '\t', '\r', '$', '(', '_', 'é', 'я', '\u3042', '\U0001F600', '٣',
             'A', 'F', 'g', '.', '\x00', '\x7f', '\x85', '\u2028']


def gen_string(rng):
    n = rng.choice([0, 1, 1, 2, 2, 3, 3, 4, 5, 6, 8, 12, 20])
    return ''.join(rng.choice(STR_ALPHA) for _ in range(n))


def gen_content(rng, style):
    """raw content that scans as one token: plain characters and backslash pairs"""
    q = STYLES[style]
    out = []
    for _ in range(rng.choice([1, 1, 2, 2, 3, 4, 5, 7, 10, 14])):
        r = rng.random()
        if r < 0.45:
            e = rng.choice(STR_ALPHA + ['U', 'u', 'x', 'N', 'N'])
            if e == '\n':
                e = 'n'
            out.append('\\' + e)
            if e == 'N' and rng.random() < 0.8:
                out.append('{' + rng.choice(['LATIN SMALL LETTER A', 'latin small letter b', 'LF', 'foo', '', 'BULLET',
                                             'GREEK SMALL LETTER ALPHA', 'a}b', 'é', 'SPACE', 'NULL',
                                             'LATIN CAPITAL LETTER A WITH MACRON AND GRAVE', 'CJK UNIFIED IDEOGRAPH-4E00',
                                             'HANGUL SYLLABLE GA', 'DIGIT ONE ']) + rng.choice(['}', '}', '}', '']))
            elif e in 'Uux' and rng.random() < 0.85:
                k = {'U': 8, 'u': 4, 'x': 2}[e]
                k = rng.choice([k, k, k, k, k - 1, k + 1])
                hx = ''.join(rng.choice('0123456789abcdefABCDEF') for _ in range(k))
                if e == 'U' and rng.random() < 0.7:
                    hx = rng.choice(['0000', '0001', '0010', '0011', '000e']) + hx[4:]
                if rng.random() < 0.15 and hx:
                    i = rng.randrange(len(hx))
                    hx = hx[:i] + rng.choice(['g', 'z', ' ', '٣', '-']) + hx[i + 1:]
                out.append(hx)
        else:
            c = rng.choice(STR_ALPHA)
            if c not in (q, '\\'):
                out.append(c)
    s = ''.join(out)
    # never a lone-surrogate escape here (family 'surr' covers them) and it must scan
    return s


SURR_ALPHA = ['\ud83d', '\ud800', '\udbff', '\ude00', '\udc00', '\udfff', '\ud83d', '\ude00',
              'a', '\\', "'", '"', '`', '\U0001F600', '\U00010000', '\ud7ff', '\ue000', '\uffff', ' ']


def gen_cases_surrogates(rng, n, out):
    """strings holding surrogate code points - lone, in pairs (both orders), in runs, next to astral characters - raw in the
    three quote styles and with some or all of their characters written as \\uXXXX escapes.  Real code only (a Lean
    `Char` is a scalar value): a str is a sequence of code points, and the literal spells exactly that sequence."""
    halves = SURR_ALPHA[:6]
    strings = [a + b for a in halves for b in halves] + [a + b + c for a in halves[:2] for b in halves[3:5] for c in halves[:4]]
    strings += ['x' + a + b + 'y' for a in halves for b in halves]
    for _ in range(n):
        strings.append(''.join(rng.choice(SURR_ALPHA) for _ in range(rng.choice([1, 2, 2, 3, 3, 4, 6]))))
    for s_ in dict.fromkeys(strings):
        for st in 'sdv':
            if st == 'v' and verbatim_unspellable(s_):
                continue
            out.append(case_str(0, s_, st, 'surr-str'))
        for q in "'\"":
            parts = []
            for ch in s_:
                o = ord(ch)
                if ch in (q, '\\') or (rng.random() < 0.6 and o < 0x10000):
                    parts.append('\\' + ch if ch in (q, '\\') else '\\u%04x' % o)
                else:
                    parts.append(ch)
            out.append(dict(fam='surr-str', eng=0, text=q + ''.join(parts) + q, exp=('val', 'QUOTED_STRING', s_), model=False,
                            src=dict(esc=True)))


def gen_cases_strings(rng, engs, n, out):
    for _ in range(n):
        ei = 0 if rng.random() < 0.7 else rng.randrange(len(engs))
        s = gen_string(rng)
        for st in 'sdv':
            out.append(case_str(ei, s, st))
    for _ in range(n):
        ei = 0 if rng.random() < 0.7 else rng.randrange(len(engs))
        st = rng.choice('sdv')
        c = gen_content(rng, st)
        if not scans(st, c):
            continue
        if st != 'v' and SURR_ESC.search(c):       # escapes denoting lone surrogates: family 'surr-esc'
            continue
        out.append(case_raw(ei, c, st))


def escape_forms(c):
    """(escape text, is surrogate) for every escape shape that denotes code point c"""
    forms = []
    if c < 0x100:
        forms += ['\\x%02x' % c, '\\x%02X' % c]
    if c < 0x200:
        o = '%o' % c
        forms.append('\\' + o)                 # only safe when not followed by an octal digit: used alone / before 'z'
        if len(o) < 3:
            forms.append('\\' + o.rjust(3, '0'))
    if c < 0x10000:
        forms += ['\\u%04x' % c, '\\u%04X' % c]
    forms += ['\\U%08x' % c, '\\U%08X' % c]
    for e, v in SINGLE.items():
        if ord(v) == c:
            forms.append('\\' + e)
    return forms


def gen_cases_codepoints(rng, tier, lo, hi, out, hist):
    """code points lo..hi-1: raw alone / embedded in the three styles, every escape form.
    quick:    every BMP code point 'mid' (3 raw + 1 escape), c < 0x500 and every 61st 'full'; astral: a sample, 'full'
    thorough: every BMP code point 'full'; every astral one 'light' (raw + \\U escape), every 16th 'full'"""
    for c in range(lo, hi):
        if c >= 0x10000:
            if tier == 'quick':
                if not (rng.random() < 0.002 or c in (0x10000, 0x10FFFF, 0x1F600, 0xE0001)):
                    continue
                level = 'full'
            else:
                level = 'full' if c % 16 == 0 else 'light'
        elif tier == 'thorough' or c < 0x500 or c % 61 == 0:
            level = 'full'
        else:
            level = 'mid'
        full = level == 'full'
        surr = 0xD800 <= c <= 0xDFFF
        ch = chr(c)
        if not surr:
            for st in ('s' if level == 'light' else 'sdv'):
                out.append(case_str(0, ch, st, 'cp-raw'))
            if full:
                for st in 'sdv':
                    out.append(case_str(0, 'a' + ch + 'b', st, 'cp-embedded'))
            if full or (level == 'mid' and c % 5 == 0):
                try:
                    nm = unicodedata.name(ch)
                except ValueError:
                    nm = None
                if nm:
                    out.append(dict(fam='cp-name', eng=0, text="'\\N{%s}'" % nm, exp=('val', 'QUOTED_STRING', ch),
                                    model=True, src=dict(cp=c)))
                    hist['named'] = hist.get('named', 0) + 1
        elif c % 16 == 0 or tier == 'thorough':
            out.append(dict(fam='surr-raw', eng=0, text="'" + ch + "'", exp=('val', 'QUOTED_STRING', ch), model=False,
                            src=dict(cp=c)))
        forms = list(dict.fromkeys(escape_forms(c)))
        if not full:
            forms = [f for f in forms if f[1] == ('u' if c < 0x10000 else 'U') and f == f.lower()][:1]
        for f in forms:
            for st, q in (('s', "'"), ('d', '"')):
                if not full and st == 'd':
                    continue
                fam = 'surr-esc' if surr else 'cp-esc'
                out.append(dict(fam=fam, eng=0, text=q + f + q, exp=('val', 'QUOTED_STRING', ch), model=True,
                                surr=surr, src=dict(cp=c, form=f)))
                if full and not surr:
                    out.append(dict(fam='cp-esc-embedded', eng=0, text=q + 'z' + f + 'z' + q,
                                    exp=('val', 'QUOTED_STRING', 'z' + ch + 'z'), model=True, src=dict(cp=c, form=f)))
            if full and not surr:     # escapes mean nothing in a verbatim string
                out.append(dict(fam='cp-esc-verbatim', eng=0, text='`' + f + '`',
                                exp=('val', 'QUOTED_STRING', f.replace('\\`', '`')), model=True, src=dict(cp=c, form=f)))


SCRIPT_ZEROS = [0x30, 0x30, 0x30, 0x660, 0x6F0, 0x966, 0xFF10, 0x1D7CE, 0x1E950]


def spell_digits(rng, ds, ascii_only):
    if ascii_only:
        return ''.join(chr(0x30 + d) for d in ds)
    z = rng.choice(SCRIPT_ZEROS)
    mixed = rng.random() < 0.3
    return ''.join(chr((rng.choice(SCRIPT_ZEROS) if mixed else z) + d) for d in ds)


def gen_cases_numbers(rng, n, limit, out):
    lens = [1, 1, 2, 3, 5, 9, 10, 18, 19, 20, 21, 38, 39, 40, 100, 308, 309, 310, 640, 641, 1000, 2000, 4000, 4001]
    lens += [limit - 1, limit] if limit else []
    for k in range(n):
        ln = lens[k] if k < len(lens) else rng.choice(lens)
        ds = [rng.randrange(10) for _ in range(ln)]
        if rng.random() < 0.7 and ds[0] == 0:
            ds[0] = rng.randrange(1, 10)
        if rng.random() < 0.2:
            ds = [0] * rng.randrange(1, 4) + ds
            ds = ds[:max(ln, 1)]
        val = int(''.join(map(str, ds)))
        text = spell_digits(rng, ds, rng.random() < 0.8)
        out.append(dict(fam='int', eng=0 if rng.random() < 0.8 else 1, text=text, exp=('val', 'NUMBER', val), model=True,
                        src=dict(digits=len(ds))))
    # the spelling function proper: str(n) for n up to 10**4000
    for k in range(n):
        e = rng.choice([0, 1, 2, 5, 10, 19, 20, 50, 100, 400, 1000, 3999, 4000])
        v = rng.randrange(10 ** e, 10 ** (e + 1)) if e < 4000 else 10 ** 4000 - rng.randrange(0, 3)
        if rng.random() < 0.1:
            v = rng.choice([0, 1, 9, 10, 2 ** 31 - 1, 2 ** 31, 2 ** 63 - 1, 2 ** 63, 2 ** 64, 10 ** 4000])
        out.append(dict(fam='int-str', eng=0, text=str(v), exp=('val', 'NUMBER', v), model=True, src=dict(e=e)))
    if limit:
        for ln in (limit + 1, limit + 2, limit + 700, 2 * limit):
            ds = [rng.randrange(1, 10) for _ in range(ln)]
            if ln == limit + 2:
                ds[0] = 0
            text = spell_digits(rng, ds, True)
            out.append(dict(fam='int-overlimit', eng=0, text='  ' + text, exp=('err', text, 2), model=True,
                            src=dict(digits=ln)))
            # with a dot the same digits are a float: no limit
            out.append(dict(fam='dec-long', eng=0, text=text + '.5', model=True, src=dict(digits=ln),
                            exp=('val', 'NUMBER', lexcfg.model_float(text + '.5'))))
    # decimals
    for k in range(n):
        la = rng.choice([1, 1, 2, 3, 5, 10, 17, 20, 40, 308, 309, 310, 400])
        lb = rng.choice([1, 1, 2, 3, 5, 10, 17, 20, 40, 100, 323, 324, 325, 400, 1100])
        a = [rng.randrange(10) for _ in range(la)]
        b = [rng.randrange(10) for _ in range(lb)]
        if rng.random() < 0.3:
            a = [0]
        if rng.random() < 0.2:
            z = rng.randrange(0, lb)
            b = [0] * z + b[z:]
        sa, sb = ''.join(map(str, a)), ''.join(map(str, b))
        fr = Fraction(int(sa + sb), 10 ** lb)
        try:
            val = float(fr)
        except OverflowError:
            val = float('inf')
        asc = rng.random() < 0.8
        text = spell_digits(rng, a, asc) + '.' + spell_digits(rng, b, asc)
        out.append(dict(fam='dec', eng=0 if rng.random() < 0.8 else 1, text=text, exp=('val', 'NUMBER', val), model=True,
                        src=dict(la=la, lb=lb)))
    # floats printable without exponent: repr / fixed notation read back exactly
    for k in range(n):
        x = rng.choice([rng.random(), rng.uniform(0, 1e6), rng.uniform(0, 1e16), rng.random() * 10 ** rng.randrange(-4, 16),
                        float(rng.randrange(0, 10 ** 15)), 0.1, 0.5, 1.0, 2.5, 1e15, 123456.789, 5e-324, 2.2250738585072014e-308,
                        1.7976931348623157e308, 9007199254740993.0])
        r = repr(x)
        if 'e' not in r and 'inf' not in r and 'nan' not in r:
            out.append(dict(fam='float-repr', eng=0, text=r, exp=('val', 'NUMBER', x), model=True, src=dict(x=r)))
        f = '%.*f' % (rng.choice([1, 17, 30, 330, 1080]), x)
        if float(f) == x:
            out.append(dict(fam='float-fixed', eng=0, text=f, exp=('val', 'NUMBER', x), model=True, src=dict(x=r)))


# several literals in ONE expression: each must denote its own value whatever its neighbours spell
CONFUSABLE = [('1', 1), ('1.0', 1.0), ('true', True), ("'1'", '1'), ('"1"', '1'), ('`1`', '1'), ('0', 0), ('0.0', 0.0),
              ('false', False), ('null', None), ("''", ''), ('""', ''), ("'true'", 'true'), ("'null'", 'null'), ('01', 1),
              ('1.00', 1.0), ('2', 2), ('2.0', 2.0), ('10', 10), ('10.0', 10.0), ("'1.0'", '1.0'), ('00', 0), ('0.00', 0.0),
              ("'\\x31'", '1'), ('"\\061"', '1'), ("'a'", 'a'), ('"a"', 'a'), ('`a`', 'a'), ("'\\n'", '\n'), ('`\\n`', '\\n')]


def gen_cases_multi(rng, n, singles, out):
    pool = [(c['text'], c['exp'][2]) for c in singles
            if c['exp'] and c['exp'][0] == 'val' and c['exp'][1] in ('QUOTED_STRING', 'NUMBER') and c['eng'] == 0
            and len(c['text']) < 40 and c['model'] and '\n' not in c['text'] and c['src'].get('style') != 'v']
    for k in range(n):
        m = rng.choice([2, 2, 3, 3, 4, 6, 9])
        lits = [rng.choice(CONFUSABLE) if (rng.random() < 0.7 or not pool) else rng.choice(pool) for _ in range(m)]
        if rng.random() < 0.5:            # an equal-value pair of different type or spelling, in either order
            a = rng.choice(CONFUSABLE)
            twins = [b for b in CONFUSABLE if b[0] != a[0] and (b[1] == a[1] or str(b[1]) == str(a[1]))]
            if twins:
                lits[rng.randrange(m)] = a
                lits.insert(rng.randrange(len(lits) + 1), rng.choice(twins))
        form = rng.choice(['list', 'list', 'dict', 'args'])
        sep = rng.choice([', ', ',', ' , '])
        if form == 'list':
            text = '[' + sep.join(t for t, _ in lits) + ']'
        elif form == 'dict':
            text = '{' + sep.join('k%d => %s' % (i, t) for i, (t, _) in enumerate(lits)) + '}'
        else:
            text = 'list(' + sep.join(t for t, _ in lits) + ')'
        out.append(dict(fam='multi', eng=0, text=text, exp=('multi', form, [v for _, v in lits]), model=True,
                        src=dict(form=form, n=len(lits))))


WORD_PARTS = ['a', 'b', 'x', 'Z', '_', '_', '0', '1', '9', 'é', 'я', 'λ', '\u3042', '\u4e2d', 'ا', '٣', '²', '\u0903',
              '\U0001D7CE', '\U00010400', 'ª', 'ǅ', '\u00b5', '\uff10', '\u2160', '\u0301']


def word_expect(eng, w):
    """transcription of the keyword rules of the language reference"""
    if w.startswith('__'):
        # theorem C16.keywords: rejected at its first character - provided no operator symbol of the table is a
        # prefix of the word (a custom table with an operator `_` or `__eq` lexes it as operator tokens)
        if any(w.startswith(o) for o in list(eng.ops) + ([eng.nvo] if eng.nvo else [])):
            return None
        return ('err', '_', 0)
    if w in eng.ops:
        return ('toks', [tok('OP', w, 0, w)])
    if w in ('true', 'false', 'null'):
        return ('toks', [tok(w.upper(), None, 0)])
    return ('val', 'KEYWORD_STRING', w)


def is_identifier_shaped(w):
    word, digit = lexcfg.char_classes()
    return bool(w) and all(ord(c) in word for c in w) and ord(w[0]) not in digit


def gen_cases_words(rng, engs, n, out):
    fixed = ['true', 'false', 'null', 'True', 'FALSE', 'Null', 'none', 'truex', 'xtrue', 'true_', '_true', 'nul',
             '__x', '__', '___', '_', '_x', 'a__b', 'x__', '_a_', '__true', '__and', 'and', 'or', 'not', 'in', 'mod',
             'And', 'OR', 'andx', 'xand', 'and_', 'In', 'inn', 'modx', 'is', 'xor', 'div', 'o', 'as', 'x1', 'no', 'ñ', 'и']
    words = list(fixed)
    for _ in range(n):
        k = rng.choice([1, 1, 2, 2, 3, 4, 6, 10])
        words.append(''.join(rng.choice(WORD_PARTS) for _ in range(k)))
    words.append('k' * 100000)
    words.append('_' + 'é' * 50000)
    for w in words:
        if not is_identifier_shaped(w):
            continue
        for ei in ([0, 1] + ([rng.randrange(len(engs))] if len(engs) > 2 else [])):
            eng = engs[ei]
            out.append(dict(fam='word', eng=ei, text=w, exp=word_expect(eng, w), model=True, src=dict(w=lexcfg.cps(w)[:40])))
            # the word behind a dot (`$.word`, `$x.word.word`): a literal denotes the same value wherever it stands; the
            # tight spelling must be read like the spaced one
            if len(w) < 200 and '.' in eng.ops:
                we = word_expect(eng, w)
                if we is not None:
                    for head in ('$', '$x', '$.a'):
                        out.append(dict(fam='member', eng=ei, text='%s.%s' % (head, w), exp=('member', head, w, we[0], we[1] if we[0] != 'err' else None),
                                        model=True, src=dict(w=lexcfg.cps(w)[:40])))
            # `word(` is a call token whatever the word is
            out.append(dict(fam='func', eng=ei, text=w + '()', model=True, src=dict(w=lexcfg.cps(w)[:40]),
                            exp=('toks', [tok('FUNC', w, 0), tok('LIT', ')', len(w) + 1, ')')]), call=w))


# ------------------------------------------------------------------ texts that ANOTHER literal syntax reads differently
# JSON and Python (and the encoders hosts use to build expression texts) have literal syntaxes of their own that overlap
# with yaql's but do not coincide with it: words that are numbers there (NaN, Infinity, inf), exponents, digit
# separators, radix prefixes, suffixes, leading + / zeros, capitalised constants, escapes yaql does not know (\/) or
# reads differently (a \uD83D\uDE00 pair is ONE character for JSON, two code points for yaql), string prefixes, adjacent
# string concatenation.  Every such text goes, as a WHOLE expression, through every public entry point.
FOREIGN_WORDS = ['NaN', 'Infinity', 'nan', 'inf', 'Inf', 'INF', 'infinity', 'None', 'True', 'False', 'TRUE', 'FALSE', 'Null',
                 'NULL', 'nil', 'undefined', 'none', 'e5', 'E5', 'x10', 'L', 'j', 'true', 'false', 'null', 'yes', 'no', 'on', 'off']
FOREIGN_TEXTS = ['-Infinity', '+Infinity', '-NaN', '-inf', '+inf', '1e5', '1E5', '1e+5', '1e-5', '1.5e3', '1.5E3', '1.e3',
                 '-1e5', '.5e1', '1_000', '1_0.5', '0x10', '0X1F', '0o17', '0b11', '01', '007', '-01', '00', '+1', '+1.5', '+0',
                 '--1', '- 1', '-1', '-1.5', '1.', '.5', '-.5', '+.5', '1.0', '-0', '-0.0', '0.0', '1L', '1l', '1j', '1f', '1d',
                 '1.5f', '1e', '1e5.0', '1__0', '1,5', '1 000', '0.1e1', '1.0E+2', '12345678901234567890e-5', '1e400', '1e-400',
                 '"a" "b"', "'a' 'b'", "'a''b'", '"a"\'b\'', 'r"a"', "b'a'", 'u"a"', "f'a'", "r'\\d'", '"""a"""', "'''a'''",
                 '[]', '[1, 2]', '[true, null]', '[NaN]', '[1e5]', '{}', '{"a": 1}', '{"a" => NaN}', '{a => Infinity}', '(1)',
                 '(NaN)', '("a\\/b")', ' NaN ', 'NaN\n', '\tInfinity', ' 1e5', '1e5 ', '"\\/" ', ' "a\\/b"', '\n"\\ud83d\\ude00"\n',
                 ' true', 'true ', '\nnull', ' 1 ', '1.5\n', '\ufeff1', '\ufeff"a"', '\xa01']
FOREIGN_STRINGS = ['/', 'a/b', '</script>', '\U0001F600', 'x\U0001F600y', '\U00010000\U0010ffff', 'é', '\x7f', '\x85', '\u2028',
                   '\u2029', '\x00', '"', "'", '`', '\\', '\\/', '\n', '\r\n', '\b', '\f', '\x1b', '\x07', '\x0b', 'A', 'tab\there',
                   '\ud83d\ude00', '\ud83d', '\ude00\ud83d', '', ' ', 'NaN', '1e5', "it's", 'say "hi"', '\xff', '\u0100']


def foreign_spellings(s):
    """the literal another encoder writes for the string s (text, quote style)"""
    out = []
    for t in (json.dumps(s), json.dumps(s, ensure_ascii=False), json.dumps(s).replace('/', '\\/'), repr(s), ascii(s),
              repr(s).replace('/', '\\/')):
        st = {"'": 's', '"': 'd'}.get(t[:1])
        if st and len(t) >= 2 and t[-1] == t[0]:
            out.append((t[1:-1], st))
    return list(dict.fromkeys(out))


def foreign_number_spellings(rng, x):
    if isinstance(x, int):
        return [repr(x), '+%d' % x, '%05d' % x, '%d.' % x, format(x, '_'), format(x, ','), hex(x), oct(x), bin(x), '%dL' % x,
                '%de%d' % (x, rng.randrange(0, 30)), '%dE-%d' % (x, rng.randrange(0, 30)), '%e' % x, json.dumps(float(x))]
    return [repr(x), json.dumps(x), '%e' % x, '%g' % x, '%.3E' % x, '%r' % (x,), '+%r' % (x,), str(x).lstrip('0'), format(x, '_'),
            '%rf' % (x,), x.hex()]


def gen_cases_foreign(rng, engs, n, out):
    for w in FOREIGN_WORDS:
        for ei in (0, 1):
            out.append(dict(fam='foreign-word', eng=ei, text=w, exp=word_expect(engs[ei], w), model=True, src=dict(w=lexcfg.cps(w))))
    for t in FOREIGN_TEXTS:
        for ei in (0, 1):
            out.append(dict(fam='foreign-text', eng=ei, text=t, exp=None, model=True, src=dict()))
    strings = FOREIGN_STRINGS + [gen_string(rng) for _ in range(n)]
    for s_ in strings:
        for content, st in foreign_spellings(s_):
            if not scans(st, content):
                continue
            c = case_raw(0 if rng.random() < 0.8 else 1, content, st, fam='foreign-str')
            c['model'] = not (lexcfg.has_surrogate(content) or SURR_ESC.search(content))
            out.append(c)
    for _ in range(n):
        q = rng.random()
        if q < 0.4:
            x = rng.choice([0, 1, 7, 10, 255, 1000, 12345, 10 ** 6, 2 ** 31, 2 ** 63, 10 ** 21, rng.randrange(10 ** rng.randrange(1, 25))])
            x = -x if rng.random() < 0.3 else x
        elif q < 0.5:
            x = rng.choice([float('inf'), float('-inf'), float('nan'), 0.0, -0.0, 1e16, 1e-7, 1.5e300, 5e-324, 1e22, 123456789012345680.0])
        else:
            x = rng.choice([1, -1]) * rng.random() * 10 ** rng.randrange(-12, 25)
        for t in dict.fromkeys(foreign_number_spellings(rng, x)):
            out.append(dict(fam='foreign-num', eng=0 if rng.random() < 0.8 else 1, text=t, exp=None, model=True, src=dict()))


SOUP_TOKENS = ['$', '$x', '$1', '$__', '$é', '1', '12', '1.5', '0.0', '1.', '.5', '1..2', '1.5.2', '007', '1x', '1_0', '٣.٥', '1²',
               'a', 'ab', 'a1', '_a', '__a', 'a__', 'é', 'true', 'false', 'null', 'and', 'or', 'not', 'in', 'mod', 'andy',
               'f(', 'and(', '__f(', 'é(', '1(', "'a'", "'a\\'b'", '"b"', '"\\""', '`c`', '`\\``', "''", "'\\x41'", "'\\xzz'",
               "'\\N{foo}'", "'\\U00110000'", "'\\", "'a", '"a', '`a', "'a\\\nb'", "'a\nb'", '+', '-', '*', '/', '.', '?.', '?',
               '=', '!=', '!', '>=', '<=', '>', '<', '=~', '!~', '~', '->', '=>', '=>>', '-->', '(', ')', '[', ']', '{', '}',
               ',', ':', ';', '@', '#', '%', '^', '&', '|', '\\', ' ', '  ', '\t', '\n', '\r', '\x0b', '\x0c', '\xa0',
               '\u3000', '\u2028', '\x00', 'xor', 'is', '**', '--', '||', '<>', '+x', '::', '..', '...', '.?', '_', '²',
               '\U0001F600', 'ñ', 'и', 'as', 'x1', 'no', 'o', 'modulo', '__eq']


def gen_soup(rng):
    k = rng.choice([1, 2, 2, 3, 3, 4, 5, 6, 8, 12, 20, 40])
    parts = []
    for _ in range(k):
        parts.append(rng.choice(SOUP_TOKENS))
        if rng.random() < 0.4:
            parts.append(rng.choice([' ', ' ', '\t', '\n', '\r', '  ']))
    return ''.join(parts)


def gen_cases_soups(rng, engs, n, out):
    # every ordered pair of soup tokens glued together (rule order, \b look-behind) on the default engine
    pairs = [(a, b) for a in SOUP_TOKENS for b in SOUP_TOKENS]
    rng.shuffle(pairs)
    for a, b in pairs[:n]:
        out.append(dict(fam='pair', eng=0, text=a + b, exp=None, model=True, src=dict()))
    for _ in range(n):
        ei = rng.randrange(len(engs))
        out.append(dict(fam='soup', eng=ei, text=gen_soup(rng), exp=None, model=True, src=dict()))


# ------------------------------------------------------------------ running

def c03_oracle(text, real):
    """the lexer clause of C03 on the real outcome alone"""
    if 'foreign' in real:
        return 'a non-YAQL exception escaped the lexer: %s' % real['foreign']
    if 'err' in real:
        pos, v = real['err']['pos'], lexcfg.uncps(real['err']['v'])
        if not isinstance(pos, int) or not 0 <= pos < len(text):
            return 'lexical error position %r outside the text (length %d)' % (pos, len(text))
        if not v or not text.startswith(v, pos):
            return 'lexical error at %d names %r, the text there is %r' % (pos, v[:20], text[pos:pos + 20])
    return None


_ctx = []
EVALS = [0]


def shared_context():
    if not _ctx:
        import yaql
        _ctx.append(yaql.create_context())
    return _ctx[0]


def check_expectation(eng, case, real):
    """the property's oracle on the real code alone; returns None or a message"""
    exp, text = case['exp'], case['text']
    if case['fam'].startswith('foreign') or (case['fam'].startswith(WHOLE_FAMILIES) and (
            FORCE_ALL[0] or zlib.crc32(text.encode('utf8', 'surrogatepass')) % WHOLE_GATE[0] == 0)):
        msg = check_routes(eng, case)
        if msg:
            return msg
    if exp is None:
        return None
    if exp[0] == 'err':
        want = dict(err=dict(v=lexcfg.cps(exp[1]), pos=exp[2]))
        if real != want:
            return 'expected a lexical error %r at %d, the lexer gave %s' % (exp[1][:30], exp[2], brief(real))
        return None
    if exp[0] == 'toks':
        want = dict(ok=exp[1])
        if not lexcfg.same_result(real, want):
            return 'expected tokens %s, the lexer gave %s' % (brief(want), brief(real))
        if case.get('call') is not None:
            try:
                ex = eng.engine(text).expression
            except exceptions.YaqlParsingException as e:
                return 'word() does not parse as a call: %s' % e
            if not (isinstance(ex, expressions.Function) and ex.name == case['call'] and len(ex.args) == 0):
                return 'word() parsed into %r' % (ex,)
        return None
    if exp[0] == 'multi':
        return check_multi(eng, case)
    if exp[0] == 'member':
        return check_member(eng, case)
    kind, val = exp[1], exp[2]
    want = dict(ok=[tok(kind, val, 0)])
    if not lexcfg.same_result(real, want):
        return 'the literal should be one %s token with value %s; the lexer gave %s' % (kind, short(val), brief(real))
    # the parser's constant and the evaluated value
    try:
        st = eng.engine(text)
    except Exception as e:
        return 'the literal does not parse: %s: %s' % (type(e).__name__, str(e)[:80])
    ex = st.expression
    want_cls = expressions.KeywordConstant if kind == 'KEYWORD_STRING' else expressions.Constant
    if type(ex) is not want_cls:
        return 'the literal parsed into %s, not %s' % (type(ex).__name__, want_cls.__name__)
    got = ex.value
    # the literal node evaluated; the whole statement (finalizer included) for every 8th case of the big
    # code-point sweeps and for every case of the other families
    EVALS[0] += 1
    gate = zlib.crc32(text.encode('utf8', 'surrogatepass'))     # a fixed function of the text: replays and shrinking see the same
    if case['fam'].startswith('cp-') and gate % 8 and not FORCE_ALL[0]:
        ev = ex(None, shared_context(), eng.engine)
    else:
        ev = st.evaluate(context=shared_context())
    for g, what in ((got, 'Constant.value'), (ev, 'evaluated value')):
        if type(g) is not type(val) or not (lexcfg.same_float(g, val) if isinstance(val, float) else g == val):
            return '%s is %s, the literal spells %s' % (what, short(g), short(val))
    if kind != 'KEYWORD_STRING' and (FORCE_ALL[0] or not (
            (case['fam'].startswith('cp-') and gate % CP_GATE[0]) or (case['fam'] in ('str', 'raw') and gate % STR_GATE[0]))):
        # every form x every route for the short surrogate strings (all ordered pairs of halves are among them), one
        # (form, route) combination picked by a hash of the text for everything else
        return check_returned(eng, case, val, everything=FORCE_ALL[0] or case['fam'] == 'surr-raw' or (
            case['fam'] == 'surr-str' and len(val) <= 2))
    return None


def same_typed(g, val):
    return type(g) is type(val) and (lexcfg.same_float(g, val) if isinstance(val, float) else g == val)


def same_deep(g, w):
    """type-strict equality at every depth (lists, dicts incl. their keys, in order)"""
    if isinstance(w, list):
        return type(g) is list and len(g) == len(w) and all(same_deep(a, b) for a, b in zip(g, w))
    if isinstance(w, dict):
        return type(g) is dict and len(g) == len(w) and all(
            same_deep(kg, kw) and same_deep(vg, vw) for (kg, vg), (kw, vw) in zip(g.items(), w.items()))
    return same_typed(g, w)


# the literal as the RESULT of an evaluation: alone and nested in lists / dictionaries (as element, value and KEY) ...
RETURN_FORMS = [('%s', lambda v: v), ('[%s]', lambda v: [v]), ('[[%s], %s]', lambda v: [[v], v]),
                ('{%s => %s}', lambda v: {v: v}), ('{%s => [%s]}', lambda v: {v: [v]}),
                ('{k => {%s => %s}}', lambda v: {'k': {v: v}}), ('list(%s, %s)', lambda v: [v, v])]
# ... obtained through every public way a host gets a finished result
RETURN_ROUTES = ['statement', 'copy', 'yaql.eval', 'interface']
RETURNED = {}
WHOLE_FAMILIES = ('word', 'int', 'dec', 'float', 'str', 'raw', 'surr-', 'pair', 'soup')
WHOLE_GATE = [8]           # every 8th text of these families also goes through every entry point as a whole expression
STR_GATE = [1]            # thorough (60000 strings x 3 styles): every 3rd
CP_GATE = [16]            # of the code-point sweeps every 16th case (thorough: every 64th of 4 M) gets the returned-value check
FORCE_ALL = [False]        # while shrinking a failing case and in replays: every form through every route


def returned_value(eng, route, text):
    import yaql
    from yaql import yaql_interface
    if route == 'statement':
        return eng.engine(text).evaluate(context=shared_context())
    if route == 'copy':
        return eng.engine.copy({'yaql.limitIterators': 100000})(text).evaluate(context=shared_context())
    if route == 'yaql.eval':
        return yaql.eval(text)
    return yaql_interface.YaqlInterface(shared_context(), eng.engine)(text)


ROUTED = {}


def route_outcome(eng, route, text):
    try:
        return ('value', returned_value(eng, route, text))
    except Exception as e:      # noqa
        return ('raises', type(e).__name__)


def check_routes(eng, case):
    """a text is ONE expression of ONE language whichever public entry point receives it: Statement.evaluate of the engine,
    of a copy of the engine, the module-level yaql.eval (default table), YaqlInterface - same value (type-strictly, at every
    depth) or the same class of exception.  (What the value has to be is the business of the other oracles, applied to the
    first route.)"""
    text = case['text']
    routes = [r for r in RETURN_ROUTES if case['eng'] == 0 or r != 'yaql.eval']
    ref = route_outcome(eng, routes[0], text)
    for r in routes[1:]:
        ROUTED[r] = ROUTED.get(r, 0) + 1
        got = route_outcome(eng, r, text)
        same = got[0] == ref[0] and (same_deep(got[1], ref[1]) if got[0] == 'value' else got[1] == ref[1])
        if not same:
            say = lambda o: ('returned %s' % short(o[1])) if o[0] == 'value' else ('raised %s' % o[1])     # noqa: E731
            return 'the whole expression %s through %s %s, through engine(text).evaluate() it %s' % (
                short(text), r, say(got), say(ref))
    return None


def check_returned(eng, case, val, everything=False):
    """the value a host gets back for the literal (standard finaliser, output conversion with its default options), alone
    and inside containers, must be the value the literal spells - type-strictly, at every depth"""
    text = case['text']
    default_table = case['eng'] == 0
    forms = RETURN_FORMS if default_table and '\n' not in text else RETURN_FORMS[:1]
    routes = [r for r in RETURN_ROUTES if default_table or r != 'yaql.eval']
    combos = [(f, r) for f in forms for r in routes]
    if not everything:
        combos = [combos[zlib.crc32(text.encode('utf8', 'surrogatepass')) % len(combos)]]
    for (form, mk), route in combos:
        t = form % ((text,) * form.count('%s'))
        want = mk(val)
        RETURNED[route] = RETURNED.get(route, 0) + 1
        RETURNED[form] = RETURNED.get(form, 0) + 1
        try:
            got = returned_value(eng, route, t)
        except Exception as e:      # noqa
            return '%s evaluated through %s raised %s: %s' % (short(t), route, type(e).__name__, str(e)[:80])
        if not same_deep(got, want):
            return '%s evaluated through %s returned %s, the literal spells %s' % (short(t), route, short(got), short(want))
    return None


def check_multi(eng, case):
    """every literal of a composite expression is its own constant with its own value"""
    form, vals = case['exp'][1], case['exp'][2]
    try:
        st = eng.engine(case['text'])
    except Exception as e:
        return 'the expression does not parse: %s: %s' % (type(e).__name__, str(e)[:80])
    ex = st.expression
    if not isinstance(ex, expressions.Function):
        return 'parsed into %s' % type(ex).__name__
    args = list(ex.args)
    if form == 'dict':
        args = [a.destination for a in args if isinstance(a, expressions.MappingRuleExpression)]
    if len(args) != len(vals):
        return '%d literal operands expected, the parser produced %d' % (len(vals), len(args))
    for i, (a, v) in enumerate(zip(args, vals)):
        if type(a) is not expressions.Constant:
            return 'literal #%d parsed into %s, not Constant' % (i, type(a).__name__)
        if not same_typed(a.value, v):
            return 'literal #%d: Constant.value is %s, the literal spells %s' % (i, short(a.value), short(v))
    ev = st.evaluate(context=shared_context())
    got = list(ev.values()) if form == 'dict' and isinstance(ev, dict) else ev
    if form == 'dict' and (not isinstance(ev, dict) or list(ev.keys()) != ['k%d' % i for i in range(len(vals))]):
        return 'evaluated value is %s' % short(ev)
    if not isinstance(got, list) or len(got) != len(vals):
        return 'evaluated value is %s' % short(ev)
    for i, (g, v) in enumerate(zip(got, vals)):
        if not same_typed(g, v):
            return 'literal #%d evaluates to %s, the literal spells %s' % (i, short(g), short(v))
    return None


def parse_outcome(eng, text):
    try:
        return ('ok', eng.engine(text).expression)
    except exceptions.YaqlParsingException as e:
        return ('err', type(e).__name__)
    except Exception as e:      # noqa
        return ('foreign', '%s: %s' % (type(e).__name__, e))


def check_member(eng, case):
    """`head.word`: read like `head . word`; true / false / null are the constants there too, any other word its own
    text, an operator word is the operator (so the text is no complete expression)"""
    _, head, w, kind, val = case['exp']
    tight = parse_outcome(eng, case['text'])
    spaced = parse_outcome(eng, '%s . %s' % (head.replace('.', ' . '), w))
    if tight[0] == 'foreign':
        return 'parsing raised %s' % tight[1]
    if tight[0] != spaced[0] or (tight[0] == 'err' and tight[1] != spaced[1]) or \
            (tight[0] == 'ok' and str(tight[1]) != str(spaced[1])):
        return 'the tight spelling is read as %s, the same tokens with blanks between them as %s' % (
            tight[1] if tight[0] != 'ok' else str(tight[1]), spaced[1] if spaced[0] != 'ok' else str(spaced[1]))
    if tight[0] != 'ok':
        return None
    ex = tight[1]
    right = ex.args[-1] if isinstance(ex, expressions.Function) and ex.args else None
    if kind == 'toks' and w in ('true', 'false', 'null'):
        want = {'true': True, 'false': False, 'null': None}[w]
        if type(right) is not expressions.Constant or right.value is not want:
            return 'the literal %s behind the dot is %r, not the constant' % (w, right)
    elif kind == 'val':
        if type(right) is not expressions.KeywordConstant or right.value != w:
            return 'the word behind the dot is %r, not the keyword %s' % (right, short(w))
    return None


def short(v):
    r = repr(v)
    return r if len(r) < 70 else r[:40] + '...(%d chars)' % len(r)


def brief(res):
    s = json.dumps(res, default=repr)
    return s if len(s) < 300 else s[:300] + '...'


def model_batch(drv, engs, cases, op='lex'):
    """ask the model for every case with model=True, per engine in chunks; returns {case index: result}"""
    out = {}
    by_eng = {}
    for i, c in enumerate(cases):
        if c['model']:
            by_eng.setdefault(c['eng'], []).append(i)
    for ei, idxs in by_eng.items():
        for k in range(0, len(idxs), 30000):
            chunk = idxs[k:k + 30000]
            texts = [cases[i]['text'] for i in chunk]
            cfg = lexcfg.cfg_json(engs[ei].fac, texts, names_fn)
            r = drv.ask(dict(p='C16', op=op, cfg=cfg, texts=[lexcfg.cps(t) for t in texts]))
            if 'r' not in r:
                raise RuntimeError('driver: %r' % (r,))
            for i, m in zip(chunk, r['r']):
                out[i] = m
    return out


def compare_model(case, real, model):
    """None or message: the tie between the real lexer and the model"""
    if 'surr' in model:
        # the model stops at an escape that denotes a lone surrogate; the real lexer builds the str
        ok = 'ok' in real and any(isinstance(t['v'], dict) and any(0xD800 <= c <= 0xDFFF for c in t['v'].get('t', []))
                                  and t['p'] < model['surr'] for t in real['ok'])
        return None if ok else 'model: surrogate escape at %d; real: %s' % (model['surr'], brief(real))
    m = lexcfg.norm_model(model)
    if lexcfg.same_result(real, m):
        return None
    return 'real %s / model %s' % (brief(real), brief(m))


def classify_failure(case):
    """known-finding key of an oracle failure"""
    if case['fam'] in ('str', 'cp-raw', 'cp-embedded') and case['src'].get('style') == 'v' \
            and verbatim_unspellable(lexcfg.uncps(case['src']['s'])):
        return 'verbatim-unspellable'
    if case['fam'].startswith(('int', 'dec', 'float')):
        return 'number-literal'
    if case['fam'] in ('word', 'func'):
        return 'keyword'
    if case['fam'].startswith('foreign'):
        return 'foreign-literal-syntax'
    if case['fam'] in ('pair', 'soup', 'next'):
        return 'lexer-total'
    if case['fam'] in ('multi', 'member'):
        return 'literal-in-context'
    return 'string-literal'


def shrink_str(eng, case):
    """smallest string (by deleting characters) whose spelling still fails the oracle with the same key"""
    s = lexcfg.uncps(case['src']['s'])
    key = classify_failure(case)
    style = case['src']['style']
    changed = True
    while changed and len(s) > 1:
        changed = False
        for i in range(len(s)):
            t = s[:i] + s[i + 1:]
            c2 = case_str(case['eng'], t, style, case['fam'])
            if check_expectation(eng, c2, lexcfg.real_lex(eng.engine, c2['text'])) and classify_failure(c2) == key:
                s, case, changed = t, c2, True
                break
    return case


def shrink_text(eng, case, pred, budget=600):
    """delta debugging on the text: delete chunks (halves, quarters, .. single characters) while `pred` still holds;
    at most `budget` evaluations of `pred`"""
    text = case['text']
    calls = 0
    size = max(1, len(text) // 2)
    while size >= 1 and calls < budget and len(text) > 1:
        i, progressed = 0, False
        while i < len(text) and calls < budget:
            t = text[:i] + text[i + size:]
            calls += 1
            if t and pred(t):
                text, progressed = t, True
            else:
                i += size
        if size == 1 and not progressed:
            break
        size = size // 2 if size > 1 else (1 if progressed else 0)
    c2 = dict(case)
    c2['text'] = text
    return c2


def replay_of(engs, case):
    return dict(fam=case['fam'], engine=engs[case['eng']].rc, text=lexcfg.cps(case['text']),
                exp=list(case['exp']) if case['exp'] else None, src=case.get('src'), call=case.get('call'),
                model=case['model'], text_repr=short(case['text']))


class Runner:
    """processes cases batch by batch (the big sweeps never sit in memory as a whole)"""

    def __init__(self, env, res, engs, rng):
        self.env, self.res, self.engs, self.rng = env, res, engs, rng
        self.drv, self.tier = env['driver'], env['tier']
        self.fam_hist, self.out_hist = {}, {}
        self.known_seen = 0
        self.diffs = 0
        self.counter = 1 << 70
        self.nx = []
        self.nx_max = 6000 if self.tier == 'quick' else 60000
        self.total = 0

    def process(self, cases, sweep=False):
        res, engs, drv = self.res, self.engs, self.drv
        reals = []
        seen = set()
        for c in cases:
            eng = engs[c['eng']]
            text = c['text']
            real = lexcfg.real_lex(eng.engine, text)
            reals.append(real)
            self.total += 1
            self.fam_hist[c['fam']] = self.fam_hist.get(c['fam'], 0) + 1
            okind = 'ok' if 'ok' in real else ('lexical-error' if 'err' in real else 'foreign')
            self.out_hist[okind] = self.out_hist.get(okind, 0) + 1
            nontrivial = 'err' in real or any(
                t['k'] in ('QUOTED_STRING', 'NUMBER', 'KEYWORD_STRING', 'TRUE', 'FALSE', 'NULL', 'FUNC') for t in real.get('ok', []))
            if sweep:       # chunks of a sweep are disjoint: count distinct texts locally
                key = (c['eng'], text)
                if key in seen:
                    sig, nontrivial = 0, False
                else:
                    seen.add(key)
                    self.counter += 1
                    sig = self.counter
            else:
                sig = hash((c['eng'], text))
            res.case(sig, nontrivial,
                     sample=dict(fam=c['fam'], text=short(text), real=brief(real)[:200]) if self.total % 40000 == 7 else None)
            msg = c03_oracle(text, real)
            if msg:
                small = shrink_text(eng, c, lambda t: c03_oracle(t, lexcfg.real_lex(eng.engine, t)) is not None)
                res.fail('oracle', 'lexer-total', '%s: text %s' % (
                    c03_oracle(small['text'], lexcfg.real_lex(eng.engine, small['text'])), short(small['text'])),
                    replay_of(engs, dict(small, exp=None, fam='soup', src={})))
                continue
            msg = check_expectation(eng, c, real)
            if msg:
                key = classify_failure(c)
                if key == 'verbatim-unspellable':
                    self.known_seen += 1
                    if self.known_seen > 1:
                        continue
                if 's' in c['src']:
                    FORCE_ALL[0] = True
                    try:
                        c2 = shrink_str(eng, c)
                        msg2 = check_expectation(eng, c2, lexcfg.real_lex(eng.engine, c2['text']))
                    finally:
                        FORCE_ALL[0] = False
                    if msg2:
                        c, msg = c2, msg2
                res.fail('oracle', key, '[%s] text %s: %s' % (c['fam'], short(c['text']), msg), replay_of(engs, c))
            elif c['exp'] is not None and c['fam'] in ('str', 'cp-raw', 'cp-embedded') and c['src'].get('style') == 'v' \
                    and verbatim_unspellable(lexcfg.uncps(c['src']['s'])):
                res.fail('mismatch', 'verbatim-theorem', 'theorem verbatim_spellable_iff says %s has no back-quoted '
                         'spelling, but the real lexer reads %s back as it' % (
                             short(lexcfg.uncps(c['src']['s'])), short(c['text'])), replay_of(engs, c))
        if drv is None:
            return
        models = model_batch(drv, engs, cases)
        for i, c in enumerate(cases):
            if i not in models:
                continue
            res.traces += 1
            msg = compare_model(c, reals[i], models[i])
            if msg and self.diffs < 8:
                self.diffs += 1
                eng = engs[c['eng']]

                def still(t, eng=eng, c=c):
                    m = drv.ask(dict(p='C16', op='lex', cfg=lexcfg.cfg_json(eng.fac, [t], names_fn), texts=[lexcfg.cps(t)]))['r'][0]
                    return compare_model(c, lexcfg.real_lex(eng.engine, t), m) is not None
                small = shrink_text(eng, c, still)
                m = drv.ask(dict(p='C16', op='lex', cfg=lexcfg.cfg_json(eng.fac, [small['text']], names_fn),
                                 texts=[lexcfg.cps(small['text'])]))['r'][0]
                res.fail('mismatch', 'model-' + classify_failure(c), '[%s] text %s: %s' % (
                    c['fam'], short(small['text']), compare_model(c, lexcfg.real_lex(eng.engine, small['text']), m)),
                    replay_of(engs, dict(small, exp=None, fam='soup', src={})))
        # lexAll is the iteration of nextTok (theorem lexFrom_step), also on the compiled model
        sample = [i for i in models if i % (9 if not sweep else 37) == 0 and len(cases[i]['text']) < 500]
        sub = [cases[i] for i in sample]
        it = model_batch(drv, engs, sub, op='iter')
        for k, i in enumerate(sample):
            if it.get(k) != models[i]:
                res.fail('mismatch', 'model-iter', 'lexAll and iterated nextTok differ on %s' % short(cases[i]['text']),
                         replay_of(engs, cases[i]))
                break
        for c in cases:
            if len(self.nx) < self.nx_max and c['fam'] in ('pair', 'soup', 'word') and c['model'] and 1 < len(c['text']) < 200:
                for _ in range(2):
                    self.nx.append((c['eng'], c['text'], self.rng.randrange(0, len(c['text']) + 1)))

    def next_offsets(self, nx):
        """token() from arbitrary offsets (look-behind of \\b)"""
        res, engs, drv = self.res, self.engs, self.drv
        if drv is None:
            return
        by_eng = {}
        for j, (ei, t, p) in enumerate(nx):
            by_eng.setdefault(ei, []).append(j)
        for ei, js in by_eng.items():
            texts = [nx[j][1] for j in js]
            cfg = lexcfg.cfg_json(engs[ei].fac, texts, names_fn)
            r = drv.ask(dict(p='C16', op='next', cfg=cfg, cases=[[lexcfg.cps(nx[j][1]), nx[j][2]] for j in js]))['r']
            for j, m in zip(js, r):
                _, t, p = nx[j]
                real = lexcfg.real_next(engs[ei].engine, t, p)
                res.traces += 1
                res.case(hash((ei, t, p)), True)
                self.fam_hist['next'] = self.fam_hist.get('next', 0) + 1
                bad = c03_oracle(t, real) if 'tok' not in real and 'eof' not in real else None
                if bad:
                    res.fail('oracle', 'lexer-total', 'token() at offset %d of %s: %s' % (p, short(t), bad),
                             dict(fam='next', engine=engs[ei].rc, text=lexcfg.cps(t), pos=p))
                elif not lexcfg.same_result(real, lexcfg.norm_model(m)):
                    res.fail('mismatch', 'model-next', 'token() at offset %d of %s: real %s / model %s' % (
                        p, short(t), brief(real), brief(lexcfg.norm_model(m))),
                        dict(fam='next', engine=engs[ei].rc, text=lexcfg.cps(t), pos=p))


def run(env, res):
    tier = env['tier']
    CP_GATE[0] = 16 if tier == 'quick' else 64
    STR_GATE[0] = 1 if tier == 'quick' else 3
    rng = common.make_rng(env['seed'], 'C16')
    limit = sys.get_int_max_str_digits()
    hist = {}
    res.rule = ('one case = one expression text lexed by the real ply lexer (and, for a literal, parsed and evaluated) and '
                'by the Lean model; distinct = distinct (operator table, text); non-trivial = the text contains a quoted, '
                'numeric or keyword literal, or makes the lexer stop. Families: every BMP code point and sampled (thorough: '
                'all) astral ones raw/embedded/in every escape shape in the three quote styles; biased random strings '
                'through the spelling functions; raw escape look-alike contents; integers to 10^4000 and over the digit '
                'limit; decimals; identifier-shaped words incl. Unicode; word(; token pairs and soups; token() at arbitrary offsets')
    for b in lexcfg.check_hypotheses():
        res.fail('mismatch', 'charcfg', 'CharCfg hypothesis does not hold for this interpreter: ' + b, dict(hyp=b))

    if env['replay']:
        rp = json.load(open(env['replay']))['case']
        if rp.get('section') == 'floatround':
            floatref.replay(env, res, rp)
            return res
        engs = [Eng(rp['engine'])]
        FORCE_ALL[0] = True
        run_ = Runner(env, res, engs, rng)
        if rp['fam'] == 'next':
            run_.next_offsets([(0, lexcfg.uncps(rp['text']), rp['pos'])])
        else:
            exp = rp.get('exp')
            if exp:
                exp = tuple(exp)
                if exp[0] == 'toks':
                    exp = ('toks', exp[1])

            run_.process([dict(fam=rp['fam'], eng=0, text=lexcfg.uncps(rp['text']), exp=exp, model=rp.get('model', True),
                               src=rp.get('src') or {}, call=rp.get('call'))])
    else:
        engs = make_engines(rng, 4 if tier == 'quick' else 40)
        run_ = Runner(env, res, engs, rng)
        for lo in range(0, 0x110000, 0x1000):
            cases = []
            gen_cases_codepoints(rng, tier, lo, lo + 0x1000, cases, hist)
            if cases:
                run_.process(cases, sweep=True)
        n = 6000 if tier == 'quick' else 60000
        def multi(c):
            singles = []
            gen_cases_numbers(rng, 60, None, singles)
            gen_cases_strings(rng, engs, 300, singles)
            gen_cases_multi(rng, 3000 if tier == 'quick' else 40000, singles, c)
        for gen in (lambda c: gen_cases_surrogates(rng, 150 if tier == 'quick' else 3000, c),
                    lambda c: gen_cases_strings(rng, engs, n, c),
                    lambda c: gen_cases_numbers(rng, 300 if tier == 'quick' else 3000, limit, c),
                    multi,
                    lambda c: gen_cases_words(rng, engs, 1500 if tier == 'quick' else 15000, c),
                    lambda c: gen_cases_foreign(rng, engs, 250 if tier == 'quick' else 2500, c),
                    lambda c: gen_cases_soups(rng, engs, 20000 if tier == 'quick' else 200000, c)):
            cases = []
            gen(cases)
            for k in range(0, len(cases), 50000):
                run_.process(cases[k:k + 50000])
        run_.next_offsets(run_.nx)
    hist['engines'] = len(engs)
    hist['literal_as_returned_result'] = dict(RETURNED)
    hist['whole_expression_through_every_entry_point'] = dict(ROUTED)
    hist['verbatim_unspellable_strings_seen'] = run_.known_seen
    hist['floatround'] = floatref.run_section(env, res, ID, 500 if env['tier'] == 'quick' else 6000)
    res.extra['histogram'] = dict(families=run_.fam_hist, real_outcomes=run_.out_hist, **hist)
    res.extra['engines'] = [e.rc for e in engs][:8]
    res.extra['int_max_str_digits'] = limit
    return res


LEVEL_TEXT = ('Lean 4 theorems over an executable model of yaql/language/lexer.py as ply runs it (rule order, \\b, (?!__), '
              't_ignore, literals, decode_escapes with the ordered alternation, NUMBER conversion, t_error), for ALL strings '
              'and all character-class / operator-table configurations: both escaping spelling functions read back exactly '
              '(roundtrip_single/double), unescaped characters stand for themselves, every escape shape has its documented '
              'value, unknown escapes are kept, a back-quoted string changes only \\` (verbatim_identity), the exact set of '
              'strings with a back-quoted spelling (verbatim_spellable_iff) with the constructed spelling, digit strings denote '
              'their decimal value, a dot makes a float whose double is the decimal rational digits/10^k correctly rounded INSIDE the model '
              '(literalFloat_spec over FloatRound.roundRat: nearest binary64, ties to even, inf from 2^1024-2^970 on, exact on '
              'representable decimals, 1.50 = 1.5, monotone), true/false/null/keywords/__ '
              'rule, word( is a call. Lexer half of C03: every token() call advances, lexical error positions lie inside the text '
              'and name the text there, conversions never have a third outcome, lexAll is the iteration of token(). Tied to '
              'the code by running the compiled model and the real lexer+parser on every BMP code point, sampled astral ones, '
              'all escape shapes, biased strings, big integers, decimals, Unicode words, token soups under default/legacy/custom '
              'operator tables.')
LEVEL_NOTE = ('round 6: texts that another literal syntax (JSON, Python) reads differently - constants of other languages, exponents, '
              'digit separators, radix prefixes, suffixes, foreign escapes, the spellings json.dumps / repr produce for generated values - go as WHOLE '
              'expressions through every public entry point, which must agree (check_routes); model side C16Foreign (\\/ is no escape, foreign '
              'constants are keywords of their own text, 1e5 / 0x10 / 1_000 / 1L are lexical errors; kernel-checked instances). '
              'round 5: the literal is also compared as the RESULT a host receives (alone and nested in lists / dictionaries incl. keys; '
              'Statement.evaluate, copy, yaql.eval, YaqlInterface), model side C16Result.literal_result_fixed (output conversion is the '
              'identity on literal values at every depth); strings with surrogate code points (lone, paired, runs) are real-code only. '
              'partial where the runtime decides: Unicode classes, the \\N{} name table, int()/float() text conversion and the re '
              'engine are parameters of the model read from the running interpreter; the double of a float literal is computed by '
              'the model (proved correctly rounded) and compared bit for bit with the real Constant.value, with float(Fraction) / '
              'int/int division as the independent second derivation of the oracle. Known finding K2: strings with an odd backslash run before a back quote, a '
              'newline or the end have no back-quoted spelling (language design; theorem verbatim_spellable_iff).')
TECHNIQUE = 'Lean 4 proof (induction over strings, ordered-alternative semantics of the escape regex) + differential lexing'
DESIGN_REF = 'DESIGN.md section 5, C16 (and the lexer obligations of C03)'
